"""C16 - declarative codec: encode and decode are mutually inverse and length-exact (bounded native oracle).

Protocol definitions are described here as plain data (lists of dicts), built twice: (a) from the REAL building blocks of codec.py
(Uint/Int and their derived classes, Buf, Spare, BitFieldSet/BitField, Envelope(.f), Sequence(.f), get_pres/get_len callbacks) and
(b) interpreted by the reference encoder/decoder below (plain int/bytes arithmetic, written from the statement):
  integer: raw = (value - offset) / mult, n octets two's complement / unsigned, big or little endian;   buffer: the octets;
  spare: filler octets, ignored on receipt;   bit-field set: n octets read as one big-endian number, fields packed from the most
  significant bit (MSB first) or from the least significant bit (LSB first), fixed values checked on receipt, spare bits zero / ignored;
  envelope: concatenation of its present fields; nested envelope: must fill its slice exactly; sequence: items until the slice is used up;
  optional field: present iff an earlier flag has the wanted value; variable length: given by an earlier length field; `rest`: up to the end.
Observation points: Envelope.to_bytes() / Envelope.from_bytes() of the top-level definition (octets, consumed count, decoded values through
item access), and the exception classes codec.EncodeError / codec.DecodeError.
Judged: encoding == reference; decode(encode(v)) == v and consumes len; re-encode of the decoded message == canonical octets (also after
noise in spare octets/bits); trailing octets rejected with check_len and left alone without; every strict prefix and random corruptions
behave as the reference decoder says (DecodeError exactly when short / trailing / fixed-value mismatch); out-of-range integers and
wrong-length buffers -> EncodeError; over-wide bit-field values truncated with the other octets unchanged."""
import time, random, logging, re, signal, threading
from engine.pyvc.harness import toolkit

BOUND = ("fixed part: every predefined integer class and every width 1..8 x byte order x sign x 6 (offset, mult) pairs at the range ends, 0, +-1 and >53-bit "
         "values incl. one step outside the range; all 128 partitions of one octet into bit-fields x both orders with alternating all-ones/zero, random and over-wide values, "
         "200 random partitions of 2..4 octets with spare and fixed-value fields; 8 hand-written compositions (TLV sequence, length-prefixed nested "
         "envelope, optional tail by flag bit, spare fillers, depth-3 nesting); 120 generated definitions from a fixed seed (about 2200 definition/value "
         "pairs, each with every strict prefix up to 40 octets, trailing octets, check_len on/off, noise in spares, broken fixed values, 6 random corruptions, "
         "encode errors, over-wide values); sampled part: until the budget is used, randomly composed definitions (1..5 fields per level, integer "
         "and buffer lengths 1..8, bit-field sets of 1..4 octets in both orders, nesting depth <= 3, presence flags and length prefixes as uint or bit-field) "
         "x 3 value assignments each with the same battery of checks (about 150 definition/value pairs per second, roughly 100 encode/decode calls each); a CPU-time watchdog of 1.5 s per pair reports non-termination.")


class RefError(Exception):
    pass


class Runaway(BaseException):
    """raised by the CPU-time watchdog (BaseException: an `except Exception` in the code under test must not swallow it)"""


class watchdog:
    """bounds the CPU time (not the wall clock) of one case, so that a decoder that stops advancing cannot eat the machine"""

    def __init__(self, cpu_s=1.5):
        self.cpu_s = cpu_s

    def _fire(self, *a):
        raise Runaway()

    def __enter__(self):
        self.on = hasattr(signal, "setitimer") and threading.current_thread() is threading.main_thread()
        if self.on:
            self.old = signal.signal(signal.SIGVTALRM, self._fire)
            signal.setitimer(signal.ITIMER_VIRTUAL, self.cpu_s)

    def __exit__(self, *a):
        if self.on:
            signal.setitimer(signal.ITIMER_VIRTUAL, 0)
            signal.signal(signal.SIGVTALRM, self.old)
        return False


# ------------------------------------------------------------------------------------------------------------------ reference codec
def int_range(nd):
    bits = 8 * nd["n"]
    return (-(1 << (bits - 1)), (1 << (bits - 1)) - 1) if nd["signed"] else (0, (1 << bits) - 1)


def present(nd, vals):
    p = nd.get("pres")
    return True if p is None else vals.get(p[0]) == p[1]


def enc_int(nd, v):
    d = v - nd["offset"]
    if d % nd["mult"] != 0:
        raise RefError("value not on the grid")
    raw = d // nd["mult"]
    lo, hi = int_range(nd)
    if raw < lo or raw > hi:
        raise RefError("integer out of range")
    if raw < 0:
        raw += 1 << (8 * nd["n"])
    octs = [(raw >> (8 * (nd["n"] - 1 - i))) & 0xff for i in range(nd["n"])]
    return bytes(octs if nd["bo"] == "big" else octs[::-1])


def dec_int(nd, chunk):
    octs = list(chunk) if nd["bo"] == "big" else list(chunk)[::-1]
    raw = 0
    for o in octs:
        raw = raw * 256 + o
    if nd["signed"] and raw >= 1 << (8 * nd["n"] - 1):
        raw -= 1 << (8 * nd["n"])
    return raw * nd["mult"] + nd["offset"]


def bit_layout(nd):
    """[(part, shift)] - shift of the part's least significant bit inside the n-octet big-endian number"""
    total = 8 * nd["n"]
    out = []
    if nd["order"] in ("big", "msb"):
        pos = total
        for p in nd["parts"]:
            pos -= p["bl"]
            out.append((p, pos))
    else:
        pos = total - sum(p["bl"] for p in nd["parts"])
        for p in nd["parts"]:
            out.append((p, pos))
            pos += p["bl"]
    return out


def ref_encode(nodes, vals, noise=None, breakfix=None, seen=None):
    out = b""
    for nd in nodes:
        if not present(nd, vals):
            continue
        k = nd["k"]
        if k == "int":
            enc = enc_int(nd, vals[nd["name"]])
        elif k == "buf":
            enc = bytes(vals[nd["name"]])
            if isinstance(nd["len"], int) and len(enc) != nd["len"]:
                raise RefError("buffer length")
        elif k == "spare":
            enc = bytes([nd["filler"]]) * nd["len"] if noise is None else bytes(noise.randrange(256) for _ in range(nd["len"]))
        elif k == "bits":
            blob = 0
            for p, shift in bit_layout(nd):
                mask = (1 << p["bl"]) - 1
                if p["name"] is None:
                    v = 0 if noise is None else noise.randrange(mask + 1)
                elif p["val"] is not None:
                    v = p["val"]
                    if seen is not None:
                        seen.append(id(p))
                    if breakfix == id(p):
                        v = (v + 1 + (noise.randrange(mask) if noise is not None and mask > 1 else 0)) & mask
                        if v == p["val"]:
                            v = (v + 1) & mask
                else:
                    v = vals[p["name"]] & mask
                blob |= v << shift
            enc = bytes((blob >> (8 * (nd["n"] - 1 - i))) & 0xff for i in range(nd["n"]))
        elif k == "env":
            enc = ref_encode(nd["sub"], vals[nd["name"]], noise, breakfix, seen)
            if isinstance(nd["len"], int) and len(enc) != nd["len"]:
                raise RefError("envelope length")
        elif k == "seq":
            enc = b"".join(ref_encode(nd["item"], v, noise, breakfix, seen) for v in vals[nd["name"]])
        out += enc
    return out


def ref_decode(nodes, data, check_len):
    vals, off = {}, 0
    for nd in nodes:
        if not present(nd, vals):
            continue
        k = nd["k"]
        ln = nd["n"] if k in ("int", "bits") else nd["len"]
        if ln == "rest":
            ln = len(data) - off
        elif isinstance(ln, (tuple, list)):
            ln = vals[ln[1]]
        if len(data) - off < ln:
            raise RefError("short")
        chunk = data[off:off + ln]
        if k == "int":
            vals[nd["name"]] = dec_int(nd, chunk)
        elif k == "buf":
            vals[nd["name"]] = bytes(chunk)
        elif k == "bits":
            blob = 0
            for o in chunk:
                blob = blob * 256 + o
            for p, shift in bit_layout(nd):
                if p["name"] is None:
                    continue
                v = (blob >> shift) & ((1 << p["bl"]) - 1)
                vals[p["name"]] = v
                if p["val"] is not None and v != p["val"]:
                    raise RefError("fixed value")
        elif k == "env":
            vals[nd["name"]], _ = ref_decode(nd["sub"], chunk, True)
        elif k == "seq":
            items, o = [], 0
            while o < len(chunk):
                it, c = ref_decode(nd["item"], chunk[o:], False)
                if c <= 0:
                    raise RefError("empty item")
                items.append(it)
                o += c
            vals[nd["name"]] = items
        off += ln
    if check_len and off != len(data):
        raise RefError("trailing")
    return vals, off


def self_delimiting(nodes):
    return all(nd.get("len") != "rest" for nd in nodes)


# ------------------------------------------------------------------------------------------------------------------ real definitions
STD = {"Uint": (1, "big", False), "Int": (1, "big", True), "Uint16BE": (2, "big", False), "Uint16LE": (2, "little", False),
       "Uint32BE": (4, "big", False), "Uint32LE": (4, "little", False), "Int16BE": (2, "big", True), "Int16LE": (2, "little", True),
       "Int32BE": (4, "big", True), "Int32LE": (4, "little", True)}


def build_fields(cd, nodes):
    out = []
    for nd in nodes:
        k, name = nd["k"], nd.get("name")
        if k == "int":
            kw = {}
            if nd.get("std"):
                cls = getattr(cd, nd["std"])
            else:
                cls = cd.Int if nd["signed"] else cd.Uint
                if nd["bo"] == "little":
                    cls = type(cls.__name__ + "LE", (cls,), {"BO": "little"})
                kw["len"] = nd["n"]
            if nd["offset"] != 0 or nd.get("explicit"):
                kw["offset"] = nd["offset"]
            if nd["mult"] != 1 or nd.get("explicit"):
                kw["mult"] = nd["mult"]
            f = cls(name, **kw)
        elif k == "buf":
            f = cd.Buf(name, len=nd["len"]) if isinstance(nd["len"], int) else cd.Buf(name)
        elif k == "spare":
            f = cd.Spare(name, len=nd["len"], filler=bytes([nd["filler"]])) if nd["filler"] != 0 or nd.get("explicit") else cd.Spare(name, len=nd["len"])
        elif k == "bits":
            parts = tuple(cd.BitField.Spare(bl=p["bl"]) if p["name"] is None else
                          (cd.BitField(p["name"], bl=p["bl"]) if p["val"] is None else cd.BitField(p["name"], bl=p["bl"], val=p["val"])) for p in nd["parts"])
            kw = {} if nd["order"] == "big" and not nd.get("explicit") else {"order": nd["order"]}
            if nd.get("explicit"):
                kw["len"] = nd["n"]
            f = cd.BitFieldSet(set=parts, **kw)
        elif k == "env":
            env = type("Env_" + name, (cd.Envelope,), {"STRUCT": tuple(build_fields(cd, nd["sub"]))})()
            f = env.f(name, len=nd["len"]) if isinstance(nd["len"], int) else env.f(name)
        elif k == "seq":
            item = type("Item_" + name, (cd.Envelope,), {"STRUCT": tuple(build_fields(cd, nd["item"]))})()
            seq = cd.Sequence(item=item)
            f = seq.f(name, len=nd["len"]) if isinstance(nd["len"], int) else seq.f(name)
        else:
            raise KeyError(k)
        ln = nd.get("len")
        if isinstance(ln, (tuple, list)):
            f.get_len = (lambda ref: (lambda v, _: v[ref]))(ln[1])
        if nd.get("pres") is not None:
            f.get_pres = (lambda flag, want: (lambda v: v[flag] == want))(nd["pres"][0], nd["pres"][1])
        out.append(f)
    return out


def build(cd, nodes, check_len=True):
    cls = type("Top", (cd.Envelope,), {"STRUCT": tuple(build_fields(cd, nodes))})
    return cls() if check_len else cls(check_len=False)


# ------------------------------------------------------------------------------------------------------------------ generators
def mk_int(name, n=1, bo="big", signed=False, offset=0, mult=1, **kw):
    return dict(k="int", name=name, n=n, bo=bo, signed=signed, offset=offset, mult=mult, **kw)


def mk_std(name, std, offset=0, mult=1):
    n, bo, signed = STD[std]
    return dict(k="int", name=name, n=n, bo=bo, signed=signed, offset=offset, mult=mult, std=std)


def part(name, bl, val=None, role=None):
    return dict(name=name, bl=bl, val=val, role=role)


def mk_bits(parts, order="big", **kw):
    n = sum(p["bl"] for p in parts)
    assert n % 8 == 0
    return dict(k="bits", order=order, n=n // 8, parts=parts, **kw)


class Gen:
    """random protocol definitions"""

    def __init__(self, rng):
        self.rng, self.ctr = rng, 0

    def name(self, prefix):
        self.ctr += 1
        return "%s%d" % (prefix, self.ctr)

    def int_node(self, plain=False):
        r = self.rng
        if plain:
            return mk_int(self.name("n"), n=r.choice((1, 1, 2)), bo=r.choice(("big", "little")))
        if r.random() < 0.3:
            std = r.choice(sorted(STD))
            nd = mk_std(self.name("i"), std)
        else:
            nd = mk_int(self.name("i"), n=r.randint(1, 8), bo=r.choice(("big", "little")), signed=r.random() < 0.5)
        if r.random() < 0.4:
            nd["offset"] = r.choice((-300, -7, -1, 1, 5, 110, 65536))
        if r.random() < 0.4:
            nd["mult"] = r.choice((-256, -3, -1, 2, 3, 10, 1000))
        return nd

    def partition(self, nbits, roles=()):
        """random parts filling nbits exactly; roles: () or one of ('flag',) / ('len',) to embed"""
        r = self.rng
        special = None
        if roles:
            width = r.randint(7, min(nbits, 12)) if roles[0] == "len" else min(nbits, r.choice((1, 1, 1, 2, 3)))
            special = part(self.name("L" if roles[0] == "len" else "F"), width, role=roles[0])
            nbits -= width
        parts = []
        while nbits > 0:
            s = min(nbits, r.choice((1, 1, 2, 3, 4, 5, 7, 8, 11, 12, 16, r.randint(1, 32))))
            nbits -= s
            x = r.random()
            if x < 0.2:
                parts.append(part(None, s))
            elif x < 0.35:
                parts.append(part(self.name("x"), s, val=r.randrange(1 << s)))
            else:
                parts.append(part(self.name("b"), s))
        if special is not None:
            parts.insert(r.randint(0, len(parts)), special)
        return parts

    def bits_node(self, roles=()):
        r = self.rng
        n = r.randint(1, 4)
        nd = mk_bits(self.partition(8 * n, roles), order=r.choice(("big", "little", "big", "lsb", "msb")))
        if r.random() < 0.2:
            nd["explicit"] = True
        return nd

    def carrier(self, role):
        """a node holding a flag / length field; returns (node, field name, max value)"""
        r = self.rng
        if r.random() < 0.5:
            nd = self.int_node(plain=True)
            nd["role"] = role
            return nd, nd["name"], (1 << (8 * nd["n"])) - 1
        nd = self.bits_node((role,))
        p = [p for p in nd["parts"] if p["role"] == role][0]
        return nd, p["name"], (1 << p["bl"]) - 1

    def level(self, depth, delimited, item=False):
        """fields of one envelope; delimited: the slice handed to this level ends exactly where the level ends"""
        r = self.rng
        nodes, flags = [], []
        nf = r.randint(1, 5 if depth == 1 else 3)
        if item:        # sequence items must have a positive length
            nodes.append(self.int_node() if r.random() < 0.6 else self.bits_node())
        while len([n_ for n_ in nodes if not n_.get("role")]) < nf:
            last = len([n_ for n_ in nodes if not n_.get("role")]) == nf - 1
            kinds = ["int"] * 4 + ["bits"] * 3 + ["buf"] * 2 + ["spare"]
            if depth < 3:
                kinds += ["env"] * 2 + ["seq"] * 2
            k = r.choice(kinds)
            pre = []
            if k == "int":
                nd = self.int_node()
            elif k == "bits":
                nd = self.bits_node()
            elif k == "spare":
                nd = dict(k="spare", name=self.name("s"), len=r.randint(1, 8), filler=r.choice((0, 0, 0xff, 0x2b, 0xaa)))
                if r.random() < 0.3:
                    nd["explicit"] = True
            else:
                modes = ["ref", "ref"]
                if last and delimited:
                    modes += ["rest", "rest"]
                if k in ("buf", "env"):
                    modes += ["fixed", "fixed"]
                mode = r.choice(modes)
                if k == "buf":
                    nd = dict(k="buf", name=self.name("d"), len=r.randint(1, 8) if mode == "fixed" else mode)
                elif k == "env":
                    sub = self.level(depth + 1, delimited=(mode != "fixed"))
                    if mode == "fixed" and not fixed_size(sub):
                        mode = "ref"
                    nd = dict(k="env", name=self.name("e"), sub=sub, len=fixed_size(sub) if mode == "fixed" else mode)
                else:
                    nd = dict(k="seq", name=self.name("q"), item=self.level(depth + 1, delimited=False, item=True), len=mode)
                if nd["len"] == "ref":
                    c, fname, mx = self.carrier("len")
                    nd["len"] = ("ref", fname)
                    nd["maxlen"] = mx
                    pre.append(c)
            if r.random() < 0.25:
                if flags and r.random() < 0.5:
                    fname = r.choice(flags)
                else:
                    c, fname, _ = self.carrier("flag")
                    pre.insert(0, c)
                    flags.append(fname)
                nd["pres"] = (fname, r.randint(0, 1))
            nodes += pre + [nd]
        return nodes


def fixed_size(nodes):
    """encoded size when it does not depend on the values, else None"""
    total = 0
    for nd in nodes:
        if nd.get("pres") is not None:
            return None
        k = nd["k"]
        if k in ("int", "bits"):
            total += nd["n"]
        elif isinstance(nd.get("len"), int):
            total += nd["len"]
        else:
            return None
    return total


def pick_raw(rng, nd):
    lo, hi = int_range(nd)
    c = [lo, hi, 0, 1, lo + 1, hi - 1, rng.randint(lo, hi), rng.randint(lo, hi), rng.randint(lo, hi)]
    if nd["signed"]:
        c.append(-1)
    if nd["n"] >= 7:
        c += [hi - rng.randrange(1 << 20), (1 << 53) + 1 + 2 * rng.randrange(1000)]
    if nd["n"] >= 2:
        c.append(0x0102030405060708 & hi)
    return rng.choice(c)


def gen_vals(rng, nodes, budget=60):
    """values for one level (None when a length does not fit its prefix)"""
    vals = {}
    lenrefs = {nd["len"][1]: nd for nd in nodes if isinstance(nd.get("len"), (tuple, list))}
    for nd in nodes:
        if not present(nd, vals):
            continue
        if nd["k"] == "int":
            if nd["name"] in lenrefs:
                continue
            if nd.get("role") == "flag":
                vals[nd["name"]] = rng.randint(0, 1)
            elif nd.get("role") == "len":
                vals[nd["name"]] = 0
            else:
                vals[nd["name"]] = pick_raw(rng, nd) * nd["mult"] + nd["offset"]
        elif nd["k"] == "bits":
            for p in nd["parts"]:
                if p["name"] is None or p["name"] in lenrefs:
                    continue
                mx = (1 << p["bl"]) - 1
                if p["val"] is not None:
                    vals[p["name"]] = p["val"]
                elif p["role"] == "flag":
                    vals[p["name"]] = rng.randint(0, 1)
                else:
                    vals[p["name"]] = rng.choice((0, mx, 1, 1 << (p["bl"] - 1), rng.randint(0, mx), rng.randint(0, mx)))
    for nd in nodes:
        k = nd["k"]
        if k not in ("buf", "env", "seq"):
            continue
        ref = nd["len"][1] if isinstance(nd["len"], (tuple, list)) else None
        if not present(nd, vals):
            if ref is not None:
                vals[ref] = rng.choice((0, 0, 1, min(5, nd.get("maxlen", 5))))
            continue
        cap = min(budget, nd.get("maxlen", budget))
        if k == "buf":
            n = nd["len"] if isinstance(nd["len"], int) else rng.choice((0, 1, 2, rng.randint(0, min(cap, 20)), rng.randint(0, min(cap, 20))))
            vals[nd["name"]] = bytes(rng.randrange(256) for _ in range(n))
        elif k == "env":
            v = gen_vals(rng, nd["sub"], budget // 2)
            if v is None:
                return None
            vals[nd["name"]] = v
        else:
            items = []
            for _ in range(rng.choice((0, 1, 1, 2, 2, 3, 4))):
                v = gen_vals(rng, nd["item"], budget // 4)
                if v is None:
                    return None
                items.append(v)
            vals[nd["name"]] = items
        if ref is not None:
            n = len(ref_encode([dict(nd, pres=None)], vals))
            if n > nd.get("maxlen", 255):
                return None
            vals[ref] = n
    return vals


# ------------------------------------------------------------------------------------------------------------------ judging
def jsonable(v):
    if isinstance(v, dict):
        return {str(k): jsonable(x) for k, x in v.items()}
    if isinstance(v, (list, tuple)):
        return [jsonable(x) for x in v]
    if isinstance(v, (bytes, bytearray)):
        return {"hex": bytes(v).hex()}
    return v


def same(got, want):
    """decoded container `got` carries every expected value"""
    if isinstance(want, dict):
        for k, w in want.items():
            try:
                g = got[k]
            except Exception:
                return "%s missing" % k
            m = same(g, w)
            if m:
                return "%s: %s" % (k, m) if isinstance(w, (dict, list)) else "%s = %s" % (k, m)
        return None
    if isinstance(want, list):
        if not isinstance(got, (list, tuple)) or len(got) != len(want):
            return "%s items instead of %d" % (len(got) if isinstance(got, (list, tuple)) else "no", len(want))
        for i, (g, w) in enumerate(zip(got, want)):
            m = same(g, w)
            if m:
                return "[%d] %s" % (i, m)
        return None
    if isinstance(want, (bytes, bytearray)):
        try:
            ok = bytes(got) == bytes(want)
        except Exception:
            ok = False
        return None if ok else "%r instead of octets %s" % (got if not isinstance(got, (bytes, bytearray)) else bytes(got).hex(), bytes(want).hex())
    return None if (got == want and not isinstance(got, bool)) else "%r instead of %r" % (got, want)


def scrub(e):
    return re.sub(r" at 0x[0-9a-f]+", "", "%s: %s" % (type(e).__name__, e))[:240]


class Run:
    def __init__(self, cd):
        self.cd, self.cases, self.failures, self.seen, self.stop = cd, 0, [], set(), False

    def fail(self, what, nodes, inp, observed, exp):
        if len(self.failures) < 5 and what not in self.seen:
            self.seen.add(what)
            d = {"definition": jsonable(nodes)}
            d.update(jsonable(inp))
            self.failures.append({"what": what, "input": d, "observed": jsonable(observed), "expected": jsonable(exp)})

    def put(self, env, vals):
        for k, v in vals.items():
            env[k] = v
        return env

    def try_decode(self, nodes, data, check_len):
        env = build(self.cd, nodes, check_len)
        try:
            n = env.from_bytes(bytes(data))
            return env, n, None
        except Exception as e:
            return env, None, e

    def judge_decode(self, what, nodes, data, check_len, inp):
        """the real decoder must behave as the reference decoder on `data`; returns the real envelope when both accept"""
        try:
            want, wn = ref_decode(nodes, data, check_len)
            werr = None
        except RefError as e:
            want, wn, werr = None, None, str(e)
        env, n, err = self.try_decode(nodes, data, check_len)
        inp = dict(inp, data=bytes(data), check_len=check_len)
        if werr is not None:
            if err is None:
                self.fail(what + ": invalid octets accepted", nodes, inp, {"consumed": n}, "DecodeError (%s)" % werr)
            elif not isinstance(err, self.cd.DecodeError):
                self.fail(what + ": rejected with a foreign exception", nodes, inp, scrub(err), "DecodeError (%s)" % werr)
            return None
        if err is not None:
            self.fail(what + ": valid octets rejected", nodes, inp, scrub(err), {"values": want, "consumed": wn})
            return None
        m = same(env, want)
        if m:
            self.fail(what + ": wrong value", nodes, inp, m, {"values": want})
            return None
        if n != wn:
            self.fail(what + ": consumed count", nodes, inp, n, wn)
            return None
        return env

    def case(self, nodes, vals, rng, light=False):
        if self.stop or len(self.failures) >= 3:
            return
        try:
            with watchdog():
                self._case(nodes, vals, rng, light)
        except Runaway:
            self.stop = True
            self.fail("encode/decode does not terminate (1.5 s of CPU time in one case)", nodes, {"values": vals}, "still running", "a result or DecodeError/EncodeError")

    def _case(self, nodes, vals, rng, light=False):
        self.cases += 1
        cd = self.cd
        inp = {"values": vals}
        ref = ref_encode(nodes, vals)
        # (1) encoding
        try:
            enc = bytes(self.put(build(cd, nodes), vals).to_bytes())
        except Exception as e:
            self.fail("to_bytes refuses in-range values", nodes, inp, scrub(e), {"octets": ref})
            return
        if enc != ref:
            self.fail("encoding differs from the reference", nodes, inp, {"octets": enc}, {"octets": ref})
            return
        # (2) decoding the encoding, (3) re-encoding the decoded message
        for check_len in (True, False):
            env = self.judge_decode("decode(encode(v))", nodes, ref, check_len, inp)
            if env is None:
                return
            m = same(env, vals)
            if m:
                self.fail("decode(encode(v)) != v", nodes, inp, m, "the encoded values")
                return
            try:
                again = bytes(env.to_bytes())
            except Exception as e:
                again = scrub(e)
            if again != ref:
                self.fail("re-encoding a decoded message", nodes, inp, {"octets": again}, {"octets": ref})
                return
        # (4) trailing octets
        tail = bytes(rng.randrange(256) for _ in range(rng.choice((1, 1, 2, 5))))
        for check_len in (True, False):
            if self.judge_decode("trailing octets", nodes, ref + tail, check_len, inp) is None and self.failures:
                return
        # (5) short input: strict prefixes
        cuts = range(len(ref)) if len(ref) <= 40 else sorted(set(list(range(12)) + [len(ref) - 1 - i for i in range(8)] + [rng.randrange(len(ref)) for _ in range(12)]))
        for cut in cuts:
            for check_len in ((True, False) if not light else (bool(cut & 1),)):
                self.judge_decode("short input", nodes, ref[:cut], check_len, inp)
            if self.failures:
                return
        # (6) noise in spare octets / spare bits: same values, canonical re-encoding
        noisy = ref_encode(nodes, vals, noise=rng)
        if noisy != ref:
            env = self.judge_decode("noise in spare octets/bits", nodes, noisy, True, inp)
            if env is None:
                return
            try:
                again = bytes(env.to_bytes())
            except Exception as e:
                again = scrub(e)
            if again != ref:
                self.fail("re-encoding after spare noise is not canonical", nodes, dict(inp, data=noisy), {"octets": again}, {"octets": ref})
                return
        # (7) fixed-value mismatch
        fixed_parts = []
        ref_encode(nodes, vals, seen=fixed_parts)
        for pid in sorted(set(fixed_parts), key=fixed_parts.index)[:3]:
            bad = ref_encode(nodes, vals, noise=rng if rng.random() < 0.5 else None, breakfix=pid)
            for check_len in (True, False):
                self.judge_decode("fixed-value mismatch", nodes, bad, check_len, inp)
        # (8) random corruptions
        if ref:
            for _ in range(3 if light else 6):
                d = bytearray(ref)
                for _ in range(rng.choice((1, 1, 2, 3))):
                    i = rng.randrange(len(d))
                    d[i] = rng.choice((d[i] ^ (1 << rng.randrange(8)), rng.randrange(256), 0, 0xff, (d[i] + 1) & 0xff, (d[i] - 1) & 0xff))
                self.judge_decode("corrupted octets", nodes, bytes(d), rng.random() < 0.7, inp)
        if self.failures:
            return
        # (9) unencodable values, over-wide bit-field values (top level fields and first-level nested ones)
        self.encode_errors(nodes, vals, rng, ref, inp)

    def encode_errors(self, nodes, vals, rng, ref, inp):
        cd = self.cd
        targets = [(nodes, None)] + [(nd["sub"], nd["name"]) for nd in nodes if nd["k"] == "env" and present(nd, vals)]
        for lvl, inside in targets:
            lv = vals if inside is None else vals[inside]
            for nd in lvl:
                if not present(nd, lv) or nd.get("role"):
                    continue
                bad = []
                if nd["k"] == "int":
                    lo, hi = int_range(nd)
                    for raw in (hi + 1, lo - 1, hi + rng.randint(2, 1 << 70), lo - rng.randint(2, 1 << 70)):
                        bad.append(("unencodable integer", raw * nd["mult"] + nd["offset"]))
                elif nd["k"] == "buf" and isinstance(nd["len"], int):
                    bad.append(("buffer shorter than its fixed length", bytes(nd["len"] - 1)))
                    bad.append(("buffer longer than its fixed length", bytes(nd["len"] + 1 + rng.randrange(3))))
                for what, v in bad[:4]:
                    v2 = dict(lv)
                    v2[nd["name"]] = v
                    full = v2 if inside is None else dict(vals, **{inside: v2})
                    try:
                        got = bytes(self.put(build(cd, nodes), full).to_bytes())
                        self.fail(what + " accepted", nodes, {"values": full}, {"octets": got}, "EncodeError")
                    except Exception as e:
                        if not isinstance(e, cd.EncodeError):
                            self.fail(what + ": foreign exception", nodes, {"values": full}, scrub(e), "EncodeError")
                if nd["k"] == "bits":
                    cand = [p for p in nd["parts"] if p["name"] is not None and p["val"] is None and not p["role"]]
                    if not cand:
                        continue
                    p = rng.choice(cand)
                    v2 = dict(lv)
                    v2[p["name"]] = lv[p["name"]] + (rng.choice((1, 1, 2, 3, 255, rng.randint(1, 1 << 40))) << p["bl"])
                    full = v2 if inside is None else dict(vals, **{inside: v2})
                    try:
                        got = bytes(self.put(build(cd, nodes), full).to_bytes())
                    except Exception as e:
                        got = scrub(e)
                    if got != ref:
                        self.fail("over-wide bit-field value not truncated to its width", nodes, {"values": full, "field": p["name"], "width": p["bl"]},
                                  {"octets": got}, {"octets": ref})


# ------------------------------------------------------------------------------------------------------------------ fixed part
def compositions(n):
    if n == 0:
        yield []
        return
    for first in range(1, n + 1):
        for rest in compositions(n - first):
            yield [first] + rest


def fixed(r):
    rng = random.Random(20260101)
    pairs = ((0, 1), (5, 1), (0, 2), (-3, 5), (0, -1), (7, -3))
    # integers: predefined classes
    for std in sorted(STD):
        for off, mult in pairs[:3] + pairs[4:5]:
            nd = mk_std("v", std, off, mult)
            nodes = [mk_int("tag"), nd, mk_std("crc", "Uint16BE")]
            lo, hi = int_range(nd)
            for raw in (lo, hi, 0, 1, lo + 1, hi - 1, 0x01020304 & hi, (-2 if nd["signed"] else 0x0a0b0c0d & hi)):
                r.case(nodes, {"tag": 1, "v": raw * mult + off, "crc": 0xbeef}, rng, light=True)
    # integers: every width, byte order, sign
    for n in range(1, 9):
        for bo in ("big", "little"):
            for signed in (False, True):
                for off, mult in pairs:
                    nd = mk_int("v", n, bo, signed, off, mult)
                    nodes = [nd, mk_int("end")]
                    lo, hi = int_range(nd)
                    raws = [lo, hi, 0x0102030405060708 & hi]
                    if n >= 7:
                        raws += [(1 << 53) + 1, hi - 12345]
                    for raw in raws:
                        r.case(nodes, {"v": raw * mult + off, "end": 0x7e}, rng, light=True)
    # bit-field sets: every partition of one octet, both orders
    for comp in compositions(8):
        for order in ("big", "little"):
            parts = [part("b%d" % i, bl) for i, bl in enumerate(comp)]
            nodes = [mk_int("pre"), mk_bits(parts, order), mk_int("post")]
            for sel in range(3):    # even fields all-ones, odd fields all-ones, random values
                vals = {"pre": 0xa5, "post": 0x5a}
                for i, bl in enumerate(comp):
                    vals["b%d" % i] = rng.randrange(1 << bl) if sel == 2 else (((1 << bl) - 1) if i % 2 == sel else 0)
                r.case(nodes, vals, rng, light=True)
    # bit-field sets of 2..4 octets with spare and fixed parts
    g = Gen(rng)
    for i in range(200):
        nd = g.bits_node()
        if nd["n"] == 1:
            nd = mk_bits(g.partition(8 * rng.randint(2, 4)), order=nd["order"])
        nodes = [mk_int("pre"), nd, mk_std("post", "Uint16LE")]
        v = gen_vals(rng, nodes)
        r.case(nodes, v, rng, light=True)
    # hand-written compositions
    tlv = [mk_int("T"), mk_int("L", role="len"), dict(k="buf", name="V", len=("ref", "L"), maxlen=255)]
    hdr = mk_bits([part("ver", 4, val=2), part(None, 1), part("tn", 3), part("flag", 1, role="flag"), part(None, 1), part("trxn", 6)])
    defs = [
        [mk_int("tag"), dict(k="seq", name="tlvs", item=tlv, len="rest")],
        [hdr, mk_std("len", "Uint16BE", ), dict(k="buf", name="data", len=("ref", "len"), maxlen=65535), dict(k="buf", name="tail", len=2, pres=("flag", 1))],
        [hdr, dict(k="spare", name="rfu", len=3, filler=0), mk_std("fn", "Uint32BE"), dict(k="buf", name="bits", len="rest")],
        [mk_int("n", role="len"), dict(k="env", name="inner", len=("ref", "n"), maxlen=255, sub=[mk_std("a", "Int16LE"), dict(k="buf", name="b", len="rest")]), mk_int("z", 3, "little", True)],
        [mk_int("rssi", mult=-1), mk_std("toa", "Int16BE"), dict(k="env", name="e", len=5, sub=[mk_int("x", 2), dict(k="spare", name="p", len=2, filler=0xaa), mk_int("y")])],
        [mk_bits([part("f", 1, role="flag"), part("cnt", 7, role="len")], "little"),
         dict(k="seq", name="q", len=("ref", "cnt"), maxlen=127, item=[mk_int("k", 2, "little"), mk_bits([part("m", 3), part(None, 2), part("z", 3, val=5)], "lsb")]),
         mk_int("opt", 8, "big", True, pres=("f", 0))],
        [mk_int("d1"), dict(k="env", name="l1", len="rest", sub=[mk_int("d2"), dict(k="env", name="l2", len="rest", sub=[mk_int("d3", 2), dict(k="seq", name="q3", len="rest", item=[mk_int("i", 1, signed=True)])])])],
        [dict(k="spare", name="s0", len=1, filler=0xff, explicit=True), mk_int("u56", 7, "big", False, 3, 5), mk_int("i64", 8, "little", True), dict(k="buf", name="fix", len=8)],
    ]
    for nodes in defs:
        done = 0
        for _ in range(60):
            v = gen_vals(rng, nodes)
            if v is not None:
                r.case(nodes, v, rng)
                done += 1
            if done >= 12:
                break
    # generated definitions, fixed seed
    for i in range(120):
        generated(r, rng, 2)


def generated(r, rng, nvals=3):
    g = Gen(rng)
    nodes = g.level(1, delimited=True)
    done = 0
    for _ in range(4 * nvals):
        v = gen_vals(rng, nodes)
        if v is None:
            continue
        r.case(nodes, v, rng)
        done += 1
        if done >= nvals or r.failures:
            break


def run(budget_s=20.0, seed=0):
    t0 = time.time()
    prev = logging.root.manager.disable
    logging.disable(logging.CRITICAL)
    try:
        r = Run(toolkit("codec"))
        fixed(r)
        rng = random.Random(seed)
        while time.time() - t0 < budget_s and not r.failures:
            for _ in range(5):
                generated(r, rng)
        return {"cases": r.cases, "failures": r.failures[:5]}
    finally:
        logging.disable(prev)

"""C01 - TRXD messages survive encode/decode unchanged (bounded native oracle).

Observation points: TxMsg/RxMsg.gen_msg(legacy) -> octets, TxMsg/RxMsg.parse_msg(octets) -> message fields.
Expectation (from the statement): the decoded message equals the encoded one in every field: ver, fn, tn, burst (length and every
bit), pwr (Tx) / rssi, toa256 (Rx), for version-1 Rx also nope_ind, ci and - unless it is a NOPE indication, which carries neither
modulation nor training sequence - mod_type, tsc_set, tsc.  A version-0 message with the two legacy padding octets decodes to the
same message as without them; on version 1 the legacy flag has no effect.
Only messages inside the quantifier are built (hard bits 0/1, soft bits -127..127, every field inside its protocol range)."""
import time, random, logging
from array import array
from engine.pyvc.harness import toolkit

BOUND = ("fixed part: all 112 valid (modulation, TSC set, TSC) combinations x legacy on/off on version-1 Rx with boundary header values; "
         "Tx and version-0 Rx at both burst lengths (148/444) x versions x legacy on/off x 10 burst patterns (all-0, all-1, alternating, "
         "single bit at either end, ramp through every soft value -127..127, constant -127/0/127); every TN 0..7; FN, attenuation, RSSI, ToA256 "
         "and C/I at both ends of their ranges and at octet-carry values; NOPE indications with and without legacy flag "
         "(1198 messages; version-0 ones are round-tripped with both legacy flags and the two results compared).  Sampled part: until the budget is used, "
         "random valid messages (class, version, legacy, all header fields over their full ranges with 25 % boundary bias, random and patterned bursts), "
         "about 5000 messages per second.  Not reachable: decoder behaviour on octets no valid message encodes to (reserved header bit, unsigned soft bit 255).")

HYPERFRAME = 2048 * 26 * 51
MODS = (("ModGMSK", 148, 4), ("Mod8PSK", 444, 2), ("ModGMSK_AB", 148, 2), ("Mod16QAM", 592, 2), ("Mod32QAM", 740, 2), ("ModAQPSK", 296, 2))
FN_EDGE = (0, 1, 255, 256, 65535, 65536, 16777215 % HYPERFRAME, 2715647, 2715646, 1234567, 0x123456, 0x290000)
TOA_EDGE = (-32768, -32767, -257, -256, -255, -1, 0, 1, 127, 128, 255, 256, 32766, 32767, 0x1234, -0x1234)
CI_EDGE = (-1280, -1279, -257, -256, -1, 0, 1, 255, 256, 1279, 1280)
RSSI_EDGE = (-120, -119, -100, -64, -48, -47)
PWR_EDGE = (0, 1, 127, 128, 254, 255)


def hard_patterns(n):
    yield "zeros", [0] * n
    yield "ones", [1] * n
    yield "alt01", [i & 1 for i in range(n)]
    yield "alt10", [(i + 1) & 1 for i in range(n)]
    yield "first", [1] + [0] * (n - 1)
    yield "last", [0] * (n - 1) + [1]
    yield "mix", [((i * 7 + i // 5) >> 1) & 1 for i in range(n)]
    yield "tail-ones", [0] * (n - 3) + [1] * 3
    yield "head-ones", [1] * 3 + [0] * (n - 3)
    yield "thirds", [1 if (i // 148) % 2 == 0 else 0 for i in range(n)]


def soft_patterns(n):
    yield "ramp", [((i % 255) - 127) for i in range(n)]
    yield "ramp-down", [(127 - (i % 255)) for i in range(n)]
    yield "min", [-127] * n
    yield "max", [127] * n
    yield "zero", [0] * n
    yield "alt", [127 if i & 1 else -127 for i in range(n)]
    yield "pm1", [1 if i & 1 else -1 for i in range(n)]
    yield "first", [-127] + [0] * (n - 1)
    yield "last", [0] * (n - 1) + [127]
    yield "stride", [(((i * 37) % 255) - 127) for i in range(n)]


class Case:
    """a message of the quantifier, in plain python values"""
    __slots__ = ("cls", "ver", "fn", "tn", "pwr", "rssi", "toa256", "ci", "mod", "tsc_set", "tsc", "nope", "burst", "legacy", "null_mts", "as_bytes")

    def __init__(self, **kw):
        self.pwr = self.rssi = self.toa256 = self.ci = self.mod = self.tsc_set = self.tsc = self.burst = None
        self.nope = False
        self.legacy = False
        self.null_mts = False
        self.as_bytes = False
        for k, v in kw.items():
            setattr(self, k, v)

    def describe(self):
        d = {k: getattr(self, k) for k in ("cls", "ver", "fn", "tn", "legacy")}
        if self.cls == "tx":
            d["pwr"] = self.pwr
            d["burst_bits"] = "".join(map(str, self.burst))
        else:
            d.update(rssi=self.rssi, toa256=self.toa256)
            if self.ver >= 1:
                d.update(ci=self.ci, nope_ind=self.nope)
                if not (self.nope and self.null_mts):
                    d.update(mod_type=self.mod, tsc_set=self.tsc_set, tsc=self.tsc)
            if self.burst is not None:
                d["burst_int8_hex"] = bytes((b & 0xff) for b in self.burst).hex()
        d["parse_input_type"] = "bytes" if self.as_bytes else "bytearray"
        return d


def build(dm, c):
    if c.cls == "tx":
        m = dm.TxMsg(fn=c.fn, tn=c.tn, ver=c.ver)
        m.pwr = c.pwr
        m.burst = bytearray(c.burst)
        return m
    m = dm.RxMsg(fn=c.fn, tn=c.tn, ver=c.ver)
    m.rssi, m.toa256 = c.rssi, c.toa256
    if c.ver >= 1:
        m.ci = c.ci
        m.nope_ind = bool(c.nope)
        if c.nope and c.null_mts:
            m.mod_type = m.tsc_set = m.tsc = None
        else:
            m.mod_type = getattr(dm.Modulation, c.mod)
            m.tsc_set, m.tsc = c.tsc_set, c.tsc
    if c.burst is not None:
        m.burst = array('b', c.burst)
    return m


def view(dm, m, c):
    """the fields the statement compares, read from a decoded message"""
    v = {"ver": m.ver, "fn": m.fn, "tn": m.tn, "burst": None if m.burst is None else [int(x) for x in m.burst]}
    if c.cls == "tx":
        v["pwr"] = m.pwr
        return v
    v["rssi"], v["toa256"] = m.rssi, m.toa256
    if c.ver >= 1:
        v["ci"] = m.ci
        v["nope_ind"] = bool(m.nope_ind)
        if not c.nope:
            v["mod_type"] = getattr(m.mod_type, "name", m.mod_type)
            v["tsc_set"], v["tsc"] = m.tsc_set, m.tsc
    return v


def expected(c):
    v = {"ver": c.ver, "fn": c.fn, "tn": c.tn, "burst": None if c.burst is None else list(c.burst)}
    if c.cls == "tx":
        v["pwr"] = c.pwr
        return v
    v["rssi"], v["toa256"] = c.rssi, c.toa256
    if c.ver >= 1:
        v["ci"] = c.ci
        v["nope_ind"] = bool(c.nope)
        if not c.nope:
            v["mod_type"], v["tsc_set"], v["tsc"] = c.mod, c.tsc_set, c.tsc
    return v


def short(v):
    """compact rendering of a view (bursts abbreviated to length + first difference is added by the caller)"""
    d = dict(v)
    b = d.get("burst")
    if b is not None:
        d["burst"] = "len %d: %s..." % (len(b), b[:12])
    return d


def diff(exp, got):
    out = {}
    for k in exp:
        if exp[k] != got.get(k):
            if k == "burst" and exp[k] is not None and got.get(k) is not None:
                e, g = exp[k], got[k]
                if len(e) != len(g):
                    out[k] = "length %d instead of %d" % (len(g), len(e))
                else:
                    i = next(i for i in range(len(e)) if e[i] != g[i])
                    out[k] = "bit %d is %r instead of %r" % (i, g[i], e[i])
            else:
                b = got.get(k)
                out[k] = "%r instead of %r" % (("len %d" % len(b)) if k == "burst" and b is not None else b, ("len %d" % len(exp[k])) if k == "burst" and exp[k] is not None else exp[k])
    return out


class Run:
    def __init__(self, dm):
        self.dm, self.cases, self.failures, self.seen = dm, 0, [], set()

    def fail(self, what, c, observed, exp):
        if len(self.failures) < 5 and (what, c.cls, c.ver) not in self.seen:
            self.seen.add((what, c.cls, c.ver))
            self.failures.append({"what": what, "input": c.describe(), "observed": observed, "expected": exp})

    def decode(self, c, data):
        m = self.dm.TxMsg() if c.cls == "tx" else self.dm.RxMsg()
        m.parse_msg(bytes(data) if c.as_bytes else bytearray(data))
        return view(self.dm, m, c)

    def one(self, c):
        """round trip with the case's legacy flag; for version 0 also the other flag and their agreement"""
        self.cases += 1
        exp = expected(c)
        got = {}
        for legacy in ((c.legacy,) if c.ver != 0 else (c.legacy, not c.legacy)):
            try:
                enc = build(self.dm, c).gen_msg(legacy)
            except Exception as e:
                self.fail("gen_msg refuses a valid message", c, "legacy=%s: %s: %s" % (legacy, type(e).__name__, e), "octets")
                return
            try:
                got[legacy] = self.decode(c, enc)
            except Exception as e:
                self.fail("parse_msg refuses the encoding of a valid message", c, "legacy=%s: %s: %s" % (legacy, type(e).__name__, e), short(exp))
                return
            if got[legacy] != exp:
                self.fail("decoded message differs from the encoded one", c, {"legacy": legacy, "differences": diff(exp, got[legacy])}, short(exp))
                return
        if len(got) == 2 and got[True] != got[False]:
            self.fail("legacy padding changes the decoded version-0 message", c, diff(got[False], got[True]), "same message with and without the two padding octets")


def mk_rx1(mod, tsc_set, tsc, bits, **kw):
    d = dict(cls="rx", ver=1, fn=1234567, tn=5, rssi=-63, toa256=-321, ci=123, mod=mod, tsc_set=tsc_set, tsc=tsc, burst=bits)
    d.update(kw)
    return Case(**d)


def fixed(r):
    k = 0
    # every (modulation, TSC set, TSC) combination, legacy flag both ways, boundary header values rotating
    for mod, bl, nsets in MODS:
        pats = list(soft_patterns(bl))
        for tsc_set in range(nsets):
            for tsc in range(8):
                for legacy in (False, True):
                    k += 1
                    r.one(mk_rx1(mod, tsc_set, tsc, pats[k % len(pats)][1], legacy=legacy, fn=FN_EDGE[k % len(FN_EDGE)], tn=k % 8,
                                 rssi=RSSI_EDGE[k % len(RSSI_EDGE)], toa256=TOA_EDGE[k % len(TOA_EDGE)], ci=CI_EDGE[k % len(CI_EDGE)], as_bytes=bool(k & 2)))
    # every burst pattern at every length
    for mod, bl, nsets in MODS:
        for name, bits in soft_patterns(bl):
            k += 1
            r.one(mk_rx1(mod, k % nsets, k % 8, bits, as_bytes=bool(k & 1)))
    for ver in (0, 1):
        for bl in (148, 444):
            for name, bits in hard_patterns(bl):
                for legacy in (False, True):
                    k += 1
                    r.one(Case(cls="tx", ver=ver, fn=FN_EDGE[k % len(FN_EDGE)], tn=k % 8, pwr=PWR_EDGE[k % len(PWR_EDGE)], burst=bits, legacy=legacy, as_bytes=bool(k & 1)))
    for bl in (148, 444):
        for name, bits in soft_patterns(bl):
            for legacy in (False, True):
                k += 1
                r.one(Case(cls="rx", ver=0, fn=FN_EDGE[k % len(FN_EDGE)], tn=k % 8, rssi=RSSI_EDGE[k % len(RSSI_EDGE)], toa256=TOA_EDGE[k % len(TOA_EDGE)],
                           burst=bits, legacy=legacy, as_bytes=bool(k & 1)))
    # header boundaries one at a time
    ramp148 = [((i % 255) - 127) for i in range(148)]
    mix148 = [((i * 7 + i // 5) >> 1) & 1 for i in range(148)]
    for fn in FN_EDGE:
        for tn in range(8):
            r.one(Case(cls="tx", ver=tn & 1, fn=fn, tn=tn, pwr=17, burst=mix148, legacy=bool(tn & 2)))
            r.one(Case(cls="rx", ver=0, fn=fn, tn=tn, rssi=-77, toa256=5, burst=ramp148, legacy=bool(tn & 4)))
            r.one(mk_rx1("ModGMSK", tn % 4, 7 - tn, ramp148, fn=fn, tn=tn))
    for pwr in range(256):
        r.one(Case(cls="tx", ver=pwr & 1, fn=42, tn=pwr % 8, pwr=pwr, burst=mix148, legacy=bool(pwr & 2)))
    for rssi in range(-120, -46):
        r.one(Case(cls="rx", ver=0, fn=42, tn=1, rssi=rssi, toa256=0, burst=ramp148))
        r.one(mk_rx1("ModGMSK", 0, 0, ramp148, rssi=rssi))
    for toa in TOA_EDGE:
        r.one(Case(cls="rx", ver=0, fn=42, tn=1, rssi=-50, toa256=toa, burst=ramp148, legacy=True))
        r.one(mk_rx1("ModGMSK_AB", 1, 3, ramp148, toa256=toa))
    for ci in CI_EDGE:
        r.one(mk_rx1("Mod8PSK", 1, 3, ramp148 * 3, ci=ci))
        r.one(mk_rx1("ModGMSK", 0, 0, None, nope=True, ci=ci, null_mts=True))
    # NOPE / IDLE indications (version 1 only: earlier versions cannot express them)
    for legacy in (False, True):
        for null_mts in (False, True):
            for i, fn in enumerate(FN_EDGE):
                r.one(mk_rx1(MODS[i % 6][0], i % 2, i % 8, None, nope=True, null_mts=null_mts, legacy=legacy, fn=fn, tn=i % 8,
                             rssi=RSSI_EDGE[i % len(RSSI_EDGE)], toa256=TOA_EDGE[i % len(TOA_EDGE)], ci=CI_EDGE[i % len(CI_EDGE)], as_bytes=bool(i & 1)))


def edge_or(rng, edges, lo, hi):
    return rng.choice(edges) if rng.random() < 0.25 else rng.randint(lo, hi)


def sample(r, rng):
    kind = rng.random()
    legacy = rng.random() < 0.5
    fn = edge_or(rng, FN_EDGE, 0, HYPERFRAME - 1)
    tn = rng.randint(0, 7)
    as_bytes = rng.random() < 0.5
    if kind < 0.3:
        bl = rng.choice((148, 444))
        if rng.random() < 0.2:
            bits = rng.choice(list(hard_patterns(bl)))[1]
        else:
            x = rng.getrandbits(bl)
            bits = [(x >> i) & 1 for i in range(bl)]
        return r.one(Case(cls="tx", ver=rng.randint(0, 1), fn=fn, tn=tn, pwr=edge_or(rng, PWR_EDGE, 0, 255), burst=bits, legacy=legacy, as_bytes=as_bytes))
    rssi = edge_or(rng, RSSI_EDGE, -120, -47)
    toa = edge_or(rng, TOA_EDGE, -32768, 32767)

    def soft(bl):
        if rng.random() < 0.15:
            return rng.choice(list(soft_patterns(bl)))[1]
        if rng.random() < 0.3:
            return [rng.choice((-127, -126, -1, 0, 1, 126, 127)) for _ in range(bl)]
        return [rng.randint(-127, 127) for _ in range(bl)]
    if kind < 0.5:
        return r.one(Case(cls="rx", ver=0, fn=fn, tn=tn, rssi=rssi, toa256=toa, burst=soft(rng.choice((148, 444))), legacy=legacy, as_bytes=as_bytes))
    mod, bl, nsets = rng.choice(MODS)
    ci = edge_or(rng, CI_EDGE, -1280, 1280)
    nope = rng.random() < 0.15
    return r.one(mk_rx1(mod, rng.randrange(nsets), rng.randint(0, 7), None if nope else soft(bl), nope=nope, null_mts=rng.random() < 0.5,
                        fn=fn, tn=tn, rssi=rssi, toa256=toa, ci=ci, legacy=legacy, as_bytes=as_bytes))


def run(budget_s=20.0, seed=0):
    t0 = time.time()
    prev = logging.root.manager.disable
    logging.disable(logging.CRITICAL)
    try:
        dm = toolkit("data_msg")
        r = Run(dm)
        fixed(r)
        rng = random.Random(seed)
        while time.time() - t0 < budget_s and not r.failures:
            for _ in range(50):
                sample(r, rng)
        return {"cases": r.cases, "failures": r.failures[:5]}
    finally:
        logging.disable(prev)

"""C20 - bounded native oracle: Mobile Allocation decoding, gsm48_decode_mobile_alloc(freq, ma, len, hopping, hopp_len, si4) of
layer23 common/sysinfo.c (cut verbatim behind shim/layer23_sysinfo_prelude.h, as the CVC replay does).

Observed: the return code, *hopp_len and hopping[0 .. *hopp_len) - the three observation points of the statement.  Not judged (the statement
is silent): the value of a successful return code other than "not an error" (0 expected), which negative value reports the error, whether
the outputs are touched on the error path, hopping[] beyond *hopp_len, the FREQ_TYPE_HOPP marks left in freq[] by the si4 variant.
Memory safety: freq[1024], ma[len] (len 0: a pointer one past a live object), hopping[64] and *hopp_len are separate heap objects of exactly
the documented sizes, ASan + UBSan abort on the first access outside them.
Reference: spec/ma_decode.decode (the statement: cell allocation = channels flagged FREQ_TYPE_SERV in the order 1..1023, 0; bit i of the
bitmap = bit (i mod 8) of octet len-1-(i div 8); decoded list = CA[i] for the set bits i ascending, ended by the first set bit i >= |CA|;
len > 8 is an error).  For the complete enumerations the same is written once more in C inside the harness (from the statement, over the
list of cell-allocation ARFCNs given on the input line, not over freq[]); that in-harness reference is compared with spec.ma_decode through
the line protocol on every run.  The freq[] bits other than FREQ_TYPE_SERV are filled with noise (they are not part of the cell allocation).
"""
import random

from engine.cvc import frontend, replay as R
from spec import ma_decode as SP
from . import _c

SYSINFO = "src/host/layer23/src/common/sysinfo.c"
SYSINFO_H = "src/host/layer23/include/osmocom/bb/common/sysinfo.h"
PRELUDE = "layer23_sysinfo_prelude.h"
DEFINES = ((SYSINFO_H, r"FREQ_TYPE_\w+"),)
FUNC = "gsm48_decode_mobile_alloc"

BOUND = ("gsm48_decode_mobile_alloc cut verbatim out of layer23 common/sysinfo.c, ASan+UBSan build, every buffer a separate heap object of its exact "
         "size; observed: return code, *hopp_len, hopping[0..*hopp_len). Fixed part: 46 named cell allocations (empty, {0}, {1}, {1023}, {0,1}, {0,1023}, "
         "{5,0}, 1..7+0, 1..8(+0), 1..15+0, 1..64, 0..63, 1..63+0, 961..1023+0, every 16th ARFCN with / without 0, ...) and 129 fixed-seed random ones "
         "(every size 0..64, with and without ARFCN 0), with bitmap lengths 0..9, both si4 values and the bitmaps all-zero, all-ones, every "
         "single bit (shortest fitting length and 8 octets), exactly the allocation, the allocation plus one bit beyond, the last position alone "
         "(= ARFCN 0 when allocated) and with bit 0, a bit beyond alone, asymmetric octet patterns - about 11 400 cases judged in Python against "
         "spec.ma_decode; 2 800 points of the in-harness C reference compared with spec.ma_decode; then inside the harness ALL 256 one-octet bitmaps "
         "for every named allocation and si4 (23 552 cases) and ALL 65 536 two-octet bitmaps for 2 allocations of 10 and 16 channels with ARFCN 0. "
         "Budgeted part, round-robin: all 65 536 two-octet bitmaps for a seeded allocation of 0..17 channels; 60 000 in-harness random cases "
         "(allocation size 0..64 uniform, ARFCN 0 in half of them, dense / top-clustered / edge / uniform ARFCNs, length 0..9, bitmaps random / sparse / "
         "dense / exactly the allocation / one beyond / knocked-out prefix) against the in-harness reference; 1 500 seeded random cases judged in "
         "Python against spec.ma_decode. A mismatch or sanitizer stop inside the harness is re-run through the line protocol and judged against "
         "spec.ma_decode.")

_MAIN = _c.PROTOCOL_C + r"""
/* ---- reference, written from the statement / TS 44.018 10.5.2.21: inca[a] != 0 <=> ARFCN a is in the cell allocation */
static uint16_t ref_ca[1024]; static int ref_nca;
static void ref_order(const uint8_t *inca)
{
	int a;
	ref_nca = 0;
	for (a = 1; a <= 1023; a++)			/* ascending ARFCN ... */
		if (inca[a]) ref_ca[ref_nca++] = a;
	if (inca[0]) ref_ca[ref_nca++] = 0;		/* ... with ARFCN 0 last */
}
/* the ordered cell allocation ref_ca[0 .. ref_nca) must have been built by ref_order() for the current case */
static int ref_decode(const uint8_t *ma, int len, uint16_t *out, int *n_out)
{
	int i, n = 0;
	*n_out = 0;
	if (len > 8)
		return -1;				/* longer bitmaps are rejected with an error */
	for (i = 0; i < 8 * len; i++) {
		int octet = ma[len - 1 - i / 8], bit = (octet >> (i % 8)) & 1;
		if (!bit) continue;
		if (i >= ref_nca) break;		/* a bit pointing beyond the cell allocation ends decoding */
		if (n < 64) out[n] = ref_ca[i];
		n++;
	}
	*n_out = n;
	return 0;
}
static unsigned long rng_s;
static unsigned long rng(void) { rng_s ^= rng_s << 13; rng_s &= 0xffffffffUL; rng_s ^= rng_s >> 17; rng_s ^= rng_s << 5; rng_s &= 0xffffffffUL; return rng_s; }
static unsigned long mix(unsigned long a, unsigned long b)
{
	unsigned long h = a * 2654435761UL + b * 40503UL + 0x9e3779b9UL;
	h ^= h >> 15; h *= 2246822519UL; h ^= h >> 13; h &= 0xffffffffUL;
	return h;
}
/* one case: the inputs */
static int c_si4, c_len, c_k; static unsigned long c_noise; static uint8_t c_ma[16]; static int c_ca[80]; static uint8_t c_inca[1024], c_mask[1024];
/* one case: the observation */
static int o_rc, o_n; static uint16_t o_hop[64];

static void call(void)
{
	/* every buffer is its own heap object of exactly the documented size (ASan red zones around each) */
	struct gsm_sysinfo_freq *freq = malloc(1024 * sizeof(*freq));
	uint8_t *mablk = malloc(c_len ? c_len : 1), *ma = c_len ? mablk : mablk + 1;
	uint16_t *hopping = malloc(64 * sizeof(uint16_t));
	uint8_t *hopp_len = malloc(1);
	int i;
	if (sizeof(*freq) == 1) memcpy(freq, c_mask, 1024); else for (i = 0; i < 1024; i++) freq[i].mask = c_mask[i];
	for (i = 0; i < c_len; i++) ma[i] = c_ma[i];
	for (i = 0; i < 64; i++) hopping[i] = 0xeeee;
	*hopp_len = 0xee;
	o_rc = gsm48_decode_mobile_alloc(freq, ma, (uint8_t)c_len, hopping, hopp_len, c_si4);
	o_n = *hopp_len;
	for (i = 0; i < 64; i++) o_hop[i] = hopping[i];
	free(freq); free(mablk); free(hopping); free(hopp_len);
}
static int agrees(void)
{
	uint16_t exp[64]; int n, rc, i;
	rc = ref_decode(c_ma, c_len, exp, &n);
	if (rc < 0) return o_rc < 0;
	if (o_rc < 0 || o_n != n || n > 64) return 0;	/* success = not an error: the statement is silent about the value (both callers ignore it) */
	for (i = 0; i < n; i++) if (o_hop[i] != exp[i]) return 0;
	return 1;
}
static void set_inca(void) { int i; memset(c_inca, 0, sizeof(c_inca)); for (i = 0; i < c_k; i++) c_inca[c_ca[i]] = 1; ref_order(c_inca); }
/* the freq[] masks of the case: FREQ_TYPE_SERV <=> in the cell allocation, the other bits noise (none for noise seed 0) */
static void set_mask(void)
{
	static uint8_t tab[2048]; static int init; int i;
	if (!init) { for (i = 0; i < 2048; i++) tab[i] = (uint8_t)(mix(99, i) >> 7); init = 1; }
	for (i = 0; i < 1024; i++) {
		c_mask[i] = (c_noise ? tab[(i + c_noise * 7) & 2047] : 0) & (uint8_t)~FREQ_TYPE_SERV;
		if (c_inca[i]) c_mask[i] |= FREQ_TYPE_SERV;
	}
}
static int trace;		/* E / X: the sweep once more, every case printed before it is run (to name the case a sanitizer stopped at) */
static void print_case(const char *tag, unsigned long cnt)
{
	int i;
	printf("= bad=%d %s cnt=%lu case=%d,%d,", !trace, tag, cnt, c_si4, c_len);
	orc_puthex(c_ma, c_len);
	printf(",%lu,%d", c_noise, c_k);
	for (i = 0; i < c_k; i++) printf(",%d", c_ca[i]);
	printf("\n");
	if (trace) fflush(stdout);
}
/* parse `si4 len mahex noise k a1 .. ak [rest]` ; returns pointer to the rest */
static char *parse_case(char *p)
{
	char hex[64]; int n = 0, i;
	hex[0] = 0;
	sscanf(p, " %d %d %40s %lu %d%n", &c_si4, &c_len, hex, &c_noise, &c_k, &n);
	p += n;
	if (c_k > 80) c_k = 80;
	if (c_len > 16) c_len = 16;
	memset(c_ma, 0, sizeof(c_ma));
	orc_hex(hex, c_ma, 16);
	for (i = 0; i < c_k; i++) c_ca[i] = (int)strtol(p, &p, 10) & 1023;
	set_inca();
	set_mask();
	return p;
}
static void random_ca(void)
{
	/* size uniform 0..64; ARFCN 0 in about half; dense (order matters at the low end), clustered at the top, or anywhere */
	int want = rng() % 65, shape = rng() % 4, tries = 0;
	memset(c_inca, 0, sizeof(c_inca));
	c_k = 0;
	if (want && (rng() & 1)) { c_inca[0] = 1; c_ca[c_k++] = 0; }
	while (c_k < want && tries++ < 100000) {
		int a;
		if (shape == 0) a = 1 + rng() % (want + 3);
		else if (shape == 1) a = 1023 - rng() % (want + 3);
		else if (shape == 2) a = (rng() & 1) ? rng() % 8 : 1016 + rng() % 8, a = (c_inca[a] ? (int)(rng() % 1024) : a);
		else a = rng() % 1024;
		if (a == 0 || c_inca[a]) continue;
		c_inca[a] = 1; c_ca[c_k++] = a;
	}
	ref_order(c_inca);
}
static void random_bitmap(void)
{
	static const int lens[] = { 0, 1, 1, 2, 2, 3, 4, 5, 6, 7, 8, 8, 8, 9, 9, 8 };
	int kind = rng() % 6, i;
	c_len = lens[rng() % 16];
	memset(c_ma, 0, sizeof(c_ma));
	for (i = 0; i < c_len; i++) {
		if (kind == 0) c_ma[i] = rng();
		else if (kind == 1) c_ma[i] = rng() & rng() & rng();
		else if (kind == 2) c_ma[i] = rng() | rng() | rng();
	}
	if (kind >= 3 && c_len) {
		/* bits 0 .. m-1 set, m = |CA| (exact), |CA| + 1 (one beyond) or |CA| - 1, some of them knocked out again for kind 5 */
		int m = c_k + (kind == 3 ? 0 : kind == 4 ? 1 : -1), b;
		for (b = 0; b < m && b < 8 * c_len; b++)
			if (kind != 5 || rng() % 4 || b == c_k - 1) c_ma[c_len - 1 - b / 8] |= 1 << (b % 8);
		if (kind == 5 && c_k >= 1 && c_k - 1 < 8 * c_len) c_ma[c_len - 1 - (c_k - 1) / 8] |= 1 << ((c_k - 1) % 8);
	}
}
int main(void)
{
	static char line[4096];
	while (fgets(line, sizeof(line), stdin)) {
		char op = '?', *p = line;
		while (*p == ' ') p++;
		op = *p ? *p++ : '?';
		trace = (op == 'E' || op == 'X');
		if (trace) op += 'a' - 'A';
		if (op == 'd') {
			/* d <case> : one call */
			int i, n;
			parse_case(p);
			call();
			n = o_n > 64 ? 64 : o_n;
			printf("= rc=%d n=%d hop=x", o_rc, o_n);		/* x: keeps the value a string for the reader */
			for (i = 0; i < n; i++) printf("%04x", o_hop[i]);
			printf("\n");
		} else if (op == 'r') {
			/* r <case> : the in-harness reference alone */
			uint16_t exp[64]; int n, rc, i;
			parse_case(p);
			rc = ref_decode(c_ma, c_len, exp, &n);
			printf("= rc=%d n=%d hop=x", rc, n);
			for (i = 0; i < n && i < 64; i++) printf("%04x", exp[i]);
			printf("\n");
		} else if (op == 'e') {
			/* e <case> lo hi : every bitmap value v in [lo, hi) written into the c_len octets (octet j = bits 8j..8j+7 of v) */
			unsigned long lo = 0, hi = 0, v, cnt = 0; int bad = 0, j;
			p = parse_case(p);
			sscanf(p, " %lu %lu", &lo, &hi);
			for (v = lo; v < hi; v++) {
				for (j = 0; j < c_len && j < 4; j++) c_ma[j] = (v >> (8 * j)) & 0xff;
				if (trace) print_case("trace", cnt);
				call();
				cnt++;
				if (!agrees()) { trace = 0; print_case("enum", cnt); bad = 1; break; }
			}
			if (!bad) printf("= bad=0 cnt=%lu\n", cnt);
		} else if (op == 'x') {
			/* x salt count : random cases generated here */
			unsigned long salt = 0, count = 0, cnt = 0; int bad = 0;
			sscanf(p, " %lu %lu", &salt, &count);
			rng_s = mix(salt, 1) | 1;
			while (cnt < count) {
				random_ca();
				random_bitmap();
				c_si4 = rng() & 1;
				c_noise = (rng() % 4) ? rng() | 1 : 0;
				set_mask();
				if (trace) print_case("trace", cnt);
				call();
				cnt++;
				if (!agrees()) { trace = 0; print_case("random", cnt); bad = 1; break; }
			}
			if (!bad) printf("= bad=0 cnt=%lu\n", cnt);
		} else
			printf("= ?\n");
		fflush(stdout);
	}
	return 0;
}
"""


def source():
    return _c.extract(SYSINFO, [FUNC], PRELUDE, defines=DEFINES) + "\n" + _MAIN


def flags():
    return R.host_flags() + ["-I", frontend.SHIM]


# ------------------------------------------------------------------ cases

def case_line(op, si4, ma, noise, ca, rest=""):
    return "%s %d %d %s %d %d %s %s" % (op, si4, len(ma), _c.hexs(ma), noise, len(ca), " ".join(str(a) for a in ca), rest)


def parse_case_field(text):
    """`si4,len,mahex,noise,k,a1,..,ak` printed by the harness -> (si4, ma, noise, ca)"""
    f = str(text).split(",")
    return int(f[0]), _c.unhex(f[2]), int(f[3]), [int(x) for x in f[5:5 + int(f[4])]]


def expected(ca, ma):
    """statement-level expectation through spec/ma_decode.decode: (error?, list)"""
    masks = [0] * SP.NARFCN
    for a in ca:
        masks[a] = 1
    rc, hop = SP.decode(masks, 1, list(ma))
    return rc != 0, hop


def bits_to_ma(bits, ln):
    """bitmap of ln octets with the given bit indexes set (bit i = bit i%8 of octet ln-1-i//8, TS 44.018 10.5.2.21)"""
    ma = [0] * ln
    for i in bits:
        if 0 <= i < 8 * ln:
            ma[ln - 1 - i // 8] |= 1 << (i % 8)
    return ma


def named_cas():
    R16 = list(range(0, 1024, 16))
    return [
        [], [0], [1], [1023], [512], [0, 1], [0, 1023], [1, 1023], [0, 1, 1023], [5, 0], [1022, 1023, 0], [1, 2], [2, 1],
        list(range(1, 8)) + [0], list(range(1, 9)), list(range(1, 9)) + [0], list(range(1, 10)), list(range(1, 8)),
        list(range(1, 16)) + [0], list(range(1, 17)), list(range(1, 17)) + [0], list(range(1, 18)),
        [0] + list(range(1000, 1015)), list(range(1009, 1024)), list(range(1008, 1024)) + [0],
        list(range(1, 32)) + [0], list(range(1, 33)), list(range(1, 34)), list(range(100, 131)) + [0],
        list(range(1, 65)), list(range(0, 64)), list(range(1, 64)) + [0], list(range(961, 1024)) + [0], list(range(960, 1024)),
        R16, [a + 15 for a in R16], R16[1:], [a + 1 for a in R16[:63]] + [0],
        list(range(1, 63)), list(range(1, 63)) + [0], list(range(1, 64)), list(range(2, 1024, 17))[:57] + [0],
        [700], [0, 700], [3, 7, 11, 13, 17, 19, 23, 29, 31, 37], [0, 3, 7, 11, 13, 17, 19, 23, 29, 31, 37],
    ]


def random_cas():
    rnd = random.Random(2021)
    out = []
    for size in range(0, 65):
        for with0 in (False, True):
            if with0 and size == 0:
                continue
            hi = rnd.choice([size + 2, size + 10, 200, 1023, 1023])
            pool = list(range(1, max(hi, size + 1) + 1)) if hi < 1023 else list(range(1, 1024))
            ca = rnd.sample(pool, size - (1 if with0 else 0)) + ([0] if with0 else [])
            rnd.shuffle(ca)
            out.append(ca)
    return out


def bitmaps_for(ca, rnd, full):
    """[(ma list)] boundary bitmaps for one cell allocation"""
    k = len(ca)
    fit = min(8, max(1, (k + 7) // 8))
    out = [[]]
    for ln in range(1, 9):
        out.append([0] * ln)
        out.append([0xff] * ln)
        out.append(bits_to_ma(range(k), ln))                # exactly the allocation (as far as it fits)
        out.append(bits_to_ma(range(k + 1), ln))            # one bit beyond
        out.append(bits_to_ma([k - 1], ln))                 # the last position alone: ARFCN 0 when it is allocated
        out.append(bits_to_ma([0, k - 1], ln))
        out.append(bits_to_ma([k], ln))                     # only a bit beyond
        if full or ln in (fit, 2, 8):
            out.append([0x01] + [0] * (ln - 1))             # asymmetric: which octet is first
            out.append([0] * (ln - 1) + [0x80])
            out.append([rnd.randrange(256) for _ in range(ln)])
            out.append([0x55, 0xaa, 0x0f, 0x33, 0x01, 0x80, 0xc3, 0x5a][:ln])
    for ln in sorted({fit, 8}):
        step = 1 if full else 3
        for i in range(0, 8 * ln, step):
            out.append(bits_to_ma([i], ln))                 # every single bit
    for pat in ([0] * 9, [0xff] * 9, [rnd.randrange(256) for _ in range(9)], [0x01] + [0] * 8):
        out.append(pat)
    seen, uniq = set(), []
    for m in out:
        if tuple(m) not in seen:
            seen.add(tuple(m))
            uniq.append(m)
    return uniq


def run(budget_s=20.0, seed=0):
    S = _c.Session(budget_s)
    stats = {"enumerations": 0, "random_sweeps": 0}
    with _c.Native(source(), flags()) as n:

        def crash(what, inp, abort):
            S.cases += 1
            S.fail(what + " (sanitizer / crash)", inp, abort.get("sanitizer") or "exit status %s: %s" % (abort.get("rc"), (abort.get("stderr") or "")[-200:]),
                   "returns normally, no access outside freq[1024] / ma[len] / hopping[64] / *hopp_len")

        def describe(si4, ma, noise, ca):
            return {"cell_allocation": sorted(ca), "len": len(ma), "ma": list(ma), "si4": si4, "noise_seed_of_other_mask_bits": noise}

        def judge(case, out):
            si4, ma, noise, ca = case
            got = _c.kv(out)
            err, hop = expected(ca, ma)
            hexs = str(got.get("hop", "x"))[1:]
            obs_hop = [int(hexs[i:i + 4], 16) for i in range(0, len(hexs) - 3, 4)]
            if err:
                if not (isinstance(got.get("rc"), int) and got["rc"] < 0):
                    S.fail("bitmap longer than 8 octets is not rejected", describe(*case), {"rc": got.get("rc")}, {"rc": "negative (error)"})
                return
            rc_ok = isinstance(got.get("rc"), int) and got["rc"] >= 0       # any non-negative value is a success (the callers ignore the value)
            obs = {"rc": "success" if rc_ok else got.get("rc"), "hopp_len": got.get("n"), "hopping": obs_hop}
            exp = {"rc": "success", "hopp_len": len(hop), "hopping": hop}
            if obs != exp:
                what = ("return code" if not rc_ok else "hopp_len" if obs["hopp_len"] != len(hop) else "hopping list")
                S.fail("decoded hopping list differs from the flagged cell-allocation channels (%s)" % what, describe(*case), obs, exp)

        def ask(cases):
            outs, abort = n.batch([case_line("d", *c) for c in cases])
            for c, out in zip(cases, outs):
                S.cases += 1
                judge(c, out)
            if abort:
                crash(FUNC, describe(*cases[abort["case"]]), abort)

        def check_reference(cases):
            outs, abort = n.batch([case_line("r", *c) for c in cases])
            for (si4, ma, noise, ca), out in zip(cases, outs):
                S.cases += 1
                got = _c.kv(out)
                err, hop = expected(ca, ma)
                hexs = str(got.get("hop", "x"))[1:]
                obs_hop = [int(hexs[i:i + 4], 16) for i in range(0, len(hexs) - 3, 4)]
                ok = (got.get("rc", 0) < 0) if err else (got.get("rc") == 0 and got.get("n") == len(hop) and obs_hop == hop)
                if not ok:
                    S.fail("in-harness reference disagrees with spec.ma_decode (oracle defect, not a finding about sysinfo.c)", describe(si4, ma, noise, ca),
                           {"rc": got.get("rc"), "hopping": obs_hop}, {"error": err, "hopping": hop})
            if abort:
                crash("in-harness reference", describe(*cases[abort["case"]]), abort)

        def sweeps(items):
            """items: [(line, what, input description, number of cases)] run in ONE harness process; a mismatch reported by the harness is
            re-run through the line protocol and judged against spec.ma_decode"""
            outs, abort = n.batch([it[0] for it in items], timeout=900)
            for (line, what, inp, count), out in zip(items, outs):
                r = _c.kv(out)
                if not r.get("bad"):
                    S.cases += r.get("cnt", count)
                    continue
                case = parse_case_field(r.get("case", ""))
                before = len(S.failures)
                ask([case])
                if len(S.failures) == before:
                    S.fail(what, describe(*case), "harness-side reference disagrees", "agreement")
            if abort:
                # the harness died inside a sweep (sanitizer / crash): the same sweep once more with every case printed before it is run;
                # the last one printed is run alone through the line protocol, which reports it with the sanitizer's message
                it = items[abort["case"]]
                line = it[0].lstrip()
                outs2, _ = n.batch([line[0].upper() + line[1:]], timeout=900)
                last = [o for o in outs2 if "case=" in o][-1:]
                before = len(S.failures)
                if last:
                    ask([parse_case_field(_c.kv(last[0])["case"])])
                if len(S.failures) == before:
                    crash(it[1], it[2], abort)

        def enum_item(si4, ln, noise, ca):
            stats["enumerations"] += 1
            return (case_line("e", si4, [0] * ln, noise, ca, "0 %d" % (1 << (8 * ln))), "all bitmaps of one length",
                    {"cell_allocation": sorted(ca), "len": ln, "si4": si4, "ma": "all %d values" % (1 << (8 * ln)), "noise_seed_of_other_mask_bits": noise},
                    1 << (8 * ln))

        # ---- fixed: boundary cases through the line protocol, judged against spec.ma_decode
        rnd0 = random.Random(44018)
        named = named_cas()
        cases = []
        for ci, ca in enumerate(named):
            for mi, ma in enumerate(bitmaps_for(ca, rnd0, True)):
                for si4 in ((0, 1) if (mi % 5 == 0 or len(ma) in (0, 9)) else ((ci + mi) % 2,)):
                    cases.append((si4, ma, (ci * 131 + mi) if mi % 3 else 0, ca))
        for ci, ca in enumerate(random_cas()):
            for mi, ma in enumerate(bitmaps_for(ca, rnd0, False)):
                if (mi + ci) % 4 == 0 or len(ma) in (0, 9):
                    cases.append(((ci + mi) % 2, ma, ci * 977 + mi + 1, ca))
        ask(cases)
        if not S.failures:
            check_reference(cases[::max(1, len(cases) // 2500)])
        # ---- fixed: complete enumerations inside the harness
        if not S.failures:
            items = [enum_item(si4, 1, ci + 1, ca) for ci, ca in enumerate(named) for si4 in (0, 1)]
            for ci, ca in enumerate(([3, 7, 11, 13, 17, 19, 23, 29, 31, 0], list(range(1, 16)) + [0])):
                items.append(enum_item(ci % 2, 2, 50 + ci, ca))
            sweeps(items)
        # ---- budgeted
        rnd = random.Random(seed)
        i = 0
        while S.more():
            size = rnd.randrange(0, 18)
            with0 = size > 0 and rnd.random() < 0.6
            hi = rnd.choice([size + 2, 40, 1023])
            ca = rnd.sample(range(1, max(hi, size) + 1), size - (1 if with0 else 0)) + ([0] if with0 else [])
            sweeps([enum_item(rnd.randrange(2), 2, rnd.randrange(1, 1 << 30), ca),
                    ("x %d %d" % (rnd.randrange(1, 1 << 31), 60000), "in-harness random cases", {"sweep": i, "seed": seed}, 60000)])
            stats["random_sweeps"] += 1
            if not S.more():
                break
            batch = []
            for _ in range(1500):
                size = rnd.randrange(0, 65)
                with0 = size > 0 and rnd.random() < 0.5
                hi = rnd.choice([size + 3, 100, 1023, 1023])
                ca = rnd.sample(range(1, max(hi, size) + 1), size - (1 if with0 else 0)) + ([0] if with0 else [])
                rnd.shuffle(ca)
                ln = rnd.choice([0, 1, 1, 2, 3, 4, 5, 6, 7, 8, 8, 8, 9])
                kind = rnd.randrange(5)
                if kind == 0:
                    ma = [rnd.randrange(256) for _ in range(ln)]
                elif kind == 1:
                    ma = [rnd.randrange(256) & rnd.randrange(256) for _ in range(ln)]
                elif kind == 2:
                    ma = bits_to_ma(range(size + rnd.choice([-1, 0, 0, 1])), ln)
                elif kind == 3:
                    ma = bits_to_ma([b for b in range(size) if rnd.random() < 0.7] + [size - 1], ln)
                else:
                    ma = [0xff] * ln
                batch.append((rnd.randrange(2), ma, rnd.randrange(1 << 30), ca))
            ask(batch)
            if i % 8 == 0 and not S.failures:
                check_reference(batch)
            i += 1
    return S.result(**stats)

"""Shared machinery of the C-side bounded native oracles (oracles/c_<ID>.py).

A C oracle builds ONE native harness from the current $VERIF_REPO sources (the real .c file #included, or the functions cut verbatim behind
the prelude of shim/ exactly as the CVC replays do), compiled with clang -fsanitize=address,undefined into a mkdtemp directory that is
removed when the run ends, and then feeds it batches of cases on stdin: one line per case in, one line per case out (flushed), so a
sanitizer abort or crash is attributed to the first case without an answer.  Expectations are computed in Python from the statement-level
references in spec/*.py (their concrete functions) or written out in the oracle itself - never from the contract tables.

A harness that cannot be built for the current code shape (cut fails, compile error) raises OracleCrash: the caller (oracles.run / cli)
reports `crash`, i.e. `no stand-in available`.
"""
import time, json

from engine.cvc import replay as R, frontend
from engine.pyvc.values import Unsupported


class OracleCrash(RuntimeError):
    pass


PROTOCOL_C = r"""
#include <stdio.h>
#include <stdlib.h>
#include <string.h>
#include <stdint.h>
static int orc_hex(const char *h, uint8_t *out, int max) { int n = 0; unsigned v; if (!strcmp(h, "-")) return 0;
	while (h[0] && h[1] && n < max && sscanf(h, "%2x", &v) == 1) { out[n++] = v; h += 2; } return n; }
static void orc_puthex(const uint8_t *p, int n) { int i; if (n <= 0) { printf("-"); return; } for (i = 0; i < n; i++) printf("%02x", p[i]); }
"""


def hexs(bs):
    return "".join("%02x" % (b & 255) for b in bs) or "-"


def unhex(s):
    return [] if s in ("-", "") else list(bytes.fromhex(s))


class Native:
    """with Native(source, cflags) as n:  outs, abort = n.batch(lines)"""

    def __init__(self, source, cflags, san=None):
        self.h = R.Harness(source, cflags, san=san)

    def __enter__(self):
        try:
            self.h.__enter__()
        except Exception as e:
            raise OracleCrash("harness build could not be started: %r" % (e,))
        if self.h.build is not None:
            err = self.h.build
            self.h.__exit__(None, None, None)
            raise OracleCrash("native harness does not compile for the current code shape: %s" % err[-1200:])
        return self

    def __exit__(self, *a):
        self.h.__exit__(*a)

    def batch(self, lines, timeout=120, argv=()):
        """feed `lines` (one case each); -> (list of answer lines, as many as were answered; abort info or None).
        abort = {"case": index of the first unanswered case, "sanitizer": report head or None, "rc": exit status}"""
        r = self.h.run(list(argv), timeout=timeout, stdin="\n".join(lines) + "\n")
        out = [l for l in (r.get("stdout") or "").splitlines() if l.startswith("=")]
        out = [l[1:].strip() for l in out]
        if r.get("rc") == 0 and len(out) == len(lines) and not r.get("sanitizer"):
            return out, None
        return out, {"case": min(len(out), len(lines) - 1), "sanitizer": r.get("sanitizer"), "rc": r.get("rc"),
                     "stderr": (r.get("stderr") or "")[-600:], "answered": len(out)}


class Dialog:
    """a running harness process that keeps its state between questions:  d.ask(line) -> (answer line or None, abort info or None)"""

    def __init__(self, native, argv=()):
        import subprocess, os, tempfile
        env = dict(os.environ, ASAN_OPTIONS="detect_leaks=0:abort_on_error=0:detect_stack_use_after_return=0",
                   UBSAN_OPTIONS="print_stacktrace=0:halt_on_error=1")
        self.err = tempfile.TemporaryFile(mode="w+", dir=native.h.dir)
        self.p = subprocess.Popen([native.h.exe] + [str(a) for a in argv], stdin=subprocess.PIPE, stdout=subprocess.PIPE, stderr=self.err, text=True, env=env, bufsize=1)

    def ask(self, line):
        import re
        try:
            self.p.stdin.write(line + "\n")
            self.p.stdin.flush()
            while True:
                out = self.p.stdout.readline()
                if out == "":
                    break
                if out.startswith("="):
                    return out[1:].strip(), None
        except (BrokenPipeError, OSError):
            pass
        rc = self.p.wait()
        self.err.seek(0)
        stderr = self.err.read()[-3000:]
        m = re.search(r"(AddressSanitizer: [^\n]*|MemorySanitizer: [^\n]*|runtime error: [^\n]*)", stderr)
        return None, {"sanitizer": m.group(1) if m else None, "rc": rc, "stderr": stderr[-600:]}

    def close(self):
        try:
            self.p.stdin.close()
        except Exception:
            pass
        try:
            self.p.wait(timeout=10)
        except Exception:
            self.p.kill()
            self.p.wait()
        try:
            self.p.stdout.close()
            self.err.close()
        except Exception:
            pass

    def alive(self):
        return self.p.poll() is None


def kv(line, raw=("bits", "sent", "octets", "hex", "text", "list")):
    """`a=1 b=ff c=-` -> dict (ints where possible; the keys in `raw` - hex strings - stay strings)"""
    d = {}
    for tok in line.split():
        if "=" in tok:
            k, v = tok.split("=", 1)
            if k in raw:
                d[k] = v
                continue
            try:
                d[k] = int(v)
            except ValueError:
                d[k] = v
    return d


def extract(relfile, names, prelude, defines=(), decls=(), includes=()):
    """verbatim cut behind the prelude (same text the CVC front end parses); OracleCrash when the code shape no longer allows it"""
    try:
        text, info, texts, pre = frontend.extract_text(relfile, list(names), prelude, defines=defines, decls=decls, includes=includes)
    except Unsupported as e:
        raise OracleCrash("cannot cut %s out of %s: %s" % (", ".join(names), relfile, e))
    return text


def cut(relfile, name):
    try:
        return R.cut_verbatim(relfile, name)
    except Unsupported as e:
        raise OracleCrash("cannot cut %s out of %s: %s" % (name, relfile, e))


class Session:
    """bookkeeping of one oracle run: budget, case count, at most 5 failures"""

    def __init__(self, budget_s):
        self.t0 = time.time()
        self.budget = float(budget_s)
        self.cases = 0
        self.failures = []

    def left(self):
        return self.budget - (time.time() - self.t0)

    def more(self):
        return self.left() > 0 and len(self.failures) < 5

    def fail(self, what, inp, observed, expected):
        if len(self.failures) < 5:
            self.failures.append({"what": what, "input": inp, "observed": observed, "expected": expected})

    def result(self, **extra):
        fs = self.failures[:5]
        while len(fs) > 1 and len(json.dumps(fs, default=str)) > 14000:
            fs.pop()
        if fs and len(json.dumps(fs, default=str)) > 14000:
            fs[0] = {k: (json.dumps(v, default=str)[:3000] + " ...(truncated)") if len(json.dumps(v, default=str)) > 3000 else v for k, v in fs[0].items()}
        d = {"cases": self.cases, "failures": fs}
        d.update(extra)
        return d


def _file_order(relfile, names):
    src = open(frontend.repo(relfile), encoding="utf-8", errors="replace").read()
    pos = {}
    for nm in names:
        try:
            pos[nm] = frontend.cut_function(src, nm)[0]
        except Unsupported as e:
            raise OracleCrash("cannot cut %s out of %s: %s" % (nm, relfile, e))
    return sorted(names, key=lambda n_: pos[n_])


def native_extract(relfile, roots, prelude, main_text, cflags, defines=(), decls=(), includes=(), extra_text="", rounds=8, san=None):
    """Native harness over a verbatim extraction that follows the code shape: the functions `roots` are cut out of the real file; when
    the build misses a function that the real file defines (a helper a refactoring split off), that one is cut as well and the build is
    repeated.  -> entered Native (use as `with native_extract(...) as n:`)"""
    import re
    names = list(roots)
    last = None
    for _ in range(rounds):
        names = _file_order(relfile, names)
        text = extract(relfile, names, prelude, defines=defines, decls=decls, includes=includes)
        nat = Native(text + "\n" + extra_text + "\n" + main_text, cflags, san=san)
        try:
            nat.__enter__()
            return _Entered(nat)
        except OracleCrash as e:
            last = e
            missing = set(re.findall(r"undefined reference to `(\w+)'", str(e))) | set(re.findall(r"undeclared (?:function|identifier) '(\w+)'", str(e))) | \
                set(re.findall(r"implicit declaration of function '(\w+)'", str(e)))
            src = open(frontend.repo(relfile), encoding="utf-8", errors="replace").read()
            add = []
            for m in sorted(missing):
                if m in names:
                    continue
                try:
                    frontend.cut_function(src, m)
                    add.append(m)
                except Unsupported:
                    pass
            if not add:
                raise
            names += add
    raise last


class _Entered:
    """a Native that is entered already (so that native_extract can retry before handing it out)"""

    def __init__(self, nat):
        self.nat = nat

    def __enter__(self):
        return self.nat

    def __exit__(self, *a):
        return self.nat.__exit__(*a)

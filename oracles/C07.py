"""C07 (Python half) - bounded native oracle: frequency hopping of the simulator against 3GPP TS 45.002 6.2.3.

Reference written here from the standard's text (as quoted in the statement), RNTABLE typed from the standard's table:
    HSN = 0 :  MAI = (FN + MAIO) mod N
    else    :  T1R = T1 mod 64,  M = T2 + RNTABLE((HSN xor T1R) + T3),  NBIN = number of bits of N
               M' = M mod 2^NBIN,  T' = T3 mod 2^NBIN,  S = M' if M' < N else (M' + T') mod N,  MAI = (S + MAIO) mod N
    T1 = FN div 1326, T2 = FN mod 26, T3 = FN mod 51;  selected channel = MA[MAI]
Observed: HoppingParams(hsn, maio, ma).resolve(fn) (return value) and Transceiver.get_rx_freq(fn) / get_tx_freq(fn) of a transceiver whose
hopping was configured with enable_fh() (and, for the non-hopping case, tuned over the control socket).
"""
import time, random, logging
from engine.pyvc.harness import toolkit

HYPER = 2048 * 26 * 51

RNTABLE = (
    48, 98, 63, 1, 36, 95, 78, 102, 94, 73,
    0, 64, 25, 81, 76, 59, 124, 23, 104, 100,
    101, 47, 118, 85, 18, 56, 96, 86, 54, 2,
    80, 34, 127, 13, 6, 89, 57, 103, 12, 74,
    55, 111, 75, 38, 109, 71, 112, 29, 11, 88,
    87, 19, 3, 68, 110, 26, 33, 31, 8, 45,
    82, 58, 40, 107, 32, 5, 106, 92, 62, 67,
    77, 108, 122, 37, 60, 66, 121, 42, 51, 126,
    117, 114, 4, 90, 43, 52, 53, 113, 120, 72,
    16, 49, 7, 79, 119, 61, 22, 84, 9, 97,
    91, 15, 21, 24, 46, 39, 93, 105, 65, 70,
    125, 99, 17, 123,
)
assert len(RNTABLE) == 114

BOUND = ("Python half only (gsm_shared.HoppingParams.resolve, Transceiver.get_rx_freq/get_tx_freq). The result depends on "
         "(HSN xor T1R, T2, T3, N) and MAIO; (T2, T3) takes all 1326 combinations within one superframe. Fixed part: for N in "
         "{1,2,3,4,5,7,8,9,15,16,17,31,32,33,63,64} x HSN in {0,1,2,31,32,62,63} (N = 64 and 63: all HSN 0..63) every FN of superframe 0 "
         "(T1R = 0), plus the hyperframe boundaries (FN 0, 1325, 1326, 84863/84864 = T1R wrap, 2715647) for every N 1..64 and HSN 0..63, "
         "plus Transceiver.get_rx_freq/get_tx_freq for about 2000 tuples and the non-hopping case. Budgeted part: the 64 x 64 pairs "
         "(N, HSN xor T1R) in seeded random order, each with all 1326 (T2, T3) combinations at a random T1 (hence a random HSN 1..63 / "
         "T1R split) and random MAIO 0..63 - the complete reduced domain takes about 5.4 million calls (about 5 s on the build machine; 'pairs_done' reports how many "
         "of the 4096 were finished within the budget) - followed by uniform random (HSN, MAIO, N, FN) over the whole hyperframe until the "
         "budget ends; every 50th random tuple also goes through a real FakeTRX (enable_fh + get_rx_freq/get_tx_freq). MA entries are "
         "distinct (rx, tx) pairs so that the selected index is unambiguous. The firmware half (rfch.c) is C code and is not reachable from here.")


def ref_mai(hsn, maio, n, fn):
    if hsn == 0:
        return (fn + maio) % n
    t1, t2, t3 = fn // 1326, fn % 26, fn % 51
    t1r = t1 % 64
    m = t2 + RNTABLE[(hsn ^ t1r) + t3]
    p = 1 << n.bit_length()
    mp = m % p
    tp = t3 % p
    s = mp if mp < n else (mp + tp) % n
    return (s + maio) % n


def mk_ma(n, salt=0):
    return [(935000000 + 200000 * (i + salt), 890000000 + 200000 * (i + salt)) for i in range(n)]


def run(budget_s=20.0, seed=0):
    t_end = time.time() + budget_s
    prev_disable = logging.root.manager.disable
    logging.disable(logging.CRITICAL)
    failures, cases = [], 0
    restore = []

    def fail(what, inp, observed, expected):
        if len(failures) < 5:
            failures.append({"what": what, "input": inp, "observed": observed, "expected": expected})

    try:
        gs = toolkit("gsm_shared")
        HP = gs.HoppingParams
        MAS = {n: mk_ma(n) for n in range(1, 65)}

        def sweep(hsn, maio, n, fns):
            """resolve() over fns for one parameter set; returns number of cases, records the first failure"""
            ma = MAS[n]
            try:
                hp = HP(hsn, maio, list(ma))
            except Exception as e:
                fail("HoppingParams()", {"hsn": hsn, "maio": maio, "n": n}, "raises %s: %s" % (type(e).__name__, e), "an object")
                return 1
            res = hp.resolve
            k = 0
            for fn in fns:
                k += 1
                try:
                    got = res(fn)
                except Exception as e:
                    got = "raises %s: %s" % (type(e).__name__, e)
                exp = ma[ref_mai(hsn, maio, n, fn)]
                if got != exp and (isinstance(got, str) or tuple(got) != exp):
                    fail("resolve", {"hsn": hsn, "maio": maio, "n": n, "fn": fn, "ma": "[(935000000+200000*i, 890000000+200000*i) for i in range(n)]"},
                         got if isinstance(got, str) else list(got), list(exp))
                    break
            return k

        # ---- fixed part
        SF0 = range(0, 1326)
        for n in (64, 63):
            for hsn in range(64):
                cases += sweep(hsn, (hsn * 7 + 3) % 64, n, SF0)
                if failures:
                    break
        for n in (1, 2, 3, 4, 5, 7, 8, 9, 15, 16, 17, 31, 32, 33):
            for hsn in (0, 1, 2, 31, 32, 62, 63):
                if failures:
                    break
                cases += sweep(hsn, (hsn + n) % 64, n, SF0)
        EDGE = (0, 1, 25, 26, 50, 51, 1325, 1326, 1327, 63 * 1326 + 1325, 64 * 1326, 64 * 1326 + 1, 1234567, HYPER - 1327, HYPER - 1326, HYPER - 2, HYPER - 1)
        for n in range(1, 65):
            for hsn in range(64):
                if failures:
                    break
                cases += sweep(hsn, (hsn ^ n) % 64, n, EDGE)
        for maio in range(64):
            if failures:
                break
            cases += sweep(17, maio, 64, (0, 77, 1326 * 5 + 3, HYPER - 1))
            cases += sweep(0, maio, 33, (0, 77, 1326 * 5 + 3, HYPER - 1))
            cases += sweep(5, maio, 1, (0, 77, HYPER - 1))

        # ---- through a real transceiver
        from contracts.py.native import native_trx
        ul = toolkit("udp_link")
        restore.append((ul, "socket", ul.socket))
        trx = native_trx("C07")

        def via_trx(hsn, maio, n, fn):
            ma = mk_ma(n, salt=3)
            try:
                trx.enable_fh(hsn, maio, list(ma))
                got = (trx.get_rx_freq(fn), trx.get_tx_freq(fn))
            except Exception as e:
                got = "raises %s: %s" % (type(e).__name__, e)
            exp = ma[ref_mai(hsn, maio, n, fn)]
            if got != exp:
                fail("Transceiver.get_rx_freq/get_tx_freq (hopping)", {"hsn": hsn, "maio": maio, "n": n, "fn": fn,
                     "ma": "[(935000000+200000*(i+3), 890000000+200000*(i+3)) for i in range(n)]"}, got if isinstance(got, str) else list(got), list(exp))
            return 1

        if not failures:
            r0 = random.Random(12345)
            for n in range(1, 65):
                for hsn in (0, 1, 37, 63):
                    for fn in (0, r0.randrange(HYPER), HYPER - 1):
                        cases += via_trx(hsn, r0.randrange(64), n, fn)
            for _ in range(1200):
                cases += via_trx(r0.randrange(64), r0.randrange(64), r0.randrange(1, 65), r0.randrange(HYPER))
            # no hopping: the tuned frequencies, whatever the frame
            try:
                trx.disable_fh()
                sock = trx.ctrl_if.sock
                for cmd in (b"CMD RXTUNE 935200\0", b"CMD TXTUNE 890200\0"):
                    sock.inbox.append((cmd, ("127.0.0.1", 5555)))
                    trx.ctrl_if.handle_rx()
                for fn in (0, 1, 1326, HYPER - 1):
                    cases += 1
                    got = (trx.get_rx_freq(fn), trx.get_tx_freq(fn))
                    if got != (935200000, 890200000):
                        fail("Transceiver.get_rx_freq/get_tx_freq (no hopping)", {"cmds": ["CMD RXTUNE 935200", "CMD TXTUNE 890200"], "fn": fn}, list(got), [935200000, 890200000])
            except Exception as e:
                fail("Transceiver without hopping", {"cmds": ["CMD RXTUNE 935200", "CMD TXTUNE 890200"]}, "raises %s: %s" % (type(e).__name__, e), "frequencies")

        # ---- budgeted: the reduced domain in random order, then uniform sampling
        rnd = random.Random(seed)
        pairs = [(n, x) for n in range(1, 65) for x in range(64)]
        rnd.shuffle(pairs)
        done = 0
        for n, x in pairs:
            if failures or time.time() >= t_end:
                break
            # choose T1 with T1R != x so that HSN = x xor T1R is in 1..63
            while True:
                t1 = rnd.randrange(2048)
                if (t1 % 64) != x:
                    break
            hsn = x ^ (t1 % 64)
            cases += sweep(hsn, rnd.randrange(64), n, range(t1 * 1326, (t1 + 1) * 1326))
            done += 1
        k = 0
        while not failures and time.time() < t_end:
            for _ in range(300):
                hsn, maio, n = rnd.randrange(64), rnd.randrange(64), rnd.randrange(1, 65)
                fns = [rnd.randrange(HYPER) for _ in range(20)]
                cases += sweep(hsn, maio, n, fns)
                k += 1
                if k % 50 == 0:
                    cases += via_trx(hsn, maio, n, fns[0])
                if failures:
                    break
        return {"cases": cases, "failures": _fit(failures), "pairs_done": done}
    finally:
        for o, a, v in restore:
            setattr(o, a, v)
        logging.disable(prev_disable)


def _fit(failures, limit=14000):
    """keep the report printable by oracles.run (20 000 characters): drop trailing failures, then shorten the first one's history"""
    import json
    fs = list(failures[:5])
    while len(fs) > 1 and len(json.dumps(fs, indent=1, default=str)) > limit:
        fs.pop()
    if fs and len(json.dumps(fs, indent=1, default=str)) > limit:
        inp = fs[0].get("input")
        if isinstance(inp, dict) and isinstance(inp.get("history"), list):
            while len(inp["history"]) > 5 and len(json.dumps(fs, indent=1, default=str)) > limit:
                del inp["history"][:max(1, len(inp["history"]) // 4)]
                inp["history_truncated"] = True
        if len(json.dumps(fs, indent=1, default=str)) > limit:
            fs[0]["input"] = json.dumps(fs[0]["input"], default=str)[:limit // 2] + " ...(truncated)"
            fs[0]["observed"] = str(fs[0]["observed"])[:2000]
            fs[0]["expected"] = str(fs[0]["expected"])[:2000]
    return fs

"""Helpers shared by the native oracles C02 / C10 / C12 / C18 (virtual Um interface of fake_trx).

Everything here is written from the protocol description, not taken from the code under test:
  * TRXD datagram layout (TRX <-> L1):  octet 0 = version << 4 | TN, octets 1..4 = FN big endian;
      L1 -> TRX : octet 5 = attenuation, then one octet per hard bit (148 or 444)
      TRX -> L1 : octet 5 = -RSSI, octets 6..7 = ToA256 (signed, big endian);
                  version 1 adds octet 8 = MTS (bit 7 NOPE.ind; bits 6..3 modulation + TSC set, GMSK 00SS, 8-PSK 010S; bits 2..0 TSC)
                  and octets 9..10 = C/I in centiBel (signed); then one octet per soft bit in the unsigned convention
                  (0 = certain '0' ... 254 = certain '1', i.e. sbit = 127 - octet); version 0 ends with two padding octets.
  * TRXC text commands "CMD <VERB> [args]\\0" -> "RSP <VERB> <status> [args]\\0".
  * the 3GPP TS 45.002 6.2.3 hopping sequence.
The transceivers are the REAL FakeTRX objects; only the sockets are recorders (contracts.py.native)."""
import logging, struct
from engine.pyvc.harness import toolkit
from contracts.py.native import patch_sockets, Recorder

HYPER = 2048 * 26 * 51
L1_ADDR = ("127.0.0.1", 45555)          # where the (virtual) L1 sends its TRXC commands from

RNTABLE = (
    48, 98, 63, 1, 36, 95, 78, 102, 94, 73, 0, 64, 25, 81, 76, 59, 124, 23, 104, 100,
    101, 47, 118, 85, 18, 56, 96, 86, 54, 2, 80, 34, 127, 13, 6, 89, 57, 103, 12, 74,
    55, 111, 75, 38, 109, 71, 112, 29, 11, 88, 87, 19, 3, 68, 110, 26, 33, 31, 8, 45,
    82, 58, 40, 107, 32, 5, 106, 92, 62, 67, 77, 108, 122, 37, 60, 66, 121, 42, 51, 126,
    117, 114, 4, 90, 43, 52, 53, 113, 120, 72, 16, 49, 7, 79, 119, 61, 22, 84, 9, 97,
    91, 15, 21, 24, 46, 39, 93, 105, 65, 70, 125, 99, 17, 123,
)
assert len(RNTABLE) == 114


def ref_mai(hsn, maio, n, fn):
    """45.002 6.2.3: index into the mobile allocation of n channels for frame fn"""
    if hsn == 0:
        return (fn + maio) % n
    t1r, t2, t3 = (fn // 1326) % 64, fn % 26, fn % 51
    p = 1 << n.bit_length()
    mp = (t2 + RNTABLE[(hsn ^ t1r) + t3]) % p
    s = mp if mp < n else (mp + t3 % p) % n
    return (s + maio) % n


# ---------------------------------------------------------------------------------------------------------------- patching
class Patches:
    """remember and restore everything the oracles replace (sockets, logging threshold, module attributes)"""

    def __init__(self):
        self.undo = []
        ul = toolkit("udp_link")
        self.undo.append((ul, "socket", ul.socket))
        self._log_disable = logging.root.manager.disable
        patch_sockets()

    def setattr(self, obj, name, value):
        self.undo.append((obj, name, getattr(obj, name)))
        setattr(obj, name, value)

    def restore(self):
        for obj, name, old in reversed(self.undo):
            try:
                setattr(obj, name, old)
            except Exception:
                pass
        self.undo = []
        logging.disable(self._log_disable)


# ------------------------------------------------------------------------------------------------------------------- TRXC
def ctrl(trx, line, src=L1_ADDR):
    """send one TRXC command through the CTRL socket of a real transceiver; returns (status or None, response fields, datagrams)"""
    sock = trx.ctrl_if.sock
    sock.inbox.append((("CMD %s\0" % line).encode(), src))
    n = len(sock.sent)
    trx.ctrl_if.handle_rx()
    new = sock.sent[n:]
    del sock.sent[n:]
    status, fields = None, None
    if len(new) == 1:
        try:
            fields = new[0][0].decode().rstrip("\0").split(" ")
            if fields[0] == "RSP" and fields[1] == line.split(" ")[0]:
                status = int(fields[2])
        except Exception:
            status = None
    return status, fields, new


# ------------------------------------------------------------------------------------------------------------------- TRXD
def enc_l1(ver, tn, fn, pwr, bits):
    """L1 -> TRX datagram"""
    return bytes([(ver << 4) | tn]) + struct.pack(">L", fn) + bytes([pwr]) + bytes(bits)


def dec_ind(data):
    """TRX -> L1 datagram -> dict (independent decoder; 'bad' is set when the octets do not follow the layout)"""
    d = {"len": len(data), "bad": None}
    if len(data) < 8:
        d["bad"] = "shorter than a version 0 header"
        return d
    d["ver"], d["tn"] = data[0] >> 4, data[0] & 7
    if data[0] & 8:
        d["bad"] = "reserved bit of octet 0 set"
    d["fn"] = struct.unpack(">L", data[1:5])[0]
    d["rssi"] = -data[5]
    d["toa"] = struct.unpack(">h", data[6:8])[0]
    d["nope"] = False
    if d["ver"] == 0:
        rest = data[8:]
        if len(rest) in (150, 446):
            d["pad"], rest = bytes(rest[-2:]), rest[:-2]
        else:
            d["pad"] = None
    elif d["ver"] == 1:
        if len(data) < 11:
            d["bad"] = "shorter than a version 1 header"
            return d
        mts = data[8]
        d["mts"] = mts
        d["ci"] = struct.unpack(">h", data[9:11])[0]
        rest = data[11:]
        if mts & 0x80:
            d["nope"] = True
        else:
            d["tsc"] = mts & 7
            m = (mts >> 3) & 15
            if m & 0b1100:
                d["mod"], d["tsc_set"] = {0b0100: "8PSK", 0b0110: "GMSK_AB", 0b1000: "16QAM", 0b1010: "32QAM", 0b1100: "AQPSK"}.get(m & 0b1110, "?"), m & 1
            else:
                d["mod"], d["tsc_set"] = "GMSK", m & 3
    else:
        d["bad"] = "unknown version %d" % d["ver"]
        return d
    d["soft"] = [(-127 if o == 255 else 127 - o) for o in rest] if len(rest) else None
    return d


def short(d):
    """json-able digest of a decoded indication (without the 148 soft bits)"""
    if d is None:
        return None
    r = {k: v for k, v in d.items() if k not in ("soft", "pad", "mts") and v is not None}
    r["bits"] = None if d.get("soft") is None else len(d["soft"])
    if d.get("pad") is not None:
        r["pad"] = d["pad"].hex()
    return r


# ------------------------------------------------------------------------------------------------------------------- bench
class Net:
    """a set of real FakeTRX transceivers + the real BurstForwarder, driven through sockets and clock ticks"""

    def __init__(self):
        self.ft = toolkit("fake_trx")
        self.fwd_mod = toolkit("burst_fwd")
        self.trx = []
        self.fwd = None

    def add(self, name, base_port, remote="127.0.0.1", **kw):
        t = self.ft.FakeTRX("0.0.0.0", remote, base_port, name=name, **kw)
        self.trx.append(t)
        return t

    def seal(self):
        self.fwd = self.fwd_mod.BurstForwarder(self.trx)
        return self

    def clear(self):
        for t in self.trx:
            del t.data_if.sock.sent[:]

    def l1_send(self, t, datagram):
        """the L1 of transceiver t writes one TRXD datagram; the transceiver reads it"""
        t.data_if.sock.inbox.append((datagram, L1_ADDR))
        return t.recv_data_msg()

    def tick(self, fn):
        """one TDMA frame, as the application's clock handler does it"""
        for t in self.trx:
            t.clck_tick(self.fwd, fn)

    def got(self, t):
        return list(t.data_if.sock.sent)


def fit(fails, limit=14000):
    """at most 5 failures whose JSON stays below what oracles/run.py prints (20000 characters): later / oversized inputs are abridged"""
    import json
    out, used = [], 0
    for f in fails[:5]:
        f = dict(f)
        size = len(json.dumps(f, indent=1, default=str))
        if used + size > limit:
            inp = f.get("input")
            if isinstance(inp, dict) and isinstance(inp.get("history"), list) and len(inp["history"]) > 12:
                inp = dict(inp)
                inp["history"] = ["... %d earlier events omitted (same seed reproduces them) ..." % (len(inp["history"]) - 12)] + inp["history"][-12:]
                f["input"] = inp
                size = len(json.dumps(f, indent=1, default=str))
            if used + size > limit:
                f["input"] = {"abridged": "input omitted for size, the same seed / fixed case reproduces it", "head": json.dumps(inp, default=str)[:600]}
                f["observed"] = json.dumps(f.get("observed"), default=str)[:600]
                f["expected"] = json.dumps(f.get("expected"), default=str)[:600]
                size = len(json.dumps(f, indent=1, default=str))
        used += size
        out.append(f)
    return out

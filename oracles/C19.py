"""C19 (Python half) - bounded native oracle: GSM time arithmetic of the toolkit (gsm_shared).

Statement-level reference (3GPP TS 45.002 4.3.3, written here, not taken from the code):
    T1 = FN div 1326, T2 = FN mod 26, T3 = FN mod 51, TC = (FN div 51) mod 8
    FN = 1326 * T1 + 51 * ((T3 - T2) mod 26) + T3                 (recomposition)
    hyperframe = 2048 * 26 * 51 = 2715648 frames, superframe = 26 * 51 = 1326 frames
    one-frame step of a running time: T2, T3 count modulo 26 / 51, TC advances when T3 wraps, T1 advances
    (modulo 2048) when T2 and T3 wrap together; the successor of FN 2715647 is FN 0.
Observed: HoppingParams.fn2gsm_time(fn) (return value) and the constants GSM_HYPERFRAME / GSM_SUPERFRAME.
"""
import time, random, logging
from engine.pyvc.harness import toolkit

HYPER = 2048 * 26 * 51
SUPER = 26 * 51
DELTAS = [1] + list(range(2, 61)) + [1325, 1326, 2715647]

BOUND = ("Python half only (gsm_shared.HoppingParams.fn2gsm_time, GSM_HYPERFRAME, GSM_SUPERFRAME). Fixed part: the two constants; "
         "about 12 000 boundary frame numbers (0..3000, the last 3000 of the hyperframe, every multiple of 1326 with its two neighbours, "
         "multiples of 51*8*26 and 51*8*131 with their neighbours, powers of two +-1) checked for decomposition == (fn div 1326, fn mod 26, fn mod 51, (fn div 51) mod 8), "
         "recomposition == fn and the one-frame carry rule into the successor (incl. 2715647 -> 0). Budgeted part: complete walk of all "
         "2 715 648 frame numbers in blocks of 65 536 (finishes in about 3 s; with a smaller budget the walk is cut and the number of frames "
         "walked is reported in 'walked'), then seeded random (fn, delta) pairs with delta in {1, 2..60, 1325, 1326, 2715647}: decomposition of "
         "(fn + delta) mod 2715648 against the reference and against delta single-frame reference steps (for delta <= 60). "
         "The firmware/libosmocore half (gsm_fn2gsmtime, gsm_gsmtime2fn, l1s_time_inc) is C code and is not reachable from here.")


def ref_time(fn):
    return (fn // 1326, fn % 26, fn % 51, (fn // 51) % 8)


def ref_compose(t1, t2, t3):
    return 1326 * t1 + 51 * ((t3 - t2) % 26) + t3


def ref_step(t):
    """successor of a running (t1, t2, t3, tc) by the carry rule of the statement"""
    t1, t2, t3, tc = t
    t2 = (t2 + 1) % 26
    t3 = (t3 + 1) % 51
    if t3 == 0:
        tc = (tc + 1) % 8
        if t2 == 0:
            t1 = (t1 + 1) % 2048
    return (t1, t2, t3, tc)


def _boundary_fns():
    s = set(range(0, 3001)) | set(range(HYPER - 3000, HYPER))
    for k in range(0, 2048):
        for d in (-1, 0, 1):
            s.add((k * SUPER + d) % HYPER)
    for k in range(0, HYPER, 51 * 8 * 26):
        s.update(((k - 1) % HYPER, k, k + 1))
    for k in range(0, HYPER, 51 * 8 * 131):
        s.update(((k - 1) % HYPER, k, k + 1))
    for b in range(0, 22):
        for d in (-1, 0, 1):
            s.add(((1 << b) + d) % HYPER)
    return sorted(x for x in s if 0 <= x < HYPER)


def run(budget_s=20.0, seed=0):
    t_end = time.time() + budget_s
    prev_disable = logging.root.manager.disable
    logging.disable(logging.CRITICAL)
    failures, cases = [], 0

    def fail(what, inp, observed, expected):
        if len(failures) < 5:
            failures.append({"what": what, "input": inp, "observed": observed, "expected": expected})

    try:
        gs = toolkit("gsm_shared")
        # ---- constants
        cases += 2
        hyper = getattr(gs, "GSM_HYPERFRAME", None)
        if hyper != HYPER:
            fail("GSM_HYPERFRAME", {"const": "GSM_HYPERFRAME"}, hyper, HYPER)
        sup = getattr(gs, "GSM_SUPERFRAME", None)
        if sup != SUPER:
            fail("GSM_SUPERFRAME", {"const": "GSM_SUPERFRAME"}, sup, SUPER)
        wrap = hyper if isinstance(hyper, int) and hyper > 0 else HYPER

        # the function as a user of the class reaches it (works for static-, class- and instance methods alike)
        try:
            f = gs.HoppingParams(0, 0, [(1, 2)]).fn2gsm_time
            f(0)
        except Exception:
            f = gs.HoppingParams.fn2gsm_time

        def decomp(fn):
            try:
                r = f(fn)
                return tuple(int(x) for x in r)
            except Exception as e:
                return "raises %s: %s" % (type(e).__name__, e)

        def check(fn):
            got = decomp(fn)
            exp = ref_time(fn)
            if got != exp:
                fail("fn2gsm_time", {"fn": fn}, got, exp)
                return False
            return True

        # ---- fixed boundary cases
        for fn in _boundary_fns():
            cases += 1
            if not check(fn):
                if len(failures) >= 5:
                    break
                continue
            got = decomp(fn)
            back = ref_compose(got[0], got[1], got[2])
            if back != fn:
                fail("recomposition", {"fn": fn}, back, fn)
            # the toolkit's own wrap constant decides the successor frame number
            nxt = (fn + 1) % wrap
            if nxt < HYPER and 0 <= nxt:
                g2 = decomp(nxt)
                if g2 != ref_step(got):
                    fail("one-frame step", {"fn": fn, "next_fn_by_GSM_HYPERFRAME": nxt}, g2, ref_step(got))
            if len(failures) >= 5:
                break

        # ---- complete walk (budgeted, block-wise)
        walked = 0
        fn = 0
        BLK = 65536
        while fn < HYPER and not failures and time.time() < t_end:
            hi = min(HYPER, fn + BLK)
            bad = None
            try:
                for x in range(fn, hi):
                    r = f(x)
                    if (r[0], r[1], r[2], r[3]) != (x // 1326, x % 26, x % 51, (x // 51) % 8) or len(r) != 4:
                        bad = x
                        break
            except Exception:
                bad = x
            if bad is not None:
                cases += bad - fn + 1
                check(bad)
                break
            cases += hi - fn
            walked = hi
            fn = hi

        # ---- seeded random (fn, delta)
        rnd = random.Random(seed)
        while not failures and time.time() < t_end:
            for _ in range(2000):
                fn = rnd.randrange(HYPER) if rnd.random() < 0.7 else (HYPER - 1 - rnd.randrange(3000)) % HYPER
                d = rnd.choice(DELTAS)
                cases += 1
                new = (fn + d) % wrap
                exp_new = (fn + d) % HYPER
                if new != exp_new:
                    fail("frame number wrap", {"fn": fn, "delta": d}, new, exp_new)
                    break
                if not check(new):
                    break
                if d <= 60:
                    t = decomp(fn)
                    if t != ref_time(fn):
                        check(fn)
                        break
                    for _k in range(d):
                        t = ref_step(t)
                    g = decomp(new)
                    if g != t:
                        fail("delta step", {"fn": fn, "delta": d}, g, t)
                        break
        return {"cases": cases, "failures": _fit(failures), "walked": walked}
    finally:
        logging.disable(prev_disable)


def _fit(failures, limit=14000):
    """keep the report printable by oracles.run (20 000 characters): drop trailing failures, then shorten the first one's history"""
    import json
    fs = list(failures[:5])
    while len(fs) > 1 and len(json.dumps(fs, indent=1, default=str)) > limit:
        fs.pop()
    if fs and len(json.dumps(fs, indent=1, default=str)) > limit:
        inp = fs[0].get("input")
        if isinstance(inp, dict) and isinstance(inp.get("history"), list):
            while len(inp["history"]) > 5 and len(json.dumps(fs, indent=1, default=str)) > limit:
                del inp["history"][:max(1, len(inp["history"]) // 4)]
                inp["history_truncated"] = True
        if len(json.dumps(fs, indent=1, default=str)) > limit:
            fs[0]["input"] = json.dumps(fs[0]["input"], default=str)[:limit // 2] + " ...(truncated)"
            fs[0]["observed"] = str(fs[0]["observed"])[:2000]
            fs[0]["expected"] = str(fs[0]["expected"])[:2000]
    return fs

"""C09 - clock source: consecutive frame numbers, one per frame, no accumulated drift (bounded native oracle).

The real clck_gen.CLCKGen runs under a scripted virtual clock: inside the clck_gen module the names `time` and `threading` are replaced by
shims (virtual monotonic clock; Event whose wait() advances the virtual clock by the timeout plus a scripted wake-up latency; Thread replaced
by a recorder whose target is then run synchronously).  start(), the worker, stop() and start() again are driven through the public entry
points only; observed are the handler invocations (frame number, virtual time) and the payloads handed to the clock links.  The reference
is written from the statement: frame k = (clck_start + k) mod 2715648, IND CLOCK exactly at frames divisible by the period, tick k due one
frame period after tick k-1 counted from the start (absolute deadlines), an immediate single tick and a new time base after an overrun."""
import time as _time, threading as _threading, random, logging
from engine.pyvc.harness import toolkit

H = 2715648
P_HI = 4615000          # 4.615 ms in ns
P_LO = 4614999          # what the code's own float constant evaluates to; deadlines within 2 ns of either are accepted
TOL = 2

BOUND = ("fixed: 30 scripted scenarios (start frames 0, 1, 101, 2715646, 2715647 incl. the hyperframe wrap; indication periods 1, 2, 3, 13, 51, 102, "
         "2715647, 5000000; 0..5 links, also links attached/detached while running and real UDPLink objects over recorder sockets; handler absent; "
         "handler-duration patterns all-short, all-long, alternating, exactly one period +-1 ns, single 10-period stall; wake-up latencies; clock-read jitter; "
         "up to 3 start/stop phases; one 3000-tick drift run); random: configurations with start frame from {near 0, near the wrap, uniform}, "
         "period from {1..5, 13, 51, 102, uniform to 300}, 0..4 links, 5..60 ticks per phase, 1..3 phases, per-tick handler duration drawn from "
         "{0, 1 ns, ~100 us, half, P-1, P, P+1, 1.5P, 2P, 3P+7, 10P, uniform 0..2P}, latencies 0..2 ms, jitter 0..60 ns per clock read, until the "
         "time budget is used (about 1900 scenarios / 100000 ticks per second); every tick is checked for frame number, time window and indications")


class _Abort(BaseException):
    pass


class Sim:
    """virtual clock + the observations of one scenario"""

    def __init__(self, cfg):
        self.cfg = cfg
        self.now = cfg.get("t0", 1000)
        self.jitter = cfg.get("jitter", 0)
        self.reads = 0
        self.lat_used = 0            # wake-up latency injected since the last tick
        self.reads_mark = 0
        self.threads = []
        self.ticks = []              # (fn, time, reads since previous tick, latency since previous tick) per handler call
        self.sends = []              # (link index, payload, tick count at the time of the send)
        self.nwait = 0
        self.phase_target = 0
        self.phase_ticks0 = 0
        self.count_by = "handler"
        self.problem = None

    def read(self):
        self.reads += 1
        self.now += self.jitter
        return self.now

    def nticks(self):
        if self.count_by == "handler":
            return len(self.ticks)
        return sum(1 for s in self.sends if s[0] == 0)


def make_shims(sim):
    class TimeShim:
        def __getattr__(self, name):
            return getattr(_time, name)

        def monotonic_ns(self):
            return sim.read()

        def monotonic(self):
            return sim.read() / 1e9

        perf_counter_ns = time_ns = monotonic_ns
        perf_counter = time = monotonic

        def sleep(self, t):
            sim.now += max(0, int(round(t * 1e9)))

    class VEvent:
        def __init__(self):
            self.flag = False

        def set(self):
            self.flag = True

        def clear(self):
            self.flag = False

        def is_set(self):
            return self.flag
        isSet = is_set

        def wait(self, timeout=None):
            sim.nwait += 1
            if self.flag:
                return True
            if sim.nticks() - sim.phase_ticks0 >= sim.phase_target:
                return True             # the other thread has called stop(): the breaker is set while the worker waits
            if sim.nwait > 4 * sim.phase_target + 64:
                sim.problem = "worker keeps waiting without firing ticks"
                raise _Abort()
            if timeout is None:
                sim.problem = "worker waits without a timeout"
                raise _Abort()
            lats = sim.cfg.get("lat") or [0]
            lat = lats[(sim.nwait - 1) % len(lats)]
            sim.lat_used += lat
            sim.now += max(0, int(round(timeout * 1e9))) + lat
            return False

    class VThread:
        def __init__(self, group=None, target=None, name=None, args=(), kwargs=None, daemon=None):
            self.target, self.args, self.kwargs = target, args, kwargs or {}
            self.daemon, self.name = daemon, name
            self.started = self.joined = False
            sim.threads.append(self)

        def start(self):
            self.started = True

        def join(self, timeout=None):
            self.joined = True

        def is_alive(self):
            return self.started and not self.joined
        isAlive = is_alive

    class ThreadingShim:
        Thread = VThread
        Event = VEvent

        def __getattr__(self, name):
            return getattr(_threading, name)
    return TimeShim(), ThreadingShim()


class Link:
    def __init__(self, sim, idx):
        self.sim, self.idx = sim, idx

    def send(self, data):
        if isinstance(data, str):
            data = data.encode()
        self.sim.sends.append((self.idx, bytes(data), len(self.sim.ticks)))


def scenario(cfg):
    """run one scripted scenario against the real CLCKGen; returns (ticks executed, failure or None)"""
    cg = toolkit("clck_gen")
    sim = Sim(cfg)
    tshim, thshim = make_shims(sim)
    # replace, by identity, whatever names the module uses for the time / threading facilities (module objects or imported functions)
    subst = [(_time, tshim), (_threading, thshim), (_time.monotonic_ns, tshim.monotonic_ns), (_time.monotonic, tshim.monotonic),
             (_time.perf_counter_ns, tshim.monotonic_ns), (_time.perf_counter, tshim.monotonic), (_time.sleep, tshim.sleep),
             (_threading.Thread, thshim.Thread), (_threading.Event, thshim.Event)]
    saved = {}
    for name, val in list(vars(cg).items()):
        for real, shim in subst:
            if val is real:
                saved[name] = val
                setattr(cg, name, shim)
    ul = sock_saved = None
    fail = None
    try:
        nl = cfg.get("links", 1)
        if cfg.get("real_links"):
            from contracts.py.native import Recorder

            class FakeSocketModule:
                AF_INET = SOCK_DGRAM = SOL_SOCKET = SO_REUSEADDR = 0
                socket = Recorder
            ul = toolkit("udp_link")
            sock_saved = ul.socket
            ul.socket = FakeSocketModule
            links = [ul.UDPLink("127.0.0.1", 5800 + i, "0.0.0.0", 5700 + i) for i in range(nl)]
        else:
            links = [Link(sim, i) for i in range(nl)]
        cs, per = cfg["clck_start"], cfg["ind_period"]
        g = cg.CLCKGen(links, clck_start=cs, ind_period=per)
        durs = cfg.get("durs") or [0]
        changes = {int(k): v for k, v in (cfg.get("link_changes") or {}).items()}      # global tick index -> "add" / "del"
        members, adds = list(range(nl)), [0]                                          # indices of the links attached at the moment (reference)

        def handler(fn):
            k = len(sim.ticks)
            sim.ticks.append((fn, sim.now, sim.reads - sim.reads_mark, sim.lat_used))
            sim.reads_mark, sim.lat_used = sim.reads, 0
            ch = changes.get(k)
            if ch == "add":
                g.clck_links.append(Link(sim, nl + sum(1 for c, v in changes.items() if v == "add" and c < k)))
            elif ch == "del" and g.clck_links:
                g.clck_links.remove(g.clck_links[0])
            sim.now += durs[k % len(durs)]
        if cfg.get("handler", True):
            g.clck_handler = handler
        else:
            sim.count_by = "link0"
        phases = cfg.get("phases") or [20]
        done = 0
        for pi, nt in enumerate(phases):
            sim.phase_target, sim.phase_ticks0, sim.nwait = nt, sim.nticks(), 0
            nth = len(sim.threads)
            first = len(sim.ticks)
            first_send = len(sim.sends)
            g.start()
            new = sim.threads[nth:]
            if len(new) != 1 or not new[0].started or new[0].target is None:
                return done, ("start() does not start exactly one worker thread", "%d thread object(s)" % len(new), "one started thread")
            try:
                if not g.running:
                    return done, ("running is false after start()", False, True)
            except AttributeError:
                pass
            s_lo = sim.now
            try:
                new[0].target(*new[0].args, **new[0].kwargs)
            except _Abort:
                return done, ("worker does not come to rest", sim.problem, "one wait per tick, stop at the breaker")
            except Exception as e:
                return done, ("worker raises", "%s: %s" % (type(e).__name__, e), "no exception")
            g.stop()
            try:
                if g.running:
                    return done, ("running is true after stop()", True, False)
            except AttributeError:
                pass
            ph = {"phase": pi, "ticks_in_phase": nt}
            # --- frame numbers (of as many ticks as were fired)
            want = [(cs + k) % H for k in range(nt)]
            ntk = nt
            if cfg.get("handler", True):
                got = [t[0] for t in sim.ticks[first:]]
                ntk = len(got)
                ref = [(cs + k) % H for k in range(ntk)]
                if got != ref:
                    j = next(i for i in range(ntk) if got[i] != ref[i])
                    return done, ("frame numbers seen by the handler", dict(ph, first_difference_at_tick=j, got=got[max(0, j - 2):j + 3]),
                                  dict(want=ref[max(0, j - 2):j + 3]))
            # --- timing (handler invocations only)
            if cfg.get("handler", True):
                J = sim.jitter
                dlo = dhi = None
                end_prev = s_lo
                for k in range(ntk):
                    fn, T, reads, lat = sim.ticks[first + k]
                    jit = reads * J
                    if k == 0:
                        n_lo, n_hi = s_lo + P_LO, s_lo + jit + P_HI
                    else:
                        n_lo, n_hi = dlo + P_LO, dhi + P_HI
                    E = end_prev
                    if E + jit < n_lo - TOL:
                        case, w_lo, w_hi = "deadline ahead", n_lo - TOL, n_hi + TOL + lat + jit
                        dlo, dhi = n_lo, n_hi
                    elif E > n_hi + TOL:
                        case, w_lo, w_hi = "overrun: fire at once, new time base", E, E + jit + lat + TOL
                        dlo, dhi = E, max(E, T)
                    else:
                        case, w_lo, w_hi = "handler returned at the deadline", min(n_lo, E) - TOL, max(n_hi, E + jit) + TOL + lat
                        dlo, dhi = min(n_lo, E), max(n_hi, T)
                    if not (w_lo <= T <= w_hi):
                        rel = sim.ticks[first][1]
                        return done, ("tick time", dict(ph, tick=k, fn=fn, fired_at_ns=T, previous_tick_at_ns=(sim.ticks[first + k - 1][1] if k else None),
                                                        previous_handler_returned_at_ns=E, situation=case,
                                                        off_by_ns=(T - w_lo if T < w_lo else T - w_hi)),
                                      dict(window_ns=[w_lo, w_hi], rule="tick k is due one frame period (4615000 or 4614999 ns) after the due time of tick k-1; "
                                                                     "after an overrun exactly one tick at once and the period counts from there"))
                    end_prev = T + durs[(first + k) % len(durs)]
            # --- one tick per wait: the worker was stopped at its first wait after nt ticks
            if ntk != nt:
                return done, ("number of ticks between start() and stop()", dict(ph, ticks=ntk), dict(ticks=nt, rule="one tick per frame period, no catch-up ticks"))
            # --- indications: per link the payloads in order; a link attached (detached) by the handler of tick c receives from tick c+1 on
            #     (until tick c); such changes are scripted only at ticks that carry no indication
            if not cfg.get("real_links"):
                exp = {}
                for k in range(nt):
                    fn = want[k]
                    if fn % per == 0:
                        for li in members:
                            exp.setdefault(li, []).append(b"IND CLOCK %d\0" % fn)
                    ch = changes.get(first + k) if cfg.get("handler", True) else None
                    if ch == "add":
                        members.append(nl + adds[0])
                        adds[0] += 1
                    elif ch == "del" and members:
                        members.pop(0)
                obs = {}
                for li, data, _k in sim.sends[first_send:]:
                    obs.setdefault(li, []).append(data)
                if obs != exp:
                    li = next(i for i in sorted(set(obs) | set(exp)) if obs.get(i) != exp.get(i))
                    o, e = obs.get(li, []), exp.get(li, [])
                    j = next((i for i in range(min(len(o), len(e))) if o[i] != e[i]), min(len(o), len(e)))
                    return done, ("IND CLOCK payloads on a link", dict(ph, link=li, count=len(o), around=[x.decode("latin1") for x in o[max(0, j - 1):j + 2]]),
                                  dict(count=len(e), around=[x.decode("latin1") for x in e[max(0, j - 1):j + 2]]))
            else:
                for li, lk in enumerate(links):
                    o = [d for d, _a in lk.sock.sent]
                    e = [b"IND CLOCK %d\0" % ((cs + k) % H) for _p in range(pi + 1) for k in range(phases[_p]) if ((cs + k) % H) % per == 0]
                    dst = set(a for _d, a in lk.sock.sent)
                    if o != e or (dst - {("127.0.0.1", 5800 + li)}):
                        return done, ("datagrams on a real clock link", dict(ph, link=li, count=len(o), last=[x.decode("latin1") for x in o[-2:]], dst=sorted(dst)),
                                      dict(count=len(e), last=[x.decode("latin1") for x in e[-2:]]))
            done += nt
    except _Abort:
        fail = ("worker does not come to rest", sim.problem, "stops at the breaker")
    except Exception as e:
        fail = ("public entry point raises", "%s: %s" % (type(e).__name__, e), "no exception")
    finally:
        for name, val in saved.items():
            setattr(cg, name, val)
        if ul is not None:
            ul.socket = sock_saved
    return (len(sim.ticks), fail) if fail else (done, None)


def fixed_scenarios():
    P = P_HI
    sc = []
    add = sc.append
    # frame numbering / wrap / periods / link sets, quick handler
    add(dict(clck_start=0, ind_period=102, links=1, phases=[210], durs=[100000]))
    add(dict(clck_start=H - 1, ind_period=1, links=2, phases=[5], durs=[1000]))
    add(dict(clck_start=H - 2, ind_period=51, links=3, phases=[60], durs=[1000]))
    add(dict(clck_start=H - 1, ind_period=H - 1, links=2, phases=[3], durs=[10]))
    add(dict(clck_start=101, ind_period=102, links=5, phases=[3], durs=[10]))
    add(dict(clck_start=1, ind_period=5000000, links=2, phases=[12], durs=[10]))
    add(dict(clck_start=H - 3, ind_period=5000000, links=2, phases=[8], durs=[10]))
    add(dict(clck_start=0, ind_period=13, links=0, phases=[30], durs=[10]))
    add(dict(clck_start=7, ind_period=2, links=4, phases=[11], durs=[0]))
    add(dict(clck_start=0, ind_period=3, links=2, phases=[10], durs=[5], real_links=True))
    add(dict(clck_start=H - 2, ind_period=1, links=2, phases=[4, 3], durs=[5], real_links=True))
    add(dict(clck_start=H - 2, ind_period=1, links=2, phases=[6], handler=False))
    add(dict(clck_start=50, ind_period=1, links=1, phases=[4, 4], handler=False))
    # links attached / detached while running (changes at ticks that carry no indication)
    add(dict(clck_start=1, ind_period=4, links=1, phases=[20], durs=[100], link_changes={"1": "add", "6": "add", "9": "del"}))
    add(dict(clck_start=1, ind_period=3, links=0, phases=[8, 8], durs=[100], link_changes={"0": "add", "9": "add"}))
    # restart from the start frame
    add(dict(clck_start=0, ind_period=102, links=1, phases=[3, 3], durs=[1000]))
    add(dict(clck_start=H - 1, ind_period=1, links=2, phases=[2, 5, 1], durs=[1000]))
    add(dict(clck_start=1000, ind_period=51, links=1, phases=[105, 55], durs=[P // 3]))
    add(dict(clck_start=5, ind_period=2, links=1, phases=[0, 4], durs=[10]))
    # timing: handler durations below / above one period
    add(dict(clck_start=0, ind_period=51, links=1, phases=[40], durs=[P // 2]))
    add(dict(clck_start=0, ind_period=51, links=1, phases=[40], durs=[P - 1000, 10, P - 1]))
    add(dict(clck_start=0, ind_period=51, links=1, phases=[30], durs=[100, P // 2, 3 * P, 10, P + 1, 5, 5, 2 * P, 1]))
    add(dict(clck_start=0, ind_period=51, links=1, phases=[24], durs=[3 * P + 7]))
    add(dict(clck_start=0, ind_period=51, links=1, phases=[30], durs=[10 * P, 1000, 1000, 1000, 1000, 1000, 1000, 1000, 1000, 1000, 1000, 1000]))
    add(dict(clck_start=0, ind_period=51, links=1, phases=[30], durs=[P, P - 1, P + 1, P - 2, P + 2, 0]))
    add(dict(clck_start=0, ind_period=51, links=1, phases=[30], durs=[P + 1000, 1000]))
    # wake-up latency and clock-read jitter
    add(dict(clck_start=0, ind_period=51, links=1, phases=[40], durs=[1000, P // 2], lat=[0, 300000, 50, 2 * P, 0, 0]))
    add(dict(clck_start=0, ind_period=51, links=1, phases=[40, 20], durs=[100, P // 2, 3 * P, 10, P + 1, 5, 5], lat=[0, 1000, 7], jitter=37))
    add(dict(clck_start=0, ind_period=51, links=1, phases=[40], durs=[P - 200, 100], jitter=60, t0=10 ** 15))
    # no accumulated drift over a long run
    add(dict(clck_start=H - 1500, ind_period=102, links=2, phases=[3000], durs=[P // 10, P // 2, 17], t0=123456789012))
    return sc


def random_scenario(rnd):
    P = P_HI
    cs = rnd.choice((rnd.randrange(0, 120), H - 1 - rnd.randrange(0, 60), rnd.randrange(H)))
    per = rnd.choice((1, 2, 3, 4, 5, 13, 51, 102, rnd.randint(1, 300)))
    phases = [rnd.randint(5, 60) for _ in range(rnd.choice((1, 1, 2, 3)))]
    if rnd.random() < 0.1:
        phases[0] = rnd.randint(0, 3)

    def dur():
        return rnd.choice((0, 1, 100000 + rnd.randrange(1000), P // 2, P - 1, P, P + 1, P + P // 2, 2 * P, 3 * P + 7, 10 * P,
                           rnd.randrange(2 * P), rnd.randrange(P), rnd.randrange(P), rnd.randrange(1000)))
    style = rnd.choice(("short", "long", "mixed", "mixed", "stall"))
    n = rnd.randint(1, 12)
    if style == "short":
        durs = [rnd.randrange(P - 10) for _ in range(n)]
    elif style == "long":
        durs = [P + 1 + rnd.randrange(3 * P) for _ in range(n)]
    elif style == "stall":
        durs = [rnd.randrange(P // 4) for _ in range(n + 3)]
        durs[rnd.randrange(len(durs))] = rnd.randint(P, 12 * P)
    else:
        durs = [dur() for _ in range(n)]
    cfg = dict(clck_start=cs, ind_period=per, links=rnd.choice((0, 1, 1, 2, 3, 4)), phases=phases, durs=durs, t0=rnd.choice((0, 1000, rnd.randrange(10 ** 14))))
    if rnd.random() < 0.3:
        cfg["lat"] = [rnd.choice((0, 0, rnd.randrange(2000), rnd.randrange(2000000))) for _ in range(rnd.randint(1, 7))]
    if rnd.random() < 0.3:
        cfg["jitter"] = rnd.randint(1, 60)
    if rnd.random() < 0.1 and cfg["links"] >= 1:
        cfg["handler"], cfg["ind_period"] = False, 1
        cfg.pop("durs")
    elif per >= 2 and rnd.random() < 0.25:
        # attach / detach links at ticks whose frame carries no indication
        total = sum(phases)
        ch = {}
        pos, starts = 0, []
        for p_ in phases:
            starts.append(pos)
            pos += p_
        for _ in range(rnd.randint(1, 3)):
            k = rnd.randrange(total) if total else 0
            base = max(s for s in starts if s <= k)
            if total and ((cs + (k - base)) % H) % per != 0:
                ch[str(k)] = rnd.choice(("add", "add", "del"))
        if ch:
            cfg["link_changes"] = ch
    return cfg


def run(budget_s=20.0, seed=0):
    t0 = _time.time()
    prev = logging.root.manager.disable
    logging.disable(logging.CRITICAL)
    cases, failures = 0, []

    def go(cfg, origin):
        nonlocal cases
        n, f = scenario(cfg)
        cases += max(1, n)
        if f and len(failures) < 5 and not any(x["what"] == f[0] for x in failures):
            failures.append({"what": f[0], "input": dict(cfg, origin=origin), "observed": f[1], "expected": f[2]})
    try:
        for i, cfg in enumerate(fixed_scenarios()):
            go(cfg, "fixed scenario %d" % i)
        rnd = random.Random(1000003 * seed + 9)
        i = 0
        while not failures and _time.time() - t0 < budget_s:
            go(random_scenario(rnd), "random scenario %d of seed %d" % (i, seed))
            i += 1
    finally:
        logging.disable(prev)
    return {"cases": cases, "failures": failures[:5]}

"""C06 - bounded native oracle: sercomm serial framing (src/target/firmware/comm/sercomm.c), HOST_BUILD (receive buffer 2048) and the target
variant compiled natively (buffer 256; only <asm/system.h>, the ARM interrupt lock, is replaced by shim/sercomm_native).

Statement-level reference: spec/hdlc_wire.py (frame(dlci, payload) = 7E . esc(dlci) . esc(03) . esc(payload) . 7E with esc(b) = 7D (b^20) for b in
{7E, 7D, 00}) and a reference of the queueing discipline written here from the statement: messages wait per DLCI in FIFO order; whenever the
transmitter starts a new frame it takes the head of the lowest-numbered non-empty DLCI; a frame in transmission is finished first.
Judged (the real sercomm.c #included, bundled libosmocore msgb.c/talloc.c, ASan+UBSan):
  * the octets returned by sercomm_drv_pull() follow the wire grammar of the statement (spec.hdlc_wire.scan_transmitter_output: frames 7E body 7E,
    inside a body no unescaped 7E / 00, 7D x stands for x xor 20 with x neither 7E nor 00 - WHICH further octets an implementation escapes is its
    own choice) and decode to dlci . 03 . payload of the queued messages in the order of the queueing discipline;
  * feeding them octet by octet into sercomm_drv_rx_char() delivers every message with a payload shorter than the receive buffer to the handler of
    its DLCI, with identical DLCI and payload, exactly once, in wire order - for all 256 octet values and DLCIs 0..127 (128 is the echo DLCI);
  * flag-free noise between frames changes nothing;
  * an over-long frame (payload longer than the buffer) is not delivered, costs at most the ONE frame that follows it, and nothing after that;
    a payload of exactly the buffer size may be delivered (intact) or discarded - the statement leaves that boundary open;
  * no sanitizer report, no osmo_panic() at any point.
"""
import os, random

from engine.cvc import frontend, replay as R
from spec import hdlc_wire as W
from . import _c

SERCOMM = "src/target/firmware/comm/sercomm.c"
RX = {"host": 2048, "fw": 256}

BOUND = ("sercomm.c, both builds (HOST_BUILD with a 2048-octet receive buffer; target variant with 256 compiled natively), each scenario a fresh process. Fixed part "
         "(per build): every DLCI 0..127 once with a payload made of the special octets; every octet value 0..255 as a 1-octet payload and at the first / "
         "last position of a longer one; payload lengths 0, 1, 2, RX-2, RX-1 (all-plain and all-escaped); priority / FIFO batches of up to 12 messages on "
         "mixed DLCIs incl. 00, 7D, 7E; messages queued while a frame is in transmission (pull k octets, queue a lower DLCI, continue); flag-free noise of all "
         "255 non-flag octets between frames; over-long frames of RX+1, RX+2, RX+40, 3*RX octets with plain and escaped octets at offsets RX-1, RX, RX+1, "
         "followed by frames of every kind (short, RX-1 long, escaped DLCI); the boundary payload of exactly RX octets. Budgeted part: seeded random "
         "scenarios mixing all of these (1..4 batches of 1..6 messages, random interleaving points, noise, over-long frames with probability 0.25).")

_MAIN = r"""
#include <stdio.h>
#include <stdlib.h>
#include <string.h>
#include <stdint.h>
#include "%(sercomm_c)s"
#ifndef HOST_BUILD
void uart_irq_enable(uint8_t uart, enum uart_irq irq, int on) { }
#endif
void osmo_panic(const char *fmt, ...) { printf("panic\n"); fflush(stdout); exit(7); }
static void hex(const char *tag, const uint8_t *p, int n) { int i; printf("%%s", tag); for (i = 0; i < n; i++) printf("%%02x", p[i]); if (!n) printf("-"); printf("\n"); }
static void handler(uint8_t dlci, struct msgb *msg)
{
	printf("deliver %%u ", dlci);
	hex("", msg->data, msg->tail - msg->data);
	msgb_free(msg);
}
static int hexbytes(const char *h, uint8_t *out) { int n = 0; unsigned v; if (!strcmp(h, "-")) return 0; while (h[0] && h[1] && sscanf(h, "%%2x", &v) == 1) { out[n++] = v; h += 2; } return n; }
static uint8_t wire[600000]; static int nwire;
static void pull(long max)
{
	uint8_t ch; long k = 0;
	while (k < max && nwire < (int)sizeof(wire) && sercomm_drv_pull(&ch)) { wire[nwire++] = ch; k++; sercomm_drv_rx_char(ch); }
	printf("pulled %%ld\n", k);
}
int main(int argc, char **argv)
{
	/* script on stdin:  send <dlci> <hex>  |  pull <k>  |  pump  |  feed <hex> */
	static uint8_t buf[70000];
	static char line[150000], a2[140100];
	int i, n;
	unsigned d;
	long k;
	sercomm_init();
	for (i = 0; i < _SC_DLCI_MAX; i++) {
		int skip = 0, a;
		for (a = 1; a < argc; a++) if (atoi(argv[a]) == i) skip = 1;	/* DLCIs named on the command line stay without a handler */
		if (i != SC_DLCI_ECHO && !skip) sercomm_register_rx_cb(i, handler);
	}
	printf("rx_size %%d\n", SERCOMM_RX_MSG_SIZE);
	while (fgets(line, sizeof(line), stdin)) {
		a2[0] = 0;
		if (!strncmp(line, "send", 4)) {
			struct msgb *m;
			sscanf(line + 4, "%%u %%140000s", &d, a2);
			n = hexbytes(a2, buf);
			m = sercomm_alloc_msgb(n ? n : 1);	/* msgb_alloc_headroom() demands size > headroom */
			memcpy(msgb_put(m, n), buf, n);
			sercomm_sendmsg(d, m);
		} else if (!strncmp(line, "pull", 4)) {
			sscanf(line + 4, "%%ld", &k);
			pull(k);
		} else if (!strncmp(line, "pump", 4)) {
			pull(590000);
		} else if (!strncmp(line, "feed", 4)) {
			sscanf(line + 4, "%%140000s", a2);
			n = hexbytes(a2, buf);
			for (i = 0; i < n; i++) sercomm_drv_rx_char(buf[i]);
		}
		fflush(stdout);
	}
	hex("wire ", wire, nwire);
	printf("done\n");
	return 0;
}
"""


def flags(mode):
    L = frontend.repo("src/shared/libosmocore")
    common = ["-I", os.path.join(L, "include"), "-I", os.path.join(frontend.SHIM, "host", "a", "b"), "-I", os.path.join(frontend.SHIM, "host"),
              os.path.join(L, "src", "msgb.c"), os.path.join(L, "src", "talloc.c")]
    if mode == "host":
        return ["-DHOST_BUILD", "-I", frontend.repo("src/target/firmware/include/comm")] + common
    return ["-I", os.path.join(frontend.SHIM, "sercomm_native"), "-idirafter", frontend.repo("src/target/firmware/include")] + common


class Ref:
    """reference of the statement: per-DLCI FIFO queues, lowest DLCI first, a started frame is finished.  It FOLLOWS the observed wire (the
    octets each pull operation returned): at every opening flag the message whose frame must start is the head of the lowest non-empty
    DLCI; the body is checked against the wire grammar and must decode to dlci . 03 . payload; when a pull returned fewer octets than asked
    for, nothing may be left to send."""

    def __init__(self, rx):
        self.rx = rx
        self.q = {}
        self.frames = []         # (dlci, payload) in the order their frames start
        self.in_frame = False
        self.esc = False
        self.body = []
        self.error = None
        self.pos = 0

    def send(self, d, p):
        self.q.setdefault(d, []).append(list(p))

    def fail(self, what):
        if self.error is None:
            self.error = (self.pos, what)

    def octet(self, b):
        if not self.in_frame:
            if b != W.FLAG:
                return self.fail("octet %02x outside a frame (expected an opening flag)" % b)
            ds = sorted(d for d, l in self.q.items() if l)
            if not ds:
                return self.fail("a frame starts although no message is queued")
            self.frames.append((ds[0], self.q[ds[0]].pop(0)))
            self.in_frame, self.esc, self.body = True, False, []
        elif self.esc:
            if b in (W.FLAG, 0):
                return self.fail("octet %02x after the escape marker" % b)
            self.body.append(b ^ 0x20)
            self.esc = False
        elif b == W.FLAG:
            d, p = self.frames[-1]
            if self.body != [d, W.CTRL_UI] + p:
                k = next((i for i in range(min(len(self.body), len(p) + 2)) if self.body[i] != ([d, W.CTRL_UI] + p)[i]), min(len(self.body), len(p) + 2))
                self.fail("frame does not decode to dlci . 03 . payload of the message whose turn it is (dlci %d, %d octets): differs at body octet %d" % (d, len(p), k))
            self.in_frame = False
        elif b == 0:
            self.fail("unescaped zero octet inside a frame")
        elif b == W.ESCAPE:
            self.esc = True
        else:
            self.body.append(b)

    def pulled(self, asked, octets):
        for b in octets:
            if self.error:
                return
            self.octet(b)
            self.pos += 1
        if self.error is None and len(octets) < asked and (self.in_frame or any(self.q.values())):
            self.fail("pull stopped although %s" % ("a frame is in transmission" if self.in_frame else "messages are queued"))


def play(ops, rx):
    """ops: ('send', d, payload) | ('pull', k) | ('pump',) | ('noise', octets) -> script lines"""
    script = []
    for op in ops:
        if op[0] == "send":
            script.append("send %d %s" % (op[1], _c.hexs(op[2])))
        elif op[0] == "pull":
            script.append("pull %d" % op[1])
        elif op[0] == "pump":
            script.append("pump")
        else:
            script.append("feed " + _c.hexs(op[1]))
    return script


def follow(ops, rx, wire, counts):
    """run the reference along the observed wire -> Ref"""
    ref = Ref(rx)
    pos, ci = 0, 0
    for op in ops:
        if op[0] == "send":
            ref.send(op[1], op[2])
        elif op[0] in ("pull", "pump"):
            n = counts[ci] if ci < len(counts) else 0
            ci += 1
            ref.pulled(op[1] if op[0] == "pull" else 590000, wire[pos:pos + n])
            pos += n
    return ref


def parse(stdout):
    out = {"deliveries": [], "wire": None, "panic": False, "done": False, "rx_size": None, "pulled": []}
    for ln in stdout.splitlines():
        p = ln.split()
        if not p:
            continue
        if p[0] == "deliver" and len(p) >= 3:
            out["deliveries"].append((int(p[1]), _c.unhex(p[2])))
        elif p[0] == "wire" and len(p) >= 2:
            out["wire"] = _c.unhex(p[1])
        elif p[0] == "pulled" and len(p) >= 2:
            out["pulled"].append(int(p[1]))
        elif p[0] == "panic":
            out["panic"] = True
        elif p[0] == "rx_size":
            out["rx_size"] = int(p[1])
        elif p[0] == "done":
            out["done"] = True
    return out


def short(m):
    return {"dlci": m[0], "payload_len": len(m[1]), "payload_head": _c.hexs(m[1][:16])}


def judge(S, mode, ops, h):
    rx = RX[mode]
    unreg = sorted(set(x for op in ops if op[0] == "unreg" for x in op[1]))
    ops = [op for op in ops if op[0] != "unreg"]
    script = play(ops, rx)
    r = h.run([str(x) for x in unreg], timeout=120, stdin="\n".join(script) + "\n")
    S.cases += 1
    inp = {"build": mode, "rx_size": rx, "dlcis_without_a_handler": unreg, "script": [("%s ...(%d hex digits)" % (s[:70], len(s))) if len(s) > 90 else s for s in script][:40]}
    if r.get("rc") is None:
        raise _c.OracleCrash("harness build failed: %s" % (r.get("build_error") or "")[-500:])
    obs = parse(r.get("stdout") or "")
    if obs["rx_size"] is not None and obs["rx_size"] != rx:
        raise _c.OracleCrash("the %s build's receive buffer is %r, the oracle's scenarios are laid out for %r" % (mode, obs["rx_size"], rx))
    if r.get("sanitizer") or obs["panic"] or not obs["done"]:
        S.fail("memory error / panic", inp, r.get("sanitizer") or ("osmo_panic() called" if obs["panic"] else "exit status %s %s" % (r.get("rc"), (r.get("stderr") or "")[-200:])),
               "runs to completion without a sanitizer report")
        return
    wire = obs["wire"] or []
    ref = follow(ops, rx, wire, obs["pulled"])
    if ref.error:
        k, what = ref.error
        S.fail("octets pulled violate the wire grammar / queueing discipline", dict(inp, at_wire_octet=k), {"what": what, "wire_len": len(wire), "around": _c.hexs(wire[max(0, k - 8):k + 8])},
               "frames 7E body 7E; no unescaped 7E / 00 in a body; body decodes to dlci . 03 . payload; lowest DLCI first, FIFO per DLCI")
        return
    ref.cur = ref.in_frame
    # deliveries: messages shorter than the buffer must arrive, in wire order; an over-long frame costs itself and at most the next frame
    must, optional = [], []
    skip_next = False
    done_frames = ref.frames if not ref.cur else ref.frames[:-1]       # a frame still in transmission at the end is not complete
    for (d, p) in done_frames:
        if d in unreg and len(p) < rx:
            # nobody registered for this DLCI: the frame is dropped and costs nothing (if it was the frame following an over-long one, that
            # one frame is lost now)
            skip_next = False
            continue
        if len(p) > rx:
            skip_next = True
            continue
        if len(p) == rx:
            optional.append((d, p))
            skip_next = True            # if it was discarded at the last octet, the receiver may be one flag ahead
            continue
        if skip_next:
            optional.append((d, p))
            skip_next = False
            continue
        must.append((d, p))
    got = list(obs["deliveries"])
    it = iter(got)
    missing = [m for m in must if not any(x == m for x in it)]
    if missing:
        S.fail("message not delivered intact / in order", dict(inp, message=short(missing[0])),
               {"deliveries": [short(x) for x in got[:6]], "count": len(got)}, {"deliveries_in_order": [short(x) for x in must[:6]], "count": len(must)})
        return
    extra = list(got)
    for m in must:
        extra.remove(m)
    allowed_garbage = sum(1 for (d, p) in done_frames if len(p) >= rx)       # the frame after an over-long one may arrive misparsed
    for x in list(extra):
        if x in optional:
            optional.remove(x)
            extra.remove(x)
    if any(len(p) > rx for (d, p) in ref.frames for x in extra if x == (d, p)):
        S.fail("over-long frame delivered", inp, [short(x) for x in extra[:3]], "discarded")
    elif len(extra) > allowed_garbage:
        S.fail("delivery that was never sent (duplicate or corrupted)", inp, [short(x) for x in extra[:3]], {"deliveries": [short(x) for x in must[:6]]})


def good_frames(k0=0):
    """five good frames on different DLCIs, each pumped through on its own"""
    out = []
    for i, (d, p) in enumerate([(6, [0x70, 0x72]), (7, [0x7E, 0, 0x7D]), (3, []), (90, [0x11, 0x13, 0xFF]), (0, [0x5E, 0x5D, 0x20, k0 & 255])]):
        out += [("send", d, p), ("pump",)]
    return out


def fixed(rx):
    sp = [0x7E, 0x7D, 0x00, 0x5E, 0x5D, 0x20, 0x03, 0xFF, 0x7E, 0x7E, 0x7D, 0x00]
    sc = []
    # frames for DLCIs nobody registered (unregistered below _SC_DLCI_MAX; at and above it, where no handler can exist - those reach the
    # receiver as raw octets, sercomm_sendmsg cannot queue them), each followed by five good frames: a frame nobody listens to costs nothing
    for d in (17, 99, 126, 1):
        for p in ([], [1, 2, 3], [0x7E, 0x00, 0x7D] * 5):
            sc.append([("unreg", [d]), ("send", d, p), ("pump",)] + good_frames(d))
    sc.append([("unreg", [17, 99]), ("send", 17, [1]), ("send", 99, [2]), ("send", 5, [3]), ("pump",)] + good_frames(1))
    for d in (129, 130, 200, 254, 255):
        for p in ([], [9, 8, 7], [0x41] * (rx - 1)):
            sc.append([("noise", W.frame(d, p))] + good_frames(d) + [("noise", W.frame(d, p) + W.frame(d, p))] + good_frames(d + 1))
    # an over-long frame followed by five good frames, with and without a handler on the DLCI the misparsed following frame lands on (7E)
    for un in ([], [0x7E]):
        for n_over in (rx + 1, rx + 7, 2 * rx):
            sc.append([("unreg", un), ("send", 4, [0x41 + (i % 7) for i in range(n_over)]), ("pump",)] + good_frames(n_over))
    for base in range(0, 128, 16):
        sc.append([("send", d, sp[: 1 + d % 11]) for d in range(base, base + 16)] + [("pump",)])
    sc.append([("send", 5, [b]) for b in range(256)] + [("pump",)])
    sc.append([("send", 9, [b, 0x41, 0x42, b]) for b in range(256)] + [("pump",)])
    for n_ in (0, 1, 2, rx - 2, rx - 1):
        sc.append([("send", 4, [0x41 + i % 20 for i in range(n_)]), ("send", 0x7D, [0x7E] * n_), ("send", 0, [0x00, 0x7D] * (n_ // 2)), ("pump",), ("send", 6, [1, 2, 3]), ("pump",)])
    sc.append([("send", 10, [1]), ("send", 5, [2]), ("send", 10, [3]), ("send", 0, [4]), ("send", 127, [5]), ("send", 5, [6]), ("send", 0x7E, [7]), ("send", 0x7D, [8]),
               ("send", 0, [9]), ("send", 126, [10]), ("send", 5, [11]), ("send", 1, [12]), ("pump",)])
    for k in (1, 2, 3, 4, 5, 7, 11):
        sc.append([("send", 9, [0x7E, 1, 2, 3, 0x7D, 5, 6, 0]), ("pull", k), ("send", 3, [0xAA]), ("send", 9, [0xBB]), ("pull", 3), ("send", 0, [0xCC]), ("pump",)])
    sc.append([("send", 5, [1, 2]), ("pump",), ("noise", [b for b in range(256) if b != 0x7E]), ("send", 6, [3, 4]), ("pump",), ("noise", [0, 0x7D, 0x7D, 0x20]), ("send", 0, [5]), ("pump",)])
    for n_over in (rx + 1, rx + 2, rx + 40, 3 * rx):
        for at in (rx - 1, rx, rx + 1 if rx + 1 < n_over else rx):
            for spc in (0x41, 0x7E, 0x7D, 0x00):
                p = [0x41 + (i % 7) for i in range(n_over)]
                p[min(at, n_over - 1)] = spc
                for follow in ((5, [1, 2, 3]), (0x7D, [0x7E] * (rx - 1)), (0, []), (4, [9] * (rx - 1))):
                    sc.append([("send", 4, p), ("pump",), ("send",) + follow, ("pump",), ("send", 6, [0x70, 0x72]), ("pump",), ("send", 7, [0x7E, 0, 0x7D]), ("pump",)])
    for fill in (0x41, 0x7E):
        sc.append([("send", 4, [fill] * rx), ("pump",), ("send", 5, [1]), ("pump",), ("send", 6, [2]), ("pump",), ("send", 7, [3]), ("pump",)])
    return sc


def random_scenario(rnd, rx):
    special = [0x7E, 0x7D, 0x00, 0x5E, 0x5D, 0x20, 0x03, 0xFF]
    ops = []
    after_overlong = 0
    for _ in range(rnd.randrange(1, 5)):
        for _ in range(rnd.randrange(1, 7)):
            ln = rnd.choice([0, 1, 2, 3, 8, 31, rnd.randrange(rx), rx - 1, rx - 2])
            d = rnd.choice([0, 0x7D, 0x7E]) if rnd.random() < 0.25 else rnd.randrange(128)
            ops.append(("send", d, [rnd.choice(special) if rnd.random() < 0.5 else rnd.randrange(256) for _ in range(ln)]))
            if rnd.random() < 0.3:
                ops.append(("pull", rnd.randrange(1, 40)))
        ops.append(("pump",))
        if rnd.random() < 0.3:
            ops.append(("noise", [rnd.choice([b for b in range(256) if b != 0x7E]) for _ in range(rnd.randrange(1, 30))]))
        if rnd.random() < 0.25:
            n_over = rnd.choice([rx + 1, rx + 2, rx + rnd.randrange(1, 200), 2 * rx + 5])
            ops += [("send", rnd.randrange(128), [rnd.choice(special) if rnd.random() < 0.4 else rnd.randrange(256) for _ in range(n_over)]), ("pump",)]
    # finish with plain frames so that every scenario ends in sync
    ops += [("send", 3, [1, 2, 3]), ("pump",), ("send", 2, [4, 5]), ("pump",), ("send", 1, [6]), ("pump",), ("send", 8, [7, 0x7E]), ("pump",)]
    if rnd.random() < 0.4:
        # some DLCIs without a handler (never the ones of the closing frames); 7E is where a frame misparsed after an over-long one lands
        ops.insert(0, ("unreg", sorted(set([0x7E] * (rnd.random() < 0.6) + [rnd.choice([0, 0x7D, 17, 99, 120]) for _ in range(rnd.randrange(0, 3))]))))
    if rnd.random() < 0.3:
        k = rnd.randrange(len(ops))
        if all(op[0] != "pull" for op in ops[:k][-1:]) and (k == 0 or ops[k - 1][0] == "pump"):
            ops.insert(k, ("noise", W.frame(rnd.choice([129, 200, 255]), [rnd.randrange(256) for _ in range(rnd.randrange(0, 20))])))
    return ops


def run(budget_s=20.0, seed=0):
    S = _c.Session(budget_s)
    src = _MAIN % {"sercomm_c": frontend.repo(SERCOMM)}
    hs = {}
    try:
        for mode in ("host", "fw"):
            h = R.Harness(src, flags(mode))
            h.__enter__()
            hs[mode] = h
            if h.build is not None:
                raise _c.OracleCrash("native harness (%s build) does not compile for the current code shape: %s" % (mode, h.build[-900:]))
        for mode in ("fw", "host"):
            for ops in fixed(RX[mode]):
                if len(S.failures) >= 5:
                    break
                judge(S, mode, ops, hs[mode])
        rnd = random.Random(seed)
        while S.more():
            mode = "fw" if rnd.random() < 0.6 else "host"
            judge(S, mode, random_scenario(rnd, RX[mode]), hs[mode])
    finally:
        for h in hs.values():
            h.__exit__(None, None, None)
    return S.result()

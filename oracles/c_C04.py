"""C04 (C half) - bounded native oracle: trxcon (src/host/trxcon/src/trx_if.c) reads and writes TRXD version-0 datagrams per the protocol layout.

Statement-level reference (the TRXD PDU layout, written here; not taken from the code or from the contract):
  burst towards L1 (TRX -> trxcon), version 0:   octet 0 = version nibble (0) << 4 | timeslot (3 bits);  octets 1..4 frame number, big-endian;
      octet 5 = RSSI negated (-dBm);  octets 6..7 = ToA256, big-endian two's complement;  then one octet per soft bit, value u in 0..254 meaning
      sbit 127 - u (u = 0: certain "0" = +127, u = 254: certain "1" = -127); the sbits handed to L1 lie in -127..127 (an out-of-layout 255 must
      not leave that range: it is clamped to -127, as in the toolkit); 148 soft bits (GMSK) or 444 (8-PSK), optionally followed by the two legacy
      padding octets.
  burst from trxcon (L1 -> TRX), version 0:      octet 0 = timeslot;  octets 1..4 frame number big-endian;  octet 5 = attenuation;  then one octet
      per hard bit (0/1).
Observed: the trxcon_phyif_burst_ind handed to the scheduler by trx_data_rx_cb() (fn, tn, rssi, toa256, burst_len, soft bits), the octets
passed to send() by trx_if_handle_phyif_burst_req() and the two return values.  Datagrams outside the layout are not judged for acceptance;
but whatever the parser accepts must be interpreted per the layout, and nothing may trip ASan/UBSan.
"""
import random

from . import _c, _c_trx_if as T

HYPER = T.HYPER
VALID_PARTS = (148, 150, 444, 446)         # soft-bit octets (+2 legacy padding octets)

BOUND = ("C half (trx_data_rx_cb, trx_if_handle_phyif_burst_req cut verbatim out of trx_if.c; ASan+UBSan). Fixed part: about 700 hand-picked TRXD v0 "
         "datagrams: all four valid sizes (8+148, +150, +444, +446), every timeslot, frame numbers 0 / 1 / 2^k / hyperframe-1, RSSI octets 0..255, ToA256 "
         "over the int16 corner values, every soft-bit octet value 0..255 at the first, middle and last position, plus truncated / over-long / wrong-version / "
         "out-of-range-FN / empty-burst datagrams (judged only when accepted); burst requests for all timeslots, frame-number corners, attenuations 0..255, "
         "burst lengths 0, 1, 148, 444 with all-0 / all-1 / alternating bits. Budgeted part: seeded random valid datagrams (all fields uniform, soft bits uniform "
         "over 0..255), random byte strings of random length 0..600 and bit-flipped valid datagrams, random burst requests.")


def s8(x):
    return x - 256 if x >= 128 else x


def ref_rx(d):
    """layout decoding of a version-0 Rx datagram -> dict (valid: must be accepted) ; for other datagrams the fields an accepted one must show"""
    n = len(d)
    if n < 8:
        return None
    part = n - 8
    bl = 444 if part >= 444 else 148 if part >= 148 else part
    fn = (d[1] << 24) | (d[2] << 16) | (d[3] << 8) | d[4]
    rssi = -d[5] if d[5] <= 127 else None       # RSSI octet = -dBm; the indication's field is an int8: magnitudes above 127 dB are not representable (not judged)
    toa = (d[6] << 8) | d[7]
    toa = toa - 65536 if toa >= 32768 else toa
    valid = (d[0] >> 4) == 0 and (d[0] & 0x08) == 0 and part in VALID_PARTS and fn < HYPER
    return {"valid": valid, "fn": fn, "tn": d[0] & 7, "rssi": rssi, "toa256": toa, "bits": [max(127 - u, -127) for u in d[8:8 + bl]]}


def mk_rx(tn, fn, rssi_octet, toa_u16, soft, pad=False):
    return [tn & 7, (fn >> 24) & 255, (fn >> 16) & 255, (fn >> 8) & 255, fn & 255, rssi_octet & 255, (toa_u16 >> 8) & 255, toa_u16 & 255] + list(soft) + ([0, 0] if pad else [])


def fixed_rx():
    out = []
    base = [127] * 148
    for pad in (False, True):
        for nb in (148, 444):
            soft = [(7 * i) % 255 for i in range(nb)]
            for tn in range(8):
                out.append(mk_rx(tn, 1000 + tn, 60, 0, soft, pad))
            for fn in [0, 1, 255, 256, 65535, 65536, (1 << 21) - 1, 1 << 21, HYPER - 1] + [1 << k for k in range(1, 21)]:
                out.append(mk_rx(1, fn, 60, 0, soft, pad))
    for r in range(256):
        out.append(mk_rx(2, 12345, r, 0, base))
    for toa in (0, 1, 255, 256, 0x7fff, 0x8000, 0x8001, 0xff00, 0xffff, 0x1234, 0xedcb):
        out.append(mk_rx(3, 777, 40, toa, base))
    for u in range(256):
        for pos in (0, 74, 147):
            soft = list(base)
            soft[pos] = u
            out.append(mk_rx(4, 4242, 50, 0xfff0, soft))
    soft = [255 - (i % 256) for i in range(444)]
    out.append(mk_rx(5, 99, 70, 5, soft))
    # outside the layout: judged only if accepted
    out += [[], [0], [0] * 7, [0] * 8, mk_rx(0, 5, 1, 1, [1] * 147), mk_rx(0, 5, 1, 1, [1] * 149), mk_rx(0, 5, 1, 1, [1] * 443), mk_rx(0, 5, 1, 1, [1] * 447),
            mk_rx(0, 5, 1, 1, [1] * 600), [0x10] + mk_rx(0, 5, 1, 1, base)[1:], [0xf7] + mk_rx(0, 5, 1, 1, base)[1:], mk_rx(0, HYPER, 1, 1, base), mk_rx(0, 0xffffffff, 1, 1, base),
            [0x08] + mk_rx(0, 5, 1, 1, base)[1:]]
    return out


def fixed_tx():
    out = []
    for tn in range(8):
        out.append((tn, 100 + tn, 3, [0, 1] * 74))
    for fn in (0, 1, 255, 256, 65535, 65536, HYPER - 1, 1 << 20):
        out.append((1, fn, 0, [1] * 148))
    for pwr in range(256):
        out.append((2, 51, pwr, [0] * 148))
    for bl in (0, 1, 148, 444):
        for pat in (0, 1, 2):
            out.append((3, 26, 10, [(i % 2) if pat == 2 else pat for i in range(bl)]))
    return out


def run(budget_s=20.0, seed=0):
    S = _c.Session(budget_s)
    with T.native(ctrl=False, data=True) as n:

        def crash(what, inp, abort):
            S.fail(what + " (sanitizer / crash)", inp, abort["sanitizer"] or "exit status %s %s" % (abort["rc"], abort["stderr"][-200:]), "returns normally")

        def check_rx(dgrams):
            lines = ["rx %d %s" % (k % 64, _c.hexs(d)) for k, d in enumerate(dgrams)]
            outs, abort = n.batch(lines)
            for d, o in zip(dgrams, outs):
                S.cases += 1
                got = _c.kv(o)
                ref = ref_rx(d)
                inp = {"dgram_len": len(d), "dgram_hex": _c.hexs(d)[:1300]}
                if ref is None or not ref["valid"]:
                    if got.get("nind", 0) == 0:
                        continue                   # not accepted: outside the quantifier, nothing to judge
                    if ref is None:
                        S.fail("burst indication for a datagram shorter than the header", inp, got, "no indication")
                        continue
                    if ref["fn"] >= HYPER or (d[0] >> 4) != 0:
                        # accepted = interpreted per the version-0 layout: then the header must be a version-0 header with a frame number
                        S.fail("accepted datagram is not a version-0 header with a frame number below the hyperframe", inp,
                               {"version": d[0] >> 4, "fn": ref["fn"], "accepted": True}, {"version": 0, "fn": "< %d" % HYPER})
                        continue
                elif got.get("ret") != 0 or got.get("nind") != 1:
                    S.fail("valid TRXD v0 burst not accepted", inp, {k: got.get(k) for k in ("ret", "nind")}, {"ret": 0, "nind": 1})
                    continue
                bits = [s8(b) for b in _c.unhex(got.get("bits", "-"))]
                obs = {"fn": got.get("fn"), "tn": got.get("tn"), "rssi": got.get("rssi"), "toa256": got.get("toa256"), "burst_len": got.get("bl")}
                exp = {"fn": ref["fn"], "tn": ref["tn"], "rssi": ref["rssi"] if ref["rssi"] is not None else obs["rssi"], "toa256": ref["toa256"], "burst_len": len(ref["bits"])}
                if obs != exp:
                    S.fail("burst indication fields differ from the layout", inp, obs, exp)
                elif bits != ref["bits"]:
                    k = next(i for i in range(max(len(bits), len(ref["bits"]))) if i >= len(bits) or i >= len(ref["bits"]) or bits[i] != ref["bits"][i])
                    S.fail("soft bits differ from the layout", dict(inp, position=k, soft_bit_octet=d[8 + k] if 8 + k < len(d) else None),
                           {"sbit": bits[k] if k < len(bits) else None}, {"sbit": ref["bits"][k] if k < len(ref["bits"]) else None, "range": "-127..127"})
            if abort:
                d = dgrams[abort["case"]]
                S.cases += 1
                crash("trx_data_rx_cb", {"dgram_len": len(d), "dgram_hex": _c.hexs(d)[:1300]}, abort)

        def check_tx(reqs):
            lines = ["tx %d %d %d %s" % (tn, fn, pwr, _c.hexs(bits)) for (tn, fn, pwr, bits) in reqs]
            outs, abort = n.batch(lines)
            for (tn, fn, pwr, bits), o in zip(reqs, outs):
                S.cases += 1
                got = _c.kv(o)
                exp = [tn, (fn >> 24) & 255, (fn >> 16) & 255, (fn >> 8) & 255, fn & 255, pwr] + list(bits)
                sent = _c.unhex(str(got.get("sent", "-")))
                inp = {"tn": tn, "fn": fn, "pwr": pwr, "burst_len": len(bits), "burst_head": bits[:16]}
                if got.get("ret") != 0 or got.get("sent_n") != 1:
                    S.fail("burst request not sent", inp, {k: got.get(k) for k in ("ret", "sent_n")}, {"ret": 0, "sent_n": 1})
                elif sent != exp:
                    k = next(i for i in range(max(len(sent), len(exp))) if i >= len(sent) or i >= len(exp) or sent[i] != exp[i])
                    S.fail("octets passed to send() differ from the layout", dict(inp, first_difference_at_octet=k), {"len": len(sent), "octets": sent[max(0, k - 3):k + 4]},
                           {"len": len(exp), "octets": exp[max(0, k - 3):k + 4]})
            if abort:
                tn, fn, pwr, bits = reqs[abort["case"]]
                S.cases += 1
                crash("trx_if_handle_phyif_burst_req", {"tn": tn, "fn": fn, "pwr": pwr, "burst_len": len(bits)}, abort)

        check_rx(fixed_rx())
        check_tx(fixed_tx())
        rnd = random.Random(seed)
        while S.more():
            dg = []
            for _ in range(300):
                r = rnd.random()
                nb = rnd.choice((148, 444))
                v = mk_rx(rnd.randrange(8), rnd.randrange(HYPER), rnd.randrange(256), rnd.randrange(65536), [rnd.randrange(256) for _ in range(nb)], rnd.random() < 0.5)
                if r < 0.6:
                    dg.append(v)
                elif r < 0.8:
                    for _ in range(rnd.randrange(1, 4)):
                        p = rnd.randrange(len(v))
                        v[p] ^= 1 << rnd.randrange(8)
                    dg.append(v[:rnd.choice([len(v), len(v), rnd.randrange(len(v) + 1)])])
                else:
                    dg.append([rnd.randrange(256) for _ in range(rnd.choice([rnd.randrange(0, 600), 156, 158, 452, 454]))])
            check_rx(dg)
            check_tx([(rnd.randrange(8), rnd.randrange(HYPER), rnd.randrange(256), [rnd.randrange(2) for _ in range(rnd.choice((148, 148, 444, rnd.randrange(0, 500))))])
                      for _ in range(100)])
    return S.result()

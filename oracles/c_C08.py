"""C08 - bounded native oracle: firmware TDMA scheduler (src/target/firmware/layer1/tdma_sched.c).

History-driven differential test.  A history is a script of operations
    s N cb p1 p2 p3 prio        tdma_schedule(N, cb<cb>, p1, p2, p3, prio)
    S N p3 n {cb p1 p2 p3 prio}*n   tdma_schedule_set(N, set, p3); cb 0 = SCHED_END_FRAME, cb 9 = SCHED_END_SET (always the n-th entry)
    x                           tdma_sched_execute()
    a                           tdma_sched_advance()
    z                           tdma_sched_reset()
run from the zero state (the firmware's BSS) on the real file (#included whole, eight logging stub callbacks that return 0) and on the
IDEAL reference below, written from the statement: a dict  absolute frame number -> items pending for that frame.
    schedule N    : appended to frame now+N; refused (negative return) iff that frame already holds CAP items
    schedule_set  : items before the k-th separator go to frame now+N+k, with the p3 of the call; refused iff some frame would exceed CAP
    execute       : runs exactly the items of frame `now`, each once, with its own (cb, p1, p2, p3), in ascending priority order
                    (any order among equal priorities); afterwards the frame is empty
    advance       : now += 1          reset : every later frame is emptied
Observed: the callbacks invoked (which, p1, p2, p3) per tdma_sched_execute() and the sign of the return values of tdma_schedule*().
Not judged (left open by the statement): order among equal priorities; the value returned by tdma_sched_execute and the non-negative
value returned on success; which items of a refused set were placed (they become `optional` in their frames: may run there, once, in
priority order, nowhere else) and the return value of later calls into such a frame while the doubt lasts; items pending in the CURRENT
frame at a reset (optional as well).  The generator keeps to the protocol `execute before advance` (an advance never leaves pending items
behind), to offsets 0..24 and to sets whose frames stay below the depth of 25.
The ring position is reached through the public interface only (k frames of execute; advance), no scheduler field is read or written.
"""
import random, time

from engine.cvc import frontend, replay as R
from . import _c

TDMA = "src/target/firmware/layer1/tdma_sched.c"
DEPTH = 25            # the statement's scheduler depth: offsets 0..24 are quantified
CAP_ANCHOR = 8        # anchors: "25 buckets x 8 items"; the harness reports TDMASCHED_NUM_CB of the current header

BOUND = ("C half (tdma_sched.c #included whole, ASan+UBSan build, logging stub callbacks), histories of schedule / schedule_set / execute / advance / "
         "reset compared with an ideal frame->items reference on callbacks invoked and on the sign of tdma_schedule*() return values. Fixed part, "
         "about 4 300 histories: one item (and one with two decoys in the neighbouring frames) at every offset 0..24 from 34 ring positions "
         "(0..26, 30, 49, 50, 51, 74, 75, 99 frames after start, i.e. up to three wraps of the ring index), each followed by 53 frames; all 25 offsets "
         "at once in 3 scheduling orders from 6 positions; priority orders in one frame: all permutations of 2..5 distinct priorities, 150 sampled "
         "permutations each of 6, 7, 8, the same over int16 extremes (-32768, -32767, -1, 0, 1, 32766, 32767, 100), every two-valued pattern of "
         "2..8 items over {0,1} and over {-32768,32767}, ascending / descending / all-equal runs; capacity: CAP+2 items into every offset from 3 "
         "positions (CAP accepted, 2 refused, neighbours untouched, the executed frame takes CAP new items 24 frames ahead), the whole ring "
         "filled to CAP and 25 refused extras, sets of CAP and CAP+1 items in one frame, sets overflowing in their first / second / wrapped frame "
         "over pre-existing items; sets of 1, 2, 3 and 25-N frames at every offset N from 2 positions (spanning the ring wrap, empty frames, "
         "trailing separator, empty set, p3 of the call replacing the entries' p3, merge with pre-scheduled items); reset after / before execute, "
         "twice, on an empty ring, followed by rescheduling; execute two and three times without advance, scheduling offset 0 in between; dense "
         "runs of 130 frames. Budgeted part: seeded random histories (start position 0..79, 10..70 frames of up to 12 operations, styles sparse / "
         "dense / hot frame / sets / mixed, priorities small, two-valued, int16 extremes or full int16, resets with probability 0.02 per "
         "operation, then 26 draining frames), about 250 histories per second. A failing history is reduced (operations and whole frames removed "
         "while it still fails) before it is reported.")

_MAIN = r"""
#include <stdlib.h>
#include <stdarg.h>
struct l1s_state l1s;
static char *orc_ob; static size_t orc_on, orc_oc;
static void orc_emit(const char *fmt, ...)
{
	va_list ap; int k;
	if (orc_oc - orc_on < 96) { orc_oc = orc_oc ? 2 * orc_oc : 8192; orc_ob = realloc(orc_ob, orc_oc); if (!orc_ob) exit(9); }
	va_start(ap, fmt); k = vsnprintf(orc_ob + orc_on, orc_oc - orc_on, fmt, ap); va_end(ap);
	if (k > 0) orc_on += k;
}
#define ORC_CB(n) static int orc_cb##n(uint8_t a, uint8_t b, uint16_t c) { orc_emit(" c%d,%u,%u,%u", n, (unsigned)a, (unsigned)b, (unsigned)c); return 0; }
ORC_CB(1) ORC_CB(2) ORC_CB(3) ORC_CB(4) ORC_CB(5) ORC_CB(6) ORC_CB(7) ORC_CB(8)
static tdma_sched_cb *orc_cbs[] = { 0, orc_cb1, orc_cb2, orc_cb3, orc_cb4, orc_cb5, orc_cb6, orc_cb7, orc_cb8 };
static char *orc_cur;
static long orc_num(void) { char *e; long v = strtol(orc_cur, &e, 10); orc_cur = e; return v; }
static int orc_op(void) { while (*orc_cur == ' ' || *orc_cur == '\t') orc_cur++; if (!*orc_cur || *orc_cur == '\n') return 0; return *orc_cur++; }
int main(void)
{
	char *line = NULL; size_t cap = 0;
	while (getline(&line, &cap, stdin) > 0) {
		int op;
		memset(&l1s, 0, sizeof(l1s));
		orc_on = 0; orc_emit("%s", "");
		orc_cur = line;
		while ((op = orc_op())) {
			if (op == 's') {
				long n = orc_num(), c = orc_num(), p1 = orc_num(), p2 = orc_num(), p3 = orc_num(), pr = orc_num();
				orc_emit(" r%d", tdma_schedule(n, orc_cbs[c], p1, p2, p3, pr));
			} else if (op == 'S') {
				long n = orc_num(), p3 = orc_num(), cnt = orc_num(), k;
				struct tdma_sched_item *set = malloc((cnt > 0 ? cnt : 1) * sizeof(*set));
				memset(set, 0, (cnt > 0 ? cnt : 1) * sizeof(*set));
				for (k = 0; k < cnt; k++) {
					long c = orc_num(), q1 = orc_num(), q2 = orc_num(), q3 = orc_num(), pr = orc_num();
					set[k].cb = c == 9 ? &tdma_end_set : orc_cbs[c]; set[k].p1 = q1; set[k].p2 = q2; set[k].p3 = q3; set[k].prio = pr;
				}
				orc_emit(" r%d", tdma_schedule_set(n, set, p3));
				free(set);
			} else if (op == 'x') orc_emit(" e%d", tdma_sched_execute());
			else if (op == 'a') tdma_sched_advance();
			else if (op == 'z') tdma_sched_reset();
			else if (op == 'q') {
#ifdef TDMASCHED_NUM_CB
				orc_emit(" cap=%d", (int)TDMASCHED_NUM_CB);
#else
				orc_emit(" cap=-1");
#endif
			} else { orc_emit(" ?"); break; }
		}
		printf("\n=%s\n", orc_ob);
		fflush(stdout);
	}
	return 0;
}
"""


def source():
    return '#include "%s"\n%s' % (frontend.repo(TDMA), _MAIN)


def flags():
    return R.host_flags() + ["-idirafter", frontend.repo("src/target/firmware/include"), "-idirafter", frontend.l1ctl_include()]


# ------------------------------------------------------------------ the ideal scheduler of the statement

class Invalid(Exception):
    """the history leaves the protocol (advance over pending items): not judged"""


class Ref:
    def __init__(self, cap):
        self.cap, self.now, self.fr = cap, 0, {}

    def frame(self, f):
        return self.fr.setdefault(f, ([], []))         # (definite items, optional items); item = (cb, p1, p2, p3, prio)

    def tainted(self, n):
        return bool(self.fr.get(self.now + n, ((), ()))[1])

    def count(self, n):
        return len(self.fr.get(self.now + n, ((), ()))[0])

    def pending_now(self):
        d, o = self.fr.get(self.now, ((), ()))
        return bool(d or o)

    def sched(self, n, item, ret=None):
        """-> 'ok' | 'err' | 'any' (what the statement demands of the return value); `ret` (observed) only decides the open cases"""
        d, o = self.frame(self.now + n)
        if len(d) >= self.cap:
            return "err"
        if o:                                           # a refused set may or may not occupy room here
            if len(d) + len(o) < self.cap:
                d.append(item)
                return "ok"
            (o if ret is None or ret < 0 else d).append(item)
            return "any"
        d.append(item)
        return "ok"

    def sset(self, n, p3, entries, ret=None):
        frames = [[]]
        for (cb, p1, p2, _own, prio) in entries:
            if cb == 0:
                frames.append([])
            else:
                frames[-1].append((cb, p1, p2, p3, prio))
        tgt = [(self.frame(self.now + n + k), its) for k, its in enumerate(frames) if its]
        if any(len(d) + len(its) > self.cap for (d, o), its in tgt):
            exp = "err"
        elif any(o and len(d) + len(o) + len(its) > self.cap for (d, o), its in tgt):
            exp = "any"
        else:
            exp = "ok"
        placed = exp == "ok" or (exp == "any" and ret is not None and ret >= 0)
        for (d, o), its in tgt:
            (d if placed else o).extend(its)
        return exp

    def execute(self):
        return self.fr.pop(self.now, ([], []))

    def advance(self):
        if self.pending_now():
            raise Invalid()
        self.fr.pop(self.now, None)
        self.now += 1

    def reset(self):
        for f in list(self.fr):
            if f > self.now:
                del self.fr[f]
        d, o = self.fr.get(self.now, ([], []))
        if d:
            o.extend(d)
            del d[:]


def line_of(ops):
    out = []
    for op in ops:
        if op[0] == "s":
            out.append("s %d %d %d %d %d %d" % tuple(op[1:]))
        elif op[0] == "S":
            ents = list(op[3]) + [(9, 0, 0, 0, 0)]
            out.append("S %d %d %d " % (op[1], op[2], len(ents)) + " ".join("%d %d %d %d %d" % tuple(e) for e in ents))
        else:
            out.append(op[0])
    return " ".join(out)


def judge(ops, toks, cap):
    """-> None (agrees with the statement) or a dict(what, step, frame, observed, expected)"""
    ref = Ref(cap)
    pos = 0

    def bad(what, step, observed, expected):
        return {"what": what, "step": step, "frame": ref.now, "observed": observed, "expected": expected}
    try:
        for step, op in enumerate(ops):
            k = op[0]
            if k == "a":
                ref.advance()
            elif k == "z":
                ref.reset()
            elif k in ("s", "S"):
                if pos >= len(toks) or toks[pos][:1] != "r":
                    return bad("harness protocol", step, toks[pos:pos + 1], "a return value")
                ret = int(toks[pos][1:])
                pos += 1
                if k == "s":
                    fill = ref.count(op[1])
                    exp = ref.sched(op[1], tuple(op[2:7]), ret)
                    name = "tdma_schedule"
                else:
                    fill = [ref.count(op[1] + j) for j in range(1 + sum(1 for e in op[3] if e[0] == 0))]
                    exp = ref.sset(op[1], op[2], op[3], ret)
                    name = "tdma_schedule_set"
                if exp == "ok" and ret < 0:
                    return bad(name + " refuses although every frame has room", step, {"ret": ret, "items pending in the target frame(s)": fill},
                               "a non-negative return (capacity %d)" % cap)
                if exp == "err" and ret >= 0:
                    return bad(name + " does not report the capacity overflow", step, {"ret": ret, "items pending in the target frame(s)": fill},
                               "a negative return (capacity %d)" % cap)
            elif k == "x":
                calls = []
                while pos < len(toks) and toks[pos][:1] == "c":
                    calls.append(tuple(int(v) for v in toks[pos][1:].split(",")))
                    pos += 1
                if pos >= len(toks) or toks[pos][:1] != "e":
                    return bad("harness protocol", step, toks[pos:pos + 1], "the end of tdma_sched_execute")
                pos += 1
                d, o = ref.execute()
                pool = {it[:4]: it for it in d + o}
                want = "exactly the items %r, each once%s" % ([list(it[:4]) for it in d], (", possibly also %r" % [list(it[:4]) for it in o]) if o else "")
                seen, prios = set(), []
                for c in calls:
                    if c not in pool or c in seen:
                        return bad("execute: a callback runs that is not pending for this frame" if c not in pool else "execute: an item runs twice", step,
                                   [list(x) for x in calls], want)
                    seen.add(c)
                    prios.append(pool[c][4])
                if any(it[:4] not in seen for it in d):
                    return bad("execute: an item scheduled for this frame does not run", step, [list(x) for x in calls], want)
                if any(prios[i] > prios[i + 1] for i in range(len(prios) - 1)):
                    return bad("execute: items of one frame not in ascending priority order", step,
                               {"calls": [list(x) for x in calls], "their priorities": prios}, "non-decreasing priorities")
            else:
                return bad("oracle", step, op, "a known operation")
    except Invalid:
        return None
    if pos != len(toks):
        return bad("harness protocol", len(ops), toks[pos:pos + 3], "no further output")
    return None


# ------------------------------------------------------------------ history builders

X, A, Z = ("x",), ("a",), ("z",)
LEGEND = "s N cb p1 p2 p3 prio | S N p3 n {cb p1 p2 p3 prio}: cb 0 = end of frame, 9 = end of set | x execute | a advance | z reset"


class Items:
    """items with a (cb, p1) pair that is unique within one history, so that a call identifies its item"""

    def __init__(self, rnd=None):
        self.u, self.rnd = 0, rnd
        self.off = rnd.randrange(256) if rnd else 5

    def new(self, prio, p3=None, p2=None):
        u = self.u
        self.u += 1
        assert u < 2048
        r = self.rnd
        if p2 is None:
            p2 = (r.choice((0, 255, r.randrange(256))) if r else (0, 255, 7 * u + 1)[u % 3] % 256)
        if p3 is None:
            p3 = (r.choice((0, 65535, r.randrange(65536))) if r else (0, 65535, 257 * u + 3)[(u // 3) % 3] % 65536)
        return (1 + u % 8, ((u // 8) * 73 + self.off) % 256, p2, p3, prio)


def idle(k):
    return [X, A] * k


def S(n, item):
    return ("s", n) + tuple(item)


def SET(n, p3, frames):
    """frames: list of lists of items; the entries carry a p3 of their own that must NOT be used"""
    ents = []
    for k, its in enumerate(frames):
        if k:
            ents.append((0, 0, 0, 0, 0))
        for it in its:
            ents.append((it[0], it[1], it[2], (it[3] + 12345) % 65536, it[4]))
    return ("S", n, p3, ents)


EXTREME = [-32768, -32767, -1, 0, 1, 32766, 32767, 100]
POSITIONS = list(range(0, 27)) + [30, 49, 50, 51, 74, 75, 99]


def perms(n, rnd, limit):
    import itertools
    if n <= 5:
        return list(itertools.permutations(range(n)))
    out = [tuple(range(n)), tuple(range(n - 1, -1, -1))]
    while len(out) < limit:
        p = list(range(n))
        rnd.shuffle(p)
        out.append(tuple(p))
    return out


def fixed_histories(cap):
    rnd = random.Random(8008)
    H = []
    tail = 2 * DEPTH + 3
    # A: one item at every offset from many ring positions; the same with decoys in the neighbouring frames
    for pos in POSITIONS:
        for n in range(DEPTH):
            it = Items()
            H.append(idle(pos) + [S(n, it.new(n - 12))] + idle(tail))
            ops = idle(pos) + [S((n + 1) % DEPTH, it.new(5)), S(n, it.new(-7)), S((n + DEPTH - 1) % DEPTH, it.new(0))]
            H.append(ops + idle(tail))
    # B: every offset at once
    for pos in (0, 1, 12, 24, 25, 61):
        for order in (list(range(DEPTH)), list(range(DEPTH - 1, -1, -1)), rnd.sample(range(DEPTH), DEPTH)):
            it = Items()
            H.append(idle(pos) + [S(n, it.new(rnd.randrange(-4, 5))) for n in order] + [S(n, it.new(rnd.randrange(-4, 5))) for n in order[::2]] + idle(tail))
    # C: priority orders within one frame
    idx = 0
    for n in range(2, cap + 1):
        pats = [[p for p in perm] for perm in perms(n, rnd, 150)]
        pats += [[EXTREME[p % len(EXTREME)] for p in perm] for perm in perms(n, rnd, 150)] if n <= len(EXTREME) else []
        if n <= 8:
            for m in range(1 << n):
                pats.append([(m >> b) & 1 for b in range(n)])
                pats.append([32767 if (m >> b) & 1 else -32768 for b in range(n)])
        pats += [[7] * n, list(range(-32768, -32768 + n)), list(range(32767, 32767 - n, -1)), [3, 1, 2][:n] + [2] * max(n - 3, 0)]
        for pr in pats:
            it = Items()
            off, pos = idx % DEPTH, (idx * 7) % 31
            idx += 1
            H.append(idle(pos) + [S(off, it.new(p)) for p in pr] + idle(off + 2))
    # D: capacity
    for pos in (0, 17, 24):
        for n in range(DEPTH):
            it = Items()
            ops = idle(pos) + [S((n + 1) % DEPTH, it.new(1))] + [S(n, it.new((k * 5) % 7 - 3)) for k in range(cap + 2)] + [S((n + DEPTH - 1) % DEPTH, it.new(2))]
            ops += idle(n + 1) + [S(DEPTH - 1, it.new(k % 3)) for k in range(cap)] + [S(DEPTH - 1, it.new(0))] + idle(tail)
            H.append(ops)
    for pos in (0, 13):
        it = Items()
        ops = idle(pos)
        for k in range(cap):
            ops += [S(n, it.new((n + 3 * k) % 5)) for n in range(DEPTH)]
        ops += [S(n, it.new(-9)) for n in range(DEPTH)]
        H.append(ops + idle(tail))
    for pos in (0, 21):
        for n in (0, 1, 3, 23, 24):
            it = Items()
            H.append(idle(pos) + [SET(n, 4711, [[it.new(k % 4) for k in range(cap)]]), S(n, it.new(0))] + idle(tail))
            H.append(idle(pos) + [SET(n, 4711, [[it.new(k % 4) for k in range(cap + 1)]])] + idle(tail))
            H.append(idle(pos) + [S(n, it.new(k)) for k in range(3)] + [SET(n, 9, [[it.new(-k) for k in range(cap - 3)]]), S(n, it.new(1))] + idle(tail))
            H.append(idle(pos) + [S(n, it.new(k)) for k in range(3)] + [SET(n, 9, [[it.new(-k) for k in range(cap - 2)]])] + idle(tail))
        for n in (0, 2, 5, 22, 23):                      # overflow in the second frame of a set (for pos 21 beyond the wrap of the ring index)
            it = Items()
            pre = [S(n + 1, it.new(k - 2)) for k in range(cap - 1)] + [S(n, it.new(4))]
            H.append(idle(pos) + pre + [SET(n, 77, [[it.new(0)], [it.new(1), it.new(-1)]])] + idle(tail))
            H.append(idle(pos) + pre + [SET(n, 77, [[it.new(0)], [it.new(1)]]), S(n + 1, it.new(3))] + idle(tail))
    # E: sets
    for pos in (0, 19):
        for n in range(DEPTH):
            for nf in sorted({1, 2, 3, DEPTH - n}):
                if n + nf > DEPTH:
                    continue
                it = Items()
                frames = [[it.new(rnd.randrange(-3, 4)) for _ in range(1 + (k + n) % 3)] for k in range(nf)]
                if nf > 2:
                    frames[1] = []
                pre = [S(n + k, it.new(rnd.randrange(-3, 4))) for k in range(nf) if k % 2 == 0]
                H.append(idle(pos) + pre + [SET(n, (n * 1000 + nf) % 65536, frames)] + idle(tail))
        for n in (0, 7, 23):
            it = Items()
            H.append(idle(pos) + [SET(n, 1, [[]]), SET(n, 2, [[it.new(0)], []]), SET(n, 65535, [[], [it.new(3), it.new(-3)]])] + idle(tail))
    # F: reset
    for pos in (0, 11, 24, 40):
        it = Items()
        fill = lambda: [S(n, it.new(n % 4)) for n in range(DEPTH)] + [SET(3, 5, [[it.new(0)], [it.new(1)], [it.new(2)]])]
        H.append(idle(pos) + fill() + idle(3) + [X, Z, A] + idle(tail) + fill() + idle(tail))          # after execute
        H.append(idle(pos) + fill() + idle(3) + [Z, X, A] + idle(tail) + fill() + idle(tail))          # before execute (current items open)
        H.append(idle(pos) + [Z] + fill() + [X, Z, Z, A] + fill() + idle(tail))                        # empty ring, twice, reschedule at once
        H.append(idle(pos) + fill() + [X, Z] + [S(n, it.new(-n)) for n in range(1, DEPTH)] + [A] + idle(tail))
    # G: execute more than once per frame
    for pos in (0, 24, 26):
        it = Items()
        H.append(idle(pos) + [S(0, it.new(p)) for p in (3, 1, 2)] + [S(1, it.new(0)), X, X, X, A] + idle(tail))
        H.append(idle(pos) + [S(0, it.new(1)), X, S(0, it.new(2)), S(0, it.new(-2)), S(0, it.new(0)), X, X, A] + idle(tail))
    # H: dense long runs over several wraps of the ring
    for pos in (0, 9):
        it = Items()
        ops = idle(pos)
        for f in range(130):
            ops += [S((f * 7) % DEPTH, it.new(f % 5 - 2)), S((f * 11 + 3) % DEPTH, it.new((f * 3) % 7)), S(0, it.new(-f % 3))]
            if f % 4 == 0:
                ops.append(SET((f * 5) % 20, f, [[it.new(1), it.new(0)], [], [it.new(-1)]]))
            ops += [X, A]
        H.append(ops + idle(tail))
    return H


def random_history(rnd, cap):
    ref = Ref(cap)
    it = Items(rnd)
    ops = []

    def emit(op):
        ops.append(op)
        k = op[0]
        if k == "s":
            ref.sched(op[1], tuple(op[2:7]))
        elif k == "S":
            ref.sset(op[1], op[2], op[3])
        elif k == "x":
            ref.execute()
        elif k == "a":
            ref.advance()
        else:
            ref.reset()
    style = rnd.choice(("sparse", "dense", "hot", "sets", "mixed"))
    pmode = rnd.choice(("small", "small", "tiny", "extreme", "full"))

    def prio():
        if pmode == "small":
            return rnd.randrange(-3, 4)
        if pmode == "tiny":
            return rnd.randrange(2)
        if pmode == "extreme":
            return rnd.choice(EXTREME)
        return rnd.randrange(-32768, 32768)
    for _ in range(rnd.choice((0, rnd.randrange(DEPTH), rnd.randrange(DEPTH, 80)))):
        emit(X)
        emit(A)
    hot = -1
    p_set = {"sparse": 0.1, "dense": 0.15, "hot": 0.1, "sets": 0.6, "mixed": 0.3}[style]
    for _f in range(rnd.randrange(10, 71)):
        nops = {"sparse": rnd.randrange(0, 3), "dense": rnd.randrange(2, 13), "hot": rnd.randrange(1, 8), "sets": rnd.randrange(0, 4),
                "mixed": rnd.randrange(0, 9)}[style]
        if it.u > 1900:
            nops = 0
        post = sum(1 for _ in range(nops) if rnd.random() < 0.25)
        for phase, cnt in (("pre", nops - post), ("post", post)):
            lo = 0 if phase == "pre" or rnd.random() < 0.1 else 1
            for _ in range(cnt):
                if it.u > 1900:
                    break
                r = rnd.random()
                if r < 0.02:
                    emit(Z)
                    continue
                if not 0 <= hot - ref.now < DEPTH:
                    hot = ref.now + rnd.randrange(DEPTH)
                if r < 0.02 + p_set:
                    for _try in range(4):
                        n = rnd.randrange(lo, DEPTH)
                        nf = DEPTH - n if rnd.random() < 0.1 else rnd.randrange(1, min(6, DEPTH - n) + 1)
                        if not any(ref.tainted(n + k) for k in range(nf)):
                            big = style == "hot" and rnd.random() < 0.3
                            frames = [[it.new(prio()) for _ in range(rnd.randrange(0, cap + 2) if big else rnd.randrange(0, 4))] for _ in range(nf)]
                            emit(SET(n, rnd.choice((0, 65535, rnd.randrange(65536))), frames))
                            break
                    continue
                for _try in range(4):
                    n = hot - ref.now if (style in ("hot", "mixed") and rnd.random() < 0.6 and hot - ref.now >= lo) else rnd.randrange(lo, DEPTH)
                    if not ref.tainted(n):
                        emit(S(n, it.new(prio())))
                        break
            if phase == "pre":
                emit(X)
                if rnd.random() < 0.1:
                    emit(X)
        if ref.pending_now():
            emit(X)
        emit(A)
    for _ in range(DEPTH + 1):
        emit(X)
        emit(A)
    return ops


# ------------------------------------------------------------------ run

def run(budget_s=20.0, seed=0):
    ses = _c.Session(budget_s)
    with _c.Native(source(), flags()) as n:
        outs, abort = n.batch(["q"])
        if abort or not outs:
            raise _c.OracleCrash("harness does not answer: %r" % (abort,))
        cap = _c.kv(outs[0]).get("cap", -1)
        if not isinstance(cap, int) or cap < 1:
            cap = CAP_ANCHOR

        def verdict(ops):
            o, ab = n.batch([line_of(ops)])
            if ab or not o:
                return None
            return judge(ops, o[0].split(), cap)

        def shrink(ops, f):
            """remove operations / whole frames while the history still fails (bounded effort)"""
            t_end = time.time() + 4.0
            ops = ops[:f["step"] + 1]
            while time.time() < t_end:
                units = [[i] for i, o in enumerate(ops[:-1]) if o[0] in ("s", "S", "z")]
                units += [[i, i + 1] for i in range(len(ops) - 2) if ops[i][0] == "x" and ops[i + 1][0] == "a"]
                if not units:
                    break
                without = lambda us: [o for i, o in enumerate(ops) if i not in {j for u in us for j in u}]
                cands = [without([u]) for u in units]
                o, ab = n.batch([line_of(c) for c in cands])
                if ab:
                    break
                good = [u for u, c, line in zip(units, cands, o) if judge(c, line.split(), cap)]
                # units overlap only as (x,a) pairs do not; take a non-overlapping subset
                taken, used = [], set()
                for u in good:
                    if not used & set(u):
                        taken.append(u)
                        used |= set(u)
                if not taken:
                    break
                while len(taken) > 1 and not verdict(without(taken)):
                    taken = taken[:len(taken) // 2]
                ops = without(taken)
            return ops

        def report(ops, f):
            ses.fail(f["what"], {"history": line_of(ops), "operation": f["step"], "frame": f["frame"], "capacity": cap, "legend": LEGEND},
                     f["observed"], f["expected"])

        def check(batch):
            lines = [line_of(ops) for ops in batch]
            o, ab = n.batch(lines)
            for ops, line, ans in zip(batch, lines, o):
                ses.cases += 1
                f = judge(ops, ans.split(), cap)
                if f and len(ses.failures) < 5:
                    small = ops[:f["step"] + 1]
                    if len(ses.failures) < 2:
                        cand = shrink(ops, f)
                        f2 = verdict(cand)
                        if f2:
                            small, f = cand, f2
                    report(small, f)
            if ab:
                ses.cases += 1
                ops = batch[ab["case"]]
                lo, hi = 0, len(ops)                    # smallest prefix that still aborts
                while hi - lo > 1 and ses.left() > -5:
                    mid = (lo + hi) // 2
                    if n.batch([line_of(ops[:mid])])[1]:
                        hi = mid
                    else:
                        lo = mid
                before = verdict(ops[:hi - 1])          # a statement-level deviation that precedes the abort is the better report
                if before and len(ses.failures) < 5:
                    report(ops[:before["step"] + 1], before)
                ses.fail("sanitizer / crash", {"history": line_of(ops[:hi]), "capacity": cap, "legend": LEGEND},
                         ab["sanitizer"] or "exit status %s: %s" % (ab["rc"], ab["stderr"][-300:]), "returns normally")
                rest = batch[ab["case"] + 1:]
                if rest and len(ses.failures) < 5:
                    check(rest)

        fixed = fixed_histories(cap)
        for i in range(0, len(fixed), 400):
            if len(ses.failures) >= 5:
                break
            check(fixed[i:i + 400])
        nfixed = ses.cases
        rnd = random.Random(seed)
        while ses.more():
            check([random_history(rnd, cap) for _ in range(100)])
    return ses.result(fixed_histories=nfixed, capacity=cap)

"""C13 - validation accepts exactly the protocol value ranges; nothing invalid is sent (bounded native oracle).

Observation points: validate() outcome, gen_msg(legacy) result or ValueError, datagrams handed to the (stubbed) socket by
DATAInterface.send_msg(msg, legacy).
Expectation (from the statement): valid(m) <=> known version (0/1), FN 0..2715647, TN 0..7, Tx: attenuation 0..255 and a burst of 148
or 444 bits; Rx: RSSI -120..-47, ToA256 int16, version 0: a burst of 148 or 444 soft bits, version 1: C/I -1280..1280 and either a NOPE
indication without burst or a Modulation member with TSC 0..7, TSC set 0..3 (GMSK) / 0..1 (others) and a burst of the modulation's length.
valid(m): validate() returns, gen_msg() returns octets, send_msg() emits exactly one datagram.  not valid(m): validate() and gen_msg()
raise ValueError, send_msg() returns without a datagram.
Not judged (outside the quantifier or left open by the statement): non-integer field values, ver=None, out-of-range values in
attributes the message's version does not carry (C/I, TSC, TSC set on version 0; TSC/TSC set/modulation of a NOPE indication),
nope_ind on version 0, the content of the datagram (C01/C04)."""
import time, random, logging
from array import array
from engine.pyvc.harness import toolkit

BOUND = ("fixed part: around 13 valid base messages (Tx v0/v1 with 148/444 bits, Rx v0 148/444, Rx v1 for each of the 6 modulations, Rx v1 NOPE) every single field "
         "is set to each value of its boundary list (None, both ends of the range, the neighbours inside and outside, far outside: FN 10 values, TN 10, "
         "attenuation 8, RSSI 11, ToA256 9, C/I 10, TSC 7, TSC set 7, modulation 6 members + None + 2 junk values, 21 burst lengths + None, version 0/1/2/3/15/16/-1, "
         "NOPE flag), plus all (modulation x TSC set -1..4 x NOPE) and (modulation x burst length x NOPE) combinations, each judged at validate(), "
         "gen_msg(legacy=False/True) and send_msg() (1527 judged messages); sampled part: until the budget is used, random combinations of all fields drawn "
         "from the boundary lists with a 65 % bias to valid values (about 5000 messages per second).")

HYPERFRAME = 2048 * 26 * 51
MODS = {"ModGMSK": (148, 3), "Mod8PSK": (444, 1), "ModGMSK_AB": (148, 1), "Mod16QAM": (592, 1), "Mod32QAM": (740, 1), "ModAQPSK": (296, 1)}
JUNK_MODS = ("<None>", "<int 0>", "<str ModGMSK>")

L_FN = (None, -1, 0, 1, 2715646, 2715647, 2715648, 2715649, 2 ** 32 - 1, 2 ** 32)
L_TN = (None, -1, 0, 1, 6, 7, 8, 9, 15, 16)
L_PWR = (None, -1, 0, 1, 254, 255, 256, 257)
L_RSSI = (None, -256, -121, -120, -119, -48, -47, -46, 0, 47, 120)
L_TOA = (None, -65536, -32769, -32768, -32767, 32766, 32767, 32768, 65535)
L_CI = (None, -32768, -1281, -1280, -1279, 1279, 1280, 1281, 32767, 0)
L_TSC = (None, -1, 0, 1, 7, 8, 9)
L_SET = (None, -1, 0, 1, 2, 3, 4)
L_BL = (None, 0, 1, 2, 147, 148, 149, 150, 295, 296, 297, 443, 444, 445, 446, 591, 592, 593, 739, 740, 741, 888)
L_VER = (0, 1, 2, 3, 15, 16, -1)


def rng_ok(x, lo, hi):
    return x is not None and lo <= x <= hi


def valid(c):
    """the statement's predicate on a plain-value description of the message"""
    if c["ver"] not in (0, 1) or not rng_ok(c["fn"], 0, HYPERFRAME - 1) or not rng_ok(c["tn"], 0, 7):
        return False
    bl = c["bl"]
    if c["cls"] == "tx":
        return rng_ok(c["pwr"], 0, 255) and bl in (148, 444)
    if not rng_ok(c["rssi"], -120, -47) or not rng_ok(c["toa256"], -32768, 32767):
        return False
    if c["ver"] == 0:
        return bl in (148, 444)
    if not rng_ok(c["ci"], -1280, 1280):
        return False
    if c["nope"]:
        return bl is None
    if c["mod"] not in MODS:
        return False
    mbl, set_hi = MODS[c["mod"]]
    return rng_ok(c["tsc"], 0, 7) and rng_ok(c["tsc_set"], 0, set_hi) and bl == mbl


def judged(c):
    """inside the quantifier / decided by the statement"""
    if c["cls"] == "rx" and c["ver"] == 0:
        if c["nope"]:
            return False
        if c["mod"] not in MODS or not (c["ci"] is None or rng_ok(c["ci"], -1280, 1280)):
            return False
        if not (c["tsc"] is None or rng_ok(c["tsc"], 0, 7)) or not (c["tsc_set"] is None or rng_ok(c["tsc_set"], 0, MODS[c["mod"]][1])):
            return False
    if c["cls"] == "rx" and c["ver"] == 1 and c["nope"]:
        if c["mod"] is not None and c["mod"] not in MODS:
            return False
        if c["mod"] is None:
            return c["tsc"] is None and c["tsc_set"] is None
        if not (c["tsc"] is None or rng_ok(c["tsc"], 0, 7)) or not (c["tsc_set"] is None or rng_ok(c["tsc_set"], 0, MODS[c["mod"]][1])):
            return False
    return True


def build(dm, c):
    bl = c["bl"]
    if c["cls"] == "tx":
        m = dm.TxMsg(fn=c["fn"], tn=c["tn"], ver=c["ver"])
        m.pwr = c["pwr"]
        if bl is not None:
            m.burst = bytearray((i * 5 + i // 3) & 1 for i in range(bl))
        return m
    m = dm.RxMsg(fn=c["fn"], tn=c["tn"], ver=c["ver"])
    m.rssi, m.toa256, m.ci, m.tsc, m.tsc_set = c["rssi"], c["toa256"], c["ci"], c["tsc"], c["tsc_set"]
    m.nope_ind = bool(c["nope"])
    mod = c["mod"]
    m.mod_type = getattr(dm.Modulation, mod) if mod in MODS else {"<None>": None, None: None, "<int 0>": 0, "<str ModGMSK>": "ModGMSK"}[mod]
    if bl is not None:
        m.burst = array('b', [((i * 37) % 255) - 127 for i in range(bl)])
    return m


class Sock:
    """stands for socket.socket; every datagram handed to any instance lands in Sock.log"""
    log = []

    def __init__(self, *a, **k):
        self.bound = ("0.0.0.0", 0)

    def setsockopt(self, *a):
        pass

    def bind(self, addr):
        self.bound = addr

    def setblocking(self, b):
        pass

    def getsockname(self):
        return self.bound

    def sendto(self, data, addr):
        Sock.log.append((bytes(data), addr))

    def send(self, data):
        Sock.log.append((bytes(data), None))

    def recvfrom(self, n):
        raise BlockingIOError()

    def close(self):
        pass


class FakeSocketModule:
    AF_INET = SOCK_DGRAM = SOL_SOCKET = SO_REUSEADDR = 0
    socket = Sock
    error = OSError
    timeout = OSError


REMOTE = ("127.0.0.1", 5802)


class Run:
    def __init__(self, dm, link):
        self.dm, self.link, self.cases, self.failures, self.seen = dm, link, 0, [], set()

    def fail(self, what, c, observed, exp):
        key = (what, c["cls"], c["ver"])
        if len(self.failures) < 5 and key not in self.seen:
            self.seen.add(key)
            d = dict(c)
            d["burst_len"] = d.pop("bl")
            if c["cls"] == "tx":
                for k in ("rssi", "toa256", "ci", "tsc", "tsc_set", "mod", "nope"):
                    d.pop(k, None)
            else:
                d.pop("pwr", None)
            self.failures.append({"what": what, "input": d, "observed": observed, "expected": exp})

    def one(self, c):
        if not judged(c):
            return
        self.cases += 1
        ok = valid(c)
        # (1) validate()
        try:
            build(self.dm, c).validate()
            got = "accepted"
        except ValueError:
            got = "ValueError"
        except Exception as e:
            got = "%s: %s" % (type(e).__name__, e)
        want = "accepted" if ok else "ValueError"
        if got != want:
            self.fail("validate()", c, got, want + (" (every field in range)" if ok else " (a field is outside its protocol range)"))
        # (2) gen_msg(), both legacy flags
        for legacy in (False, True):
            try:
                enc = build(self.dm, c).gen_msg(legacy)
                got = "octets" if isinstance(enc, (bytes, bytearray)) and len(enc) > 0 else "returned %r" % (enc,)
            except ValueError:
                got = "ValueError"
            except Exception as e:
                got = "%s: %s" % (type(e).__name__, e)
            want = "octets" if ok else "ValueError"
            if got != want:
                self.fail("gen_msg(legacy=%s)" % legacy, c, got, want)
        # (3) send_msg(): one datagram iff valid, nothing escapes
        legacy = bool(self.cases & 1)
        del Sock.log[:]
        try:
            self.link.send_msg(build(self.dm, c), legacy)
            got = "%d datagram(s)" % len(Sock.log)
            if len(Sock.log) == 1 and (len(Sock.log[0][0]) == 0 or Sock.log[0][1] not in (REMOTE, None)):
                got = "1 datagram of %d octets to %r" % (len(Sock.log[0][0]), Sock.log[0][1])
        except Exception as e:
            got = "%s escaped, %d datagram(s)" % (type(e).__name__, len(Sock.log))
        want = "1 datagram(s)" if ok else "0 datagram(s)"
        if got != want:
            self.fail("send_msg(legacy=%s)" % legacy, c, got, want + (" to the remote end" if ok else ", message dropped"))
        del Sock.log[:]


def base_tx(ver=0, bl=148):
    return dict(cls="tx", ver=ver, fn=1234, tn=3, pwr=10, bl=bl)


def base_rx(ver=1, mod="ModGMSK", nope=False, bl="mod"):
    c = dict(cls="rx", ver=ver, fn=1234, tn=3, rssi=-60, toa256=-321, ci=100, tsc=5, tsc_set=1, mod=mod, nope=nope, bl=MODS[mod][0] if bl == "mod" else bl)
    if ver == 0:
        c.update(ci=None, tsc=None, tsc_set=None)
    if nope:
        c.update(bl=None, mod=None, tsc=None, tsc_set=None)
    return c


def bases():
    out = [base_tx(0, 148), base_tx(0, 444), base_tx(1, 148), base_tx(1, 444), base_rx(0, bl=148), base_rx(0, bl=444)]
    out += [base_rx(1, mod) for mod in MODS]
    out.append(base_rx(1, nope=True))
    return out


def fixed(r):
    for b in bases():
        r.one(dict(b))
        lists = [("fn", L_FN), ("tn", L_TN), ("ver", L_VER), ("bl", L_BL)]
        if b["cls"] == "tx":
            lists.append(("pwr", L_PWR))
        else:
            lists += [("rssi", L_RSSI), ("toa256", L_TOA), ("ci", L_CI), ("tsc", L_TSC), ("tsc_set", L_SET), ("nope", (False, True)),
                      ("mod", tuple(MODS) + JUNK_MODS)]
        for f, vals in lists:
            for v in vals:
                c = dict(b)
                c[f] = v
                r.one(c)
    # version 1 Rx: modulation x TSC set x NOPE, modulation x burst length x NOPE
    for mod in MODS:
        for nope in (False, True):
            for s in L_SET:
                c = base_rx(1, mod)
                c.update(tsc_set=s, nope=nope, bl=None if nope else c["bl"])
                r.one(c)
            for bl in L_BL:
                c = base_rx(1, mod)
                c.update(nope=nope, bl=bl)
                r.one(c)
            for tsc in L_TSC:
                c = base_rx(1, mod)
                c.update(nope=nope, tsc=tsc, bl=None if nope else c["bl"])
                r.one(c)


def pick(rng, lst, good, p_good=0.8):
    return rng.choice(good) if rng.random() < p_good else rng.choice(lst)


def sample(r, rng):
    p = rng.choice((0.65, 0.9, 0.97))       # per-field probability of a valid value: mixes mostly-valid and multiply-invalid messages
    ver = pick(rng, L_VER, (0, 1), p)
    fn = pick(rng, L_FN, (0, 1, 2715646, 2715647, rng.randint(0, HYPERFRAME - 1)), p)
    tn = pick(rng, L_TN, (0, 1, 6, 7, rng.randint(0, 7)), p)
    if rng.random() < 0.3:
        return r.one(dict(cls="tx", ver=ver, fn=fn, tn=tn, pwr=pick(rng, L_PWR, (0, 1, 254, 255, rng.randint(0, 255)), p), bl=pick(rng, L_BL, (148, 444), p)))
    mod = pick(rng, tuple(MODS) + JUNK_MODS, tuple(MODS), p)
    nope = rng.random() < 0.25
    mbl, set_hi = MODS.get(mod, (148, 1))
    c = dict(cls="rx", ver=ver, fn=fn, tn=tn, mod=mod, nope=nope,
             rssi=pick(rng, L_RSSI, (-120, -119, -48, -47, rng.randint(-120, -47)), p),
             toa256=pick(rng, L_TOA, (-32768, -32767, 32766, 32767, rng.randint(-32768, 32767)), p),
             ci=pick(rng, L_CI, (-1280, -1279, 1279, 1280, rng.randint(-1280, 1280)), p),
             tsc=pick(rng, L_TSC, (0, 1, 7, rng.randint(0, 7)), p),
             tsc_set=pick(rng, L_SET, tuple(range(set_hi + 1)), p))
    if ver == 0:
        c["bl"] = pick(rng, L_BL, (148, 444), p)
    elif nope:
        c["bl"] = pick(rng, L_BL, (None,), p)
        if rng.random() < 0.5:
            c.update(mod=None, tsc=None, tsc_set=None)
    else:
        c["bl"] = pick(rng, L_BL, (mbl,), p)
    return r.one(c)


def run(budget_s=20.0, seed=0):
    t0 = time.time()
    prev = logging.root.manager.disable
    logging.disable(logging.CRITICAL)
    ul = toolkit("udp_link")
    saved = ul.socket
    ul.socket = FakeSocketModule
    link = None
    try:
        dm = toolkit("data_msg")
        di = toolkit("data_if")
        link = di.DATAInterface(REMOTE[0], REMOTE[1], "127.0.0.1", 5702)
        r = Run(dm, link)
        fixed(r)
        rng = random.Random(seed)
        while time.time() - t0 < budget_s and not r.failures:
            for _ in range(50):
                sample(r, rng)
        return {"cases": r.cases, "failures": r.failures[:5]}
    finally:
        del Sock.log[:]
        link = None
        ul.socket = saved
        logging.disable(prev)

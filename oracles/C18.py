"""C18 - bounded native oracle: the burst-loss simulation drops exactly the requested bursts.

Two or three real FakeTRX objects (a BTS-like one and one or two MS-like ones of independent header versions) + the real BurstForwarder,
sockets are recorders.  A history is a sequence of TRXC commands written to the CTRL sockets (FAKE_DROP n, FAKE_DROP n period, invalid
FAKE_DROP forms, RFMUTE 0/1, addressed to any transceiver) interleaved with bursts in either direction: the sender's L1 writes a TRXD
datagram to the sender's DATA socket and the clock tick of that frame emits it (every fourth burst: BurstForwarder.forward_msg()
directly).  Observed: the RSP status of every command and the datagrams every receiver's DATA socket sends per transmitted burst.

Model (from the statement), per receiver: remaining = n and period = p (1 when omitted) after an accepted FAKE_DROP; a burst is
suppressed iff either side is RF-muted, or remaining > 0 and FN mod period == 0 (then remaining decreases by one).  A suppressed burst
gives exactly one NOPE indication (NOPE bit set, no burst bits, 11 octets, same FN / TN, RSSI -110, ToA256 0, C/I -30) on a version 1
link and nothing on a version 0 link; a burst that is not suppressed gives exactly one datagram with burst bits.  FAKE_DROP with n < 0 or
period <= 0 must answer status -1 and leave remaining / period as they were (seen in the following traffic).  The statement does not say
whether a burst that is muted anyway uses up one of the n drops; the model keeps both possibilities (a set of possible counters) and
accepts either until the traffic decides."""
import time, random
from oracles import _um
from oracles._um import HYPER, ctrl, enc_l1, dec_ind, short
from engine.pyvc.harness import toolkit

BOUND = ("Fixed part (< 1 s): the seeded demonstration (FAKE_DROP 2 4, then FAKE_DROP 3) on version 0 and 1; n in 0..5 x period in {omitted, 1, 2, 4, 51} x "
         "recipient version 0/1 over a consecutive stream of 3n+10 frames starting at 0, 1 and HYPER-7 (wrap); every invalid form (n = -1 with and without "
         "period, period 0 and -2) before and in the middle of a running drop; RFMUTE 1/0 on the sender, on the recipient, on both, interleaved with a "
         "running drop; a new FAKE_DROP replacing a running one. Budgeted part: seeded random histories of 40 events over 2 or 3 transceivers (versions "
         "independent): 55 % bursts (either direction; FN = a multiple of the current period, a neighbour of one, 0, HYPER-1 or uniform; TN 0..7), "
         "25 % FAKE_DROP (n 0..6, rarely up to 1000; period omitted or from {1, 2, 3, 4, 8, 13, 26, 51, 52, 102, 1326, HYPER}), 8 % invalid FAKE_DROP, "
         "12 % RFMUTE; about 8000 histories = 180000 bursts per 10 s. Not covered: real sockets, concurrent CTRL thread vs clock thread, periods or amounts "
         "beyond 2^31.")

UL, DL = 890000, 935000
PERIODS = (1, 2, 3, 4, 8, 13, 26, 51, 52, 102, 1326, HYPER)
NOISE = {"rssi": -110, "toa": 0, "ci": -30}


class Bench:
    def __init__(self, vers):
        self.net = _um.Net()
        self.vers = list(vers)
        names = ["BTS", "MS", "MS2"]
        self.objs = [self.net.add(names[i], 5700 + 1000 * i if i < 2 else 6800) for i in range(len(vers))]
        self.net.seal()
        self.log, self.problems = [], []
        for i, o in enumerate(self.objs):
            self.cmd(i, "SETFORMAT %d" % vers[i], want=vers[i])
            self.cmd(i, "RXTUNE %d" % (UL if i == 0 else DL))
            self.cmd(i, "TXTUNE %d" % (DL if i == 0 else UL))
            self.cmd(i, "POWERON")
        self.possible = [{0} for _ in self.objs]       # possible values of the remaining-drops counter
        self.period = [1 for _ in self.objs]
        self.muted = [False for _ in self.objs]
        self.nburst = 0

    def cmd(self, i, line, want=0):
        st, f, _ = ctrl(self.objs[i], line)
        self.log.append("%s: %s" % (["BTS", "MS", "MS2"][i], line))
        if want is not None and st != want:
            self.problems.append({"cmd": self.log[-1], "status": st, "response": f, "wanted": want})
        return st

    def receivers(self, s):
        return list(range(1, len(self.objs))) if s == 0 else [0]

    # ---- events
    def drop(self, i, n, period=None):
        valid = n >= 0 and (period is None or period >= 1)
        self.cmd(i, "FAKE_DROP %d" % n if period is None else "FAKE_DROP %d %d" % (n, period), want=0 if valid else -1)
        if valid:
            self.possible[i] = {n}
            self.period[i] = 1 if period is None else period

    def mute(self, i, on):
        self.cmd(i, "RFMUTE %d" % (1 if on else 0))
        self.muted[i] = bool(on)

    def burst(self, s, fn, tn, direct=False):
        """transmit; returns None or (observed, expected, receiver)"""
        self.nburst += 1
        self.log.append("%s transmits fn=%d tn=%d%s" % (["BTS", "MS", "MS2"][s], fn, tn, " (forward_msg)" if direct else ""))
        self.net.clear()
        payload = bytes((fn + k) & 1 for k in range(148))
        if direct:
            dm = toolkit("data_msg")
            msg = dm.TxMsg(fn=fn, tn=tn, burst=bytearray(payload), ver=self.vers[s])
            msg.pwr = 5
            self.net.fwd.forward_msg(self.objs[s], msg)
        else:
            self.net.l1_send(self.objs[s], enc_l1(self.vers[s], tn, fn, 5, payload))
            self.net.tick(fn)
        for i in range(len(self.objs)):
            got = [dec_ind(d) for d, _ in self.net.got(self.objs[i])]
            if i not in self.receivers(s):
                if got:
                    return ([short(g) for g in got], "nothing (not a receiver of this burst)", i)
                continue
            kind = None          # 'burst' | 'nope' | 'nothing' | description of a malformed result
            if len(got) == 0:
                kind = "nothing"
            elif len(got) > 1:
                kind = "%d datagrams" % len(got)
            else:
                g = got[0]
                if g.get("bad") or (g["fn"], g["tn"], g["ver"]) != (fn, tn, self.vers[i]):
                    kind = "malformed / wrong FN, TN or version"
                elif g["nope"]:
                    ok = g["len"] == 11 and g.get("soft") is None and all(g[k] == v for k, v in NOISE.items())
                    kind = "nope" if ok else "NOPE indication with wrong length or noise values"
                else:
                    kind = "burst" if (g.get("soft") is not None and len(g["soft"]) == 148) else "indication without NOPE bit and without 148 burst bits"
            suppressed_kind = "nope" if self.vers[i] >= 1 else "nothing"
            multiple = fn % self.period[i] == 0
            if self.muted[s] or self.muted[i]:
                want = [suppressed_kind]
                new = set()
                for a in self.possible[i]:
                    new.add(a)
                    if a > 0 and multiple:
                        new.add(a - 1)
            else:
                outcomes = {a: (a > 0 and multiple) for a in self.possible[i]}
                want = sorted(set(suppressed_kind if v else "burst" for v in outcomes.values()))
                if kind == "burst":
                    new = {a for a, v in outcomes.items() if not v}
                else:
                    new = {a - 1 for a, v in outcomes.items() if v}
            if kind not in want:
                exp = {"receiver": ["BTS", "MS", "MS2"][i], "version": self.vers[i], "one of": want, "remaining drops (model)": sorted(self.possible[i]),
                       "period (model)": self.period[i], "muted (sender, receiver)": [self.muted[s], self.muted[i]]}
                return ({"result": kind, "datagrams": [short(g) for g in got]}, exp, i)
            self.possible[i] = new
        return None


def play(vers, events, fails, tag):
    """events: ('drop', i, n, period|None) | ('mute', i, 0/1) | ('burst', s, fn, tn, direct); returns number of bursts"""
    try:
        b = Bench(vers)
    except Exception as e:
        fails.append({"what": tag + ": building the transceivers raised", "input": {"versions": vers}, "observed": repr(e), "expected": "no exception"})
        return 0
    for ev in events:
        try:
            res = None
            if ev[0] == "drop":
                b.drop(ev[1], ev[2], ev[3])
            elif ev[0] == "mute":
                b.mute(ev[1], ev[2])
            else:
                res = b.burst(ev[1], ev[2], ev[3], ev[4])
        except Exception as e:
            fails.append({"what": tag + ": exception escaped", "input": {"versions": vers, "history": b.log}, "observed": repr(e), "expected": "no exception"})
            return b.nburst
        if b.problems:
            fails.append({"what": tag + ": command status", "input": {"versions": vers, "history": b.log}, "observed": b.problems[0],
                          "expected": "status %d" % b.problems[0]["wanted"]})
            return b.nburst
        if res is not None:
            fails.append({"what": tag + ": wrong reaction to a burst", "input": {"versions": vers, "history": b.log}, "observed": res[0], "expected": res[1]})
            return b.nburst
    return b.nburst


def fixed_histories():
    out = []
    for v in (1, 0):
        for sv in (0, 1):
            ev = [("drop", 1, 2, 4)] + [("burst", 0, fn, 0, False) for fn in (1, 4, 6, 8, 12)] + [("drop", 1, 3, None)] + [("burst", 0, fn, 0, fn == 15) for fn in (13, 14, 15, 16, 20)]
            out.append(("demo", [sv, v], ev))
    for v in (0, 1):
        for n in range(0, 6):
            for per in (None, 1, 2, 4, 51):
                for start in (0, 1, HYPER - 7):
                    ev = [("drop", 1, n, per)]
                    for k in range(3 * n + 10):
                        fn = (start + k * (1 if per != 51 else 17)) % HYPER
                        ev.append(("burst", 0, fn, k % 8, k % 4 == 3))
                    out.append(("n=%d period=%s" % (n, per), [1 - v if n % 2 else v, v], ev))
    for v in (0, 1):
        # invalid forms do not disturb a configured drop
        ev = [("drop", 1, -1, None), ("drop", 1, -1, 4), ("drop", 1, 3, 0), ("drop", 1, 3, -2), ("burst", 0, 0, 0, False), ("burst", 0, 4, 0, False),
              ("drop", 1, 3, 4), ("burst", 0, 1, 1, False), ("burst", 0, 4, 1, False), ("drop", 1, -1, None), ("drop", 1, 5, 0), ("drop", 1, -3, 2), ("drop", 1, 0, -1),
              ("burst", 0, 5, 2, False), ("burst", 0, 8, 2, False), ("burst", 0, 9, 2, True), ("burst", 0, 12, 2, False), ("burst", 0, 16, 2, False), ("burst", 0, 20, 2, False)]
        out.append(("invalid forms", [1, v], ev))
        # uplink direction: the BTS-like transceiver drops
        ev = [("drop", 0, 2, 2), ("burst", 1, 3, 0, False), ("burst", 1, 2, 0, False), ("burst", 0, 2, 0, False), ("burst", 1, 4, 7, True), ("burst", 1, 6, 0, False)]
        out.append(("uplink", [v, 1 - v], ev))
        out.append(("uplink", [v, v], ev))
        # mute on either side, both, none
        for a, bb in ((0, 1), (1, 0), (1, 1)):
            ev = [("burst", 0, 10, 0, False), ("mute", 0, a), ("mute", 1, bb), ("burst", 0, 11, 1, False), ("burst", 0, 12, 1, True), ("burst", 1, 12, 1, False),
                  ("mute", 0, 0), ("mute", 1, 0), ("burst", 0, 13, 2, False), ("burst", 1, 13, 2, False), ("burst", 0, 14, 2, True)]
            out.append(("mute %d%d" % (a, bb), [v, 1], ev))
            out.append(("mute %d%d" % (a, bb), [1, v], ev))
        # three transceivers: independent counters
        ev = [("drop", 1, 1, None), ("drop", 2, 2, 3), ("burst", 0, 1, 0, False), ("burst", 0, 3, 0, False), ("burst", 0, 6, 0, False), ("burst", 0, 9, 0, False), ("mute", 2, 1),
              ("burst", 0, 10, 0, False), ("burst", 2, 10, 0, False), ("mute", 2, 0), ("burst", 2, 11, 0, False)]
        out.append(("three transceivers", [v, 1 - v, v], ev))
        out.append(("three transceivers", [1, 1, v], ev))
        # a new FAKE_DROP replaces a running one (amount and period)
        ev = [("drop", 1, 5, 2), ("burst", 0, 2, 0, False), ("drop", 1, 1, 3), ("burst", 0, 2, 0, False), ("burst", 0, 3, 0, False), ("burst", 0, 6, 0, False),
              ("drop", 1, 2, None), ("burst", 0, 7, 0, False), ("drop", 1, 0, None), ("burst", 0, 8, 0, False), ("drop", 1, 1, HYPER), ("burst", 0, HYPER - 1, 0, False),
              ("burst", 0, 0, 0, False), ("burst", 0, 0, 1, False)]
        out.append(("replacement", [1 - v, v], ev))
    return out


def random_history(r):
    nt = 2 if r.random() < 0.75 else 3
    vers = [r.randint(0, 1) for _ in range(nt)]
    ev = []
    per = [1] * nt
    for k in range(40):
        x = r.random()
        if x < 0.55:
            s = r.randrange(nt) if r.random() < 0.5 else 0
            tgt = 1 if s == 0 else 0
            p = per[tgt]
            y = r.random()
            if y < 0.45:
                fn = (p * r.randrange(0, max(1, min(HYPER // p, 5000)))) % HYPER
            elif y < 0.65:
                fn = (p * r.randrange(0, max(1, min(HYPER // p, 5000))) + r.choice((1, -1))) % HYPER
            elif y < 0.75:
                fn = r.choice((0, HYPER - 1, 1))
            else:
                fn = r.randrange(HYPER)
            ev.append(("burst", s, fn, r.randrange(8), k % 4 == 3))
        elif x < 0.80:
            i = r.randrange(nt)
            n = r.randint(0, 6) if r.random() < 0.93 else r.choice((7, 50, 1000))
            p = None if r.random() < 0.4 else r.choice(PERIODS)
            ev.append(("drop", i, n, p))
            per[i] = 1 if p is None else p
        elif x < 0.88:
            i = r.randrange(nt)
            ev.append(r.choice((("drop", i, -r.randint(1, 9), None), ("drop", i, -r.randint(1, 9), r.choice(PERIODS)), ("drop", i, r.randint(0, 6), 0),
                                ("drop", i, r.randint(0, 6), -r.randint(1, 60)), ("drop", i, -1, 0))))
        else:
            ev.append(("mute", r.randrange(nt), r.randint(0, 1)))
    return vers, ev


def run(budget_s=20.0, seed=0):
    t0 = time.time()
    P = _um.Patches()
    fails, cases, k = [], 0, 0
    try:
        for tag, vers, ev in fixed_histories():
            cases += play(vers, ev, fails, tag)
            if len(fails) >= 5:
                break
        r = random.Random(seed)
        while time.time() - t0 < budget_s and len(fails) < 5:
            k += 1
            vers, ev = random_history(r)
            cases += play(vers, ev, fails, "random history #%d (seed %d)" % (k, seed))
    finally:
        P.restore()
    return {"cases": cases, "failures": _um.fit(fails), "histories": k}

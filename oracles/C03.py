"""C03 - every queued burst is transmitted exactly once, in its own frame (bounded native oracle).

Real FakeTRX objects over recorder sockets.  Everything is driven through the points the statement names: TRXD datagrams put on the DATA
socket (recv_data_msg), TRXC commands put on the CTRL socket (POWERON / POWEROFF / SETFORMAT / RXTUNE / TXTUNE / SETFH through
ctrl_if.handle_rx) and clock ticks (clck_tick).  Observed: the forwarder calls made during each tick (a recorder standing for
BurstForwarder, or the real BurstForwarder with the datagrams arriving at a peer transceiver's DATA socket), the number of reports at
warning level or above made through the transceiver module's logger object during a tick (never their text), exceptions.
Histories are judged against a small reference written from the statement (fate of every burst: sent in the tick of its own frame /
stale = frame passed on the hyperframe circle / discarded by power-off / rejected at arrival); every history is closed by ticks at the
frames of the bursts still waiting, so nothing can vanish unnoticed without reading the queue attribute.
Schedules: ONE socket-thread step (a burst arrival or a POWEROFF) is run at every trace event (line / call / return, for some scenarios
every bytecode) of every frame of the transceiver module while one clck_tick runs; the queue mutex is an instrumented lock, a step that
would have to wait for the clock thread is abandoned (it equals the same step at a later point)."""
import sys, os, time, random, logging, threading as _threading
from engine.pyvc.harness import toolkit

H = 2715648
HALF = H // 2

BOUND = ("histories, fixed: 16 scripted histories (consecutive ticks, gaps, the hyperframe wrap 2715647->0, duplicates, one burst per frame over 130 frames, "
         "bursts for passed frames, bursts H/4+5 and H/2-1 frames ahead reached by a gap, H/2+2 ahead = passed, POWEROFF/POWERON cycles, SETFORMAT 0/1 with "
         "matching and non-matching header versions, arrivals while powered off, GMSK and EDGE lengths, real BurstForwarder towards a v0 and a v1 peer); "
         "schedules, fixed: 14 racing scenarios (tick frame 100 / 2715647 / 0 / 7; queue = due, next, passed, later, duplicate due; step = arrival for the "
         "tick's own frame / the next / a later / a passed frame, or POWEROFF followed by POWERON; recorder or real forwarder, peer or source with "
         "frequency hopping switched off by the racing POWEROFF), each run once per trace event of the tick (12..60 line/call/return points, 164 "
         "bytecode points in the two opcode scenarios; about 790 racing runs); random: histories of 10..80 events (start frame near 0 / near the wrap / "
         "uniform, burst offsets from {-5..12, H/2-1, H/2+2, -H/2+3, H/4+5}, a tick that would find a burst exactly H/2 away is left out, gaps 2..60 or "
         "~H/3, power cycles, format changes, 15 % through the real forwarder) and racing scenarios with random queue (0..6 bursts), frame and step, all "
         "points each, alternating (10 histories, then one racing scenario) until the time budget is used (about 200 histories = 10000 events and 20 "
         "racing scenarios = 800 racing runs per second)")


class WouldBlock(BaseException):
    """the step needs a mutex that the other thread holds"""


class FakeSocketModule:
    AF_INET = SOCK_DGRAM = SOL_SOCKET = SO_REUSEADDR = 0
    socket = None       # set in Env


class LogProxy:
    """stands for the transceiver module's logger object: counts the reports at warning level or above, never looks at texts"""

    def __init__(self, real, counter):
        self._real = real
        self._counter = counter

    def __getattr__(self, name):
        return getattr(self._real, name)

    def warning(self, *a, **k):
        self._counter.reports += 1
    warn = error = critical = fatal = exception = warning

    def log(self, level, *a, **k):
        if isinstance(level, int) and level >= 30:
            self._counter.reports += 1

    def info(self, *a, **k):
        pass
    debug = info


class Env:
    """patched toolkit modules for the duration of one oracle run"""

    def __enter__(self):
        from contracts.py.native import Recorder
        self.tr = toolkit("transceiver")
        self.ul = toolkit("udp_link")
        self.ft = toolkit("fake_trx")
        self.bf = toolkit("burst_fwd")
        self.actor = "clock"
        env = self

        class ILock:
            def __init__(self, reentrant=False):
                self.owner, self.depth, self.reentrant = None, 0, reentrant

            def acquire(self, blocking=True, timeout=-1):
                if self.owner is None:
                    self.owner, self.depth = env.actor, 1
                    return True
                if self.owner == env.actor and self.reentrant:
                    self.depth += 1
                    return True
                if self.owner == env.actor:
                    raise RuntimeError("thread waits for a mutex it holds itself")
                if not blocking:
                    return False
                raise WouldBlock()

            def release(self):
                self.depth -= 1
                if self.depth <= 0:
                    self.owner, self.depth = None, 0

            def locked(self):
                return self.owner is not None

            def __enter__(self):
                self.acquire()
                return True

            def __exit__(self, *a):
                self.release()
        self.ILock = ILock

        class ThreadingShim:
            Lock = staticmethod(lambda: ILock())
            RLock = staticmethod(lambda: ILock(True))

            def __getattr__(self, name):
                return getattr(_threading, name)
        FakeSocketModule.socket = Recorder
        # replace, by identity, whatever names the transceiver module uses for its logger and for the threading facilities
        class Counter:
            reports = 0
        self.log = Counter()
        shim = ThreadingShim()
        self.saved = {}
        for name, val in list(vars(self.tr).items()):
            if val is logging or isinstance(val, logging.Logger):
                new = LogProxy(val, self.log)
            elif val is _threading:
                new = shim
            elif val is _threading.Lock:
                new = ThreadingShim.Lock
            elif val is _threading.RLock:
                new = ThreadingShim.RLock
            else:
                continue
            self.saved[name] = val
            setattr(self.tr, name, new)
        self.sock_saved = self.ul.socket
        self.ul.socket = FakeSocketModule
        self.port = 5700
        return self

    def __exit__(self, *a):
        sys.settrace(None)
        for name, val in self.saved.items():
            setattr(self.tr, name, val)
        self.ul.socket = self.sock_saved

    def trx(self, name):
        self.port += 20
        t = self.ft.FakeTRX("0.0.0.0", "127.0.0.1", self.port, name=name)
        # a mutex created in some other way than threading.Lock() of the transceiver module: instrument it as well
        raw = (type(_threading.Lock()), type(_threading.RLock()))
        for k, v in list(vars(t).items()):
            if isinstance(v, raw):
                setattr(t, k, self.ILock(isinstance(v, raw[1])))
        return t


# ---------------------------------------------------------------- datagrams (own layout arithmetic)
def id_bits(bid, bl):
    r = random.Random(bid)
    bits = [(bid >> (23 - i)) & 1 for i in range(24)] + [r.randrange(2) for _ in range(bl - 24)]
    return bits


def tx_dgram(ver, tn, fn, pwr, bid, bl):
    """TRXD Tx: (ver << 4 | tn), fn 32 bit big endian, pwr, one octet per bit"""
    return bytes([(ver << 4) | tn]) + fn.to_bytes(4, "big") + bytes([pwr]) + bytes(id_bits(bid, bl))


def id_of_bits(burst):
    v = 0
    for i in range(24):
        v = (v << 1) | (1 if burst[i] else 0)
    return v


def ctrl(t, text):
    t.ctrl_if.sock.inbox.append((text.encode() + b"\0", ("127.0.0.1", 6000)))
    t.ctrl_if.handle_rx()


def feed(t, dgram):
    t.data_if.sock.inbox.append((dgram, ("127.0.0.1", 6001)))
    t.recv_data_msg()


class FwdRecorder:
    """stands for BurstForwarder: the handler call is the observation point"""

    def __init__(self):
        self.calls = []

    def forward_msg(self, src, msg):
        try:
            self.calls.append({"id": id_of_bits(msg.burst), "fn": msg.fn, "tn": msg.tn, "pwr": msg.pwr, "src": src})
        except Exception as e:
            self.calls.append({"id": None, "error": "%s: %s" % (type(e).__name__, e)})


def peer_datagrams(peer):
    """what arrived at the peer's DATA socket since the last call: (id, fn, tn) per datagram (TRXD Rx: header 8 octets v0 / 11 octets v1, unsigned soft bits)"""
    out = []
    for d, _addr in peer.data_if.sock.sent:
        ver = d[0] >> 4
        hdr = 8 if ver == 0 else 11
        b = d[hdr:hdr + 24]
        out.append({"id": id_of_bits([x > 127 for x in b]) if len(b) == 24 else None, "fn": int.from_bytes(d[1:5], "big"), "tn": d[0] & 7, "ver": ver})
    del peer.data_if.sock.sent[:]
    return out


# ---------------------------------------------------------------- reference
def klass(burst_fn, tick_fn):
    d = (burst_fn - tick_fn) % H
    return "due" if d == 0 else ("waiting" if d <= HALF else "passed")


class Model:
    def __init__(self):
        self.running, self.ver, self.queue, self.fate, self.info = False, 0, [], {}, {}

    def arrival(self, bid, ver, fn, tn, pwr):
        self.info[bid] = (fn, tn, pwr)
        if self.running and ver == self.ver and ver in (0, 1):
            self.queue.append(bid)
            self.fate[bid] = "queued"
        else:
            self.fate[bid] = "rejected"

    def poweroff(self):
        for b in self.queue:
            self.fate[b] = "discarded by power-off"
        self.queue, self.running = [], False

    def tick(self, fn):
        """-> (ids due now, number of bursts whose frame has passed)"""
        if not self.running:
            return [], 0
        due, passed, keep = [], 0, []
        for b in self.queue:
            k = klass(self.info[b][0], fn)
            if k == "due":
                due.append(b)
                self.fate[b] = "sent at tick %d" % fn
            elif k == "passed":
                passed += 1
                self.fate[b] = "stale at tick %d" % fn
            else:
                keep.append(b)
        self.queue = keep
        return due, passed


# ---------------------------------------------------------------- sequential histories
def run_history(env, events, real_fwd=False, peer_ver=0):
    """events: ["poweron"] | ["poweroff"] | ["setformat", v] | ["burst", ver, fn, tn, pwr, bl] | ["tick", fn]; returns (steps, failure or None)"""
    t = env.trx("A")
    ctrl(t, "CMD RXTUNE 1000")
    ctrl(t, "CMD TXTUNE 2000")
    peer = None
    if real_fwd:
        peer = env.trx("B")
        ctrl(peer, "CMD RXTUNE 2000")
        ctrl(peer, "CMD TXTUNE 1000")
        if peer_ver:
            ctrl(peer, "CMD SETFORMAT %d" % peer_ver)
        ctrl(peer, "CMD POWERON")
        fwd = env.bf.BurstForwarder([t, peer])
        del peer.data_if.sock.sent[:]
    else:
        fwd = FwdRecorder()
    m = Model()
    steps = 0

    def do_tick(fn, origin):
        nonlocal steps
        steps += 1
        due, passed = m.tick(fn)
        r0 = env.log.reports
        try:
            t.clck_tick(fwd, fn)
        except Exception as e:
            return ("clock tick raises", {"tick": fn, "origin": origin, "error": "%s: %s" % (type(e).__name__, e)}, "returns")
        if real_fwd:
            got = peer_datagrams(peer)
        else:
            got, fwd.calls = fwd.calls, []
        ids = sorted(str(c["id"]) for c in got)
        if ids != sorted(str(b) for b in due):
            extra = [c["id"] for c in got if c["id"] not in due] + [b for b in set(c["id"] for c in got) if [c["id"] for c in got].count(b) > 1]
            missing = [b for b in due if b not in [c["id"] for c in got]]
            return ("bursts put on the air during a tick", {"tick": fn, "origin": origin, "transmitted_burst_events": [c["id"] for c in got],
                                                          "not_due": [{"burst_event": b, "frame": m.info.get(b, ("?",))[0], "fate": m.fate.get(b)} for b in extra[:4]],
                                                          "missing": [{"burst_event": b, "frame": m.info[b][0]} for b in missing[:4]]},
                    {"tick": fn, "burst_events": due})
        for c in got:
            fn_, tn_, pwr_ = m.info[c["id"]]
            if c["fn"] != fn_ or c["tn"] != tn_ or (not real_fwd and c["pwr"] != pwr_):
                return ("transmitted burst differs from the accepted one", {"tick": fn, "burst_event": c["id"], "fn": c["fn"], "tn": c["tn"], "pwr": c.get("pwr")},
                        {"fn": fn_, "tn": tn_, "pwr": pwr_})
        if env.log.reports - r0 < passed:
            return ("stale burst not reported", {"tick": fn, "origin": origin, "reports_at_warning_or_above": env.log.reports - r0}, {"at_least": passed})
        return None
    try:
        for i, ev in enumerate(events):
            kind = ev[0]
            if kind == "tick":
                if any((m.info[b][0] - ev[1]) % H == HALF for b in m.queue):
                    continue                   # a burst exactly half a hyperframe away: "passed" is not defined there, the tick is left out
                f = do_tick(ev[1], "event %d" % i)
                if f:
                    return steps, f
                continue
            steps += 1
            if kind == "poweron":
                ctrl(t, "CMD POWERON")
                m.running = True
            elif kind == "poweroff":
                ctrl(t, "CMD POWEROFF")
                m.poweroff()
            elif kind == "setformat":
                ctrl(t, "CMD SETFORMAT %d" % ev[1])
                m.ver = ev[1]
            elif kind == "burst":
                _k, ver, fn, tn, pwr, bl = ev
                if real_fwd:
                    pwr = pwr % 50             # the simulated receive level of the peer is derived from it and must stay encodable
                feed(t, tx_dgram(ver, tn, fn, pwr, i, bl))
                m.arrival(i, ver, fn, tn, pwr)
        # closing ticks (with gaps) at the frames of everything still waiting: each must come out there, exactly once
        last = next((ev[1] for ev in reversed(events) if ev[0] == "tick"), 0)
        guard = 0
        while m.queue and m.running and guard < 200:
            guard += 1
            nxt = min(m.queue, key=lambda b: (m.info[b][0] - last - 1) % H)
            last = m.info[nxt][0]
            f = do_tick(last, "closing tick for burst event %d" % nxt)
            if f:
                return steps, f
    except WouldBlock:
        return steps, ("a sequential step waits for a mutex nobody holds", "blocked", "runs")
    except Exception as e:
        return steps, ("public entry point raises", "%s: %s" % (type(e).__name__, e), "no exception")
    return steps, None


def B(ver, fn, tn=0, pwr=0, bl=148):
    return ["burst", ver, fn % H, tn, pwr, bl]


def T(fn):
    return ["tick", fn % H]


def fixed_histories():
    hs = []
    on = ["poweron"]
    off = ["poweroff"]
    # plain: one burst, its frame comes
    hs.append(dict(events=[on, T(10), B(0, 12), T(11), T(12), T(13)]))
    # due / next / passed / duplicate in one queue
    hs.append(dict(events=[on, T(99), B(0, 100, 1, 10), B(0, 101, 2, 20), B(0, 98, 3), B(0, 100, 4), B(0, 99, 5), T(100), T(101), T(102)]))
    # several stale bursts in one tick (each must be reported), then nothing
    hs.append(dict(events=[on, T(500), B(0, 499), B(0, 400), B(0, 500), B(0, 501), T(501), T(502)]))
    # gap: frames skipped by the clock are passed
    hs.append(dict(events=[on, T(10), B(0, 11), B(0, 12), B(0, 15), B(0, 40), T(15), T(16), T(39), T(40)]))
    # hyperframe wrap: bursts for 0, 1, 2 queued before the wrap; a burst for H-2 arriving after the wrap is stale
    hs.append(dict(events=[on, T(H - 3), B(0, 0), B(0, 2), B(0, H - 1), B(0, 1, 7, 255), T(H - 2), T(H - 1), T(0), B(0, H - 2), B(0, H - 1), T(1), T(2), T(3)]))
    hs.append(dict(events=[on, T(H - 1), B(0, 5), B(0, H - 1), B(0, 0), T(0), T(1), T(2), T(3), T(4), T(5)]))
    # gap across the wrap
    hs.append(dict(events=[on, T(H - 10), B(0, H - 5), B(0, 3), B(0, 4), T(3), T(4)]))
    # far ahead: H/4+5 and H/2-1 frames ahead wait (reached by a gap); H/2+2 ahead counts as passed
    hs.append(dict(events=[on, T(1000), B(0, 1000 + H // 4 + 5), B(0, 1000 + HALF - 1), B(0, 1000 + HALF + 2), B(0, 1002), T(1001), T(1002), T(1003)]))
    hs.append(dict(events=[on, T(H - 7), B(0, H - 7 + H // 4 + 5), B(0, H - 7 + HALF - 1), T(H - 6), T(H - 5)]))
    # one burst per frame over 130 consecutive frames, two frames ahead
    ev = [on, T(3000)]
    for k in range(130):
        ev += [B(0, 3003 + k, k % 8, k), T(3001 + k)]
    hs.append(dict(events=ev + [T(3131), T(3132), T(3133)]))
    # power-off discards everything still queued; after POWERON only new bursts go out
    hs.append(dict(events=[on, T(10), B(0, 11), B(0, 12), B(0, 13), T(11), off, on, T(12), B(0, 14), T(13), T(14), T(15)]))
    hs.append(dict(events=[on, T(H - 2), B(0, 0), B(0, 1), off, B(0, 1), T(H - 1), on, B(0, 2), T(0), T(1), T(2)]))
    # arrivals while powered off are dropped, also when the power comes later
    hs.append(dict(events=[B(0, 5), T(4), on, T(5), B(0, 7), off, B(0, 7), B(0, 8), on, T(6), T(7), T(8)]))
    # header versions: only the negotiated one is accepted
    hs.append(dict(events=[on, T(20), B(1, 22), B(0, 22, 1), ["setformat", 1], B(1, 23, 2), B(0, 23, 3), B(2, 23, 4), T(21), T(22), T(23),
                           ["setformat", 0], B(1, 25), B(0, 25, 5, 7, 444), T(24), T(25)]))
    # real forwarder towards a peer (v0 peer, then v1 peer), EDGE burst
    hs.append(dict(events=[on, T(H - 2), B(0, H - 1), B(0, 0, 3), B(0, 0, 4, 9, 444), B(0, H - 3), T(H - 1), T(0), B(0, 0), T(1)], real_fwd=True))
    hs.append(dict(events=[on, ["setformat", 1], T(50), B(1, 52, 1), B(1, 51, 2), B(0, 51, 3), T(51), off, on, B(1, 53), T(52), T(53)], real_fwd=True, peer_ver=1))
    return hs


def random_history(rnd):
    ev = [["poweron"]]
    clock = rnd.choice((rnd.randrange(0, 60), H - 1 - rnd.randrange(0, 40), rnd.randrange(H)))
    ver, running = 0, True
    ev.append(T(clock))
    offs = (-5, -2, -1, 0, 1, 1, 1, 2, 2, 3, 4, 6, 12, HALF - 1, HALF + 2, H // 4 + 5, -HALF + 3)
    for _ in range(rnd.randint(10, 80)):
        x = rnd.random()
        if x < 0.5:
            v = ver if rnd.random() < 0.85 else rnd.choice((0, 1, 2))
            ev.append(B(v, clock + rnd.choice(offs), rnd.randrange(8), rnd.randrange(256), 444 if rnd.random() < 0.1 else 148))
        elif x < 0.86:
            clock = (clock + 1) % H
            ev.append(T(clock))
        elif x < 0.92:
            clock = (clock + rnd.choice((2, 3, rnd.randint(2, 60), H // 3))) % H
            ev.append(T(clock))
        elif x < 0.96:
            ev.append(["poweroff"] if running else ["poweron"])
            running = not running
        else:
            ver = rnd.choice((0, 1))
            ev.append(["setformat", ver])
    if not running:
        ev.append(["poweron"])
    return dict(events=ev, real_fwd=rnd.random() < 0.15, peer_ver=rnd.choice((0, 1)))


# ---------------------------------------------------------------- schedules
def race_once(env, cfg, point):
    """one tick with one socket-thread step injected at trace event number `point`.
    -> None when the tick has fewer events; else dict(blocked=..., failure=(what, observed, expected) or None, where=...)"""
    F = cfg["tick"]
    real = cfg.get("fwd") == "real"
    a = env.trx("A")
    peer = None
    if cfg.get("src_fh"):
        ctrl(a, "CMD SETFH 0 0 1000 2000")
    else:
        ctrl(a, "CMD RXTUNE 1000")
        ctrl(a, "CMD TXTUNE 2000")
    ctrl(a, "CMD POWERON")
    if real:
        peer = env.trx("B")
        if cfg.get("peer_fh"):
            ctrl(peer, "CMD SETFH 0 0 2000 1000")
        else:
            ctrl(peer, "CMD RXTUNE 2000")
            ctrl(peer, "CMD TXTUNE 1000")
        ctrl(peer, "CMD POWERON")
        fwd = env.bf.BurstForwarder([a, peer])
        del peer.data_if.sock.sent[:]
    else:
        fwd = FwdRecorder()
    frames = {}                                     # burst id -> frame
    for i, off in enumerate(cfg["queue"]):
        frames[i] = (F + off) % H
        feed(a, tx_dgram(0, i % 8, frames[i], i, i, 148))
    NEW, LATE, GHOST = 100, 101, 102
    step = cfg["step"]
    who = peer if (step[0] == "poweroff" and step[-1] == "peer") else a

    def do_step():
        if step[0] == "arrival":
            frames[NEW] = (F + step[1]) % H
            feed(a, tx_dgram(0, 5, frames[NEW], 7, NEW, 148))
        else:
            ctrl(who, "CMD POWEROFF")
    fname = os.path.realpath(env.tr.__file__)
    opcodes = cfg.get("granularity") == "opcode"
    st = {"n": 0, "done": False, "blocked": False, "where": None, "exc": None}

    def local(frame, event, arg):
        if st["done"] or event == "exception":
            return local
        if opcodes and event == "line":
            return local                      # every line start is also an opcode event
        if st["n"] == point:
            st["done"] = True
            st["where"] = "%s, line %d of the transceiver module (%s event)" % (frame.f_code.co_name, frame.f_lineno, event)
            sys.settrace(None)
            env.actor = "socket"
            try:
                do_step()
            except WouldBlock:
                st["blocked"] = True
            except Exception as e:
                st["exc"] = "%s: %s" % (type(e).__name__, e)
            finally:
                env.actor = "clock"
                sys.settrace(tracer)
        st["n"] += 1
        return local

    def tracer(frame, event, arg):
        if os.path.realpath(frame.f_code.co_filename) != fname:
            return None
        if opcodes:
            frame.f_trace_opcodes = True
        return local(frame, event, arg)
    seen = {}                                        # tick -> list of ids

    def collect(tk):
        if real:
            got = peer_datagrams(peer)
        else:
            got, fwd.calls = fwd.calls, []
        for c in got:
            seen.setdefault(c["id"], []).append(tk)
    reports = {}
    r0 = env.log.reports
    sys.settrace(tracer)
    try:
        a.clck_tick(fwd, F)
    except Exception as e:
        sys.settrace(None)
        return dict(blocked=False, where=st["where"], failure=("clock tick raises when a socket-thread step runs in between",
                                                               "%s: %s" % (type(e).__name__, e), "returns"))
    finally:
        sys.settrace(None)
    if not st["done"]:
        return None
    if st["blocked"]:
        return dict(blocked=True, where=st["where"], failure=None)
    if st["exc"]:
        return dict(blocked=False, where=st["where"], failure=("socket-thread step raises", st["exc"], "no exception"))
    collect(F)
    reports[F] = env.log.reports - r0
    try:
        if step[0] == "poweroff" and who is a:
            feed(a, tx_dgram(0, 6, (F + 2) % H, 0, GHOST, 148))      # powered off now: must be dropped
            ctrl(a, "CMD RXTUNE 1000")                               # POWEROFF also ends frequency hopping: tune again
            ctrl(a, "CMD TXTUNE 2000")
            ctrl(a, "CMD POWERON")
            frames[LATE] = (F + 3) % H
            feed(a, tx_dgram(0, 7, frames[LATE], 0, LATE, 148))
        later = sorted(set((f - F) % H for f in frames.values()) | {1, 2, 3})
        for d in later:
            if d == 0 or d > HALF:
                continue
            r0 = env.log.reports
            a.clck_tick(fwd, (F + d) % H)
            collect((F + d) % H)
            reports[(F + d) % H] = env.log.reports - r0
    except Exception as e:
        return dict(blocked=False, where=st["where"], failure=("later step raises", "%s: %s" % (type(e).__name__, e), "no exception"))
    bad = []
    need_reports = 0
    names = {NEW: "arriving during the tick", LATE: "accepted after the next POWERON", GHOST: "arriving while powered off"}
    for bid, f in sorted(frames.items()):
        k = klass(f, F)
        got = seen.get(bid, [])
        nm = "burst %s (frame %d)" % (names.get(bid, "queued before the tick"), f)
        if step[0] == "arrival" or who is not a:
            peer_off = who is not a       # the receiving peer is switched off by the step: its datagrams may legitimately stop
            if bid == NEW and k == "due":
                if got not in ([], [F]):
                    bad.append("%s transmitted at ticks %s" % (nm, got))
                elif not got:
                    need_reports += 1
            elif k == "passed":
                need_reports += 1
                if got:
                    bad.append("%s transmitted at ticks %s although its frame had passed" % (nm, got))
            elif peer_off:
                if got not in ([], [f]):
                    bad.append("%s reached the peer at ticks %s" % (nm, got))
            elif got != [f]:
                bad.append("%s transmitted at ticks %s, expected exactly once at tick %d" % (nm, got, f))
        else:
            if bid == LATE:
                if got != [f]:
                    bad.append("%s transmitted at ticks %s, expected exactly once at tick %d" % (nm, got, f))
            elif k == "due":
                if got not in ([], [F]):
                    bad.append("%s transmitted at ticks %s" % (nm, got))
            elif got:
                bad.append("%s survived POWEROFF and was transmitted at ticks %s after the next POWERON" % (nm, got))
    if GHOST in seen:
        bad.append("burst arriving after POWEROFF completed was transmitted at ticks %s" % seen[GHOST])
    if (step[0] == "arrival") and sum(reports.values()) < need_reports:
        bad.append("%d report(s) at warning level or above during the ticks, %d burst(s) had to be reported stale" % (sum(reports.values()), need_reports))
    if bad:
        return dict(blocked=False, where=st["where"], failure=("interleaving of one step with one tick", bad[:4],
                                                               "exactly once in its own frame / reported stale / discarded by power-off, nothing vanishes"))
    return dict(blocked=False, where=st["where"], failure=None)


def race_all(env, cfg, deadline=None):
    """all injection points of one racing scenario -> (runs, failure or None)"""
    runs = 0
    for point in range(0, 5000):
        r = race_once(env, cfg, point)
        if r is None:
            break
        runs += 1
        if r["failure"]:
            what, obs, exp = r["failure"]
            return runs, {"what": what, "input": dict(cfg, inject_at_event=point, just_before=r["where"]), "observed": obs, "expected": exp}
        if deadline is not None and time.time() > deadline:
            break
    return runs, None


def fixed_races():
    q = [0, 1, -1, 2, 0]
    rs = []
    for F in (100, H - 1):
        rs.append(dict(tick=F, queue=q, step=["arrival", 2]))
        rs.append(dict(tick=F, queue=q, step=["poweroff", "self"]))
    rs.append(dict(tick=0, queue=[0, 1, -1], step=["arrival", 0]))
    rs.append(dict(tick=100, queue=q, step=["arrival", 1]))
    rs.append(dict(tick=100, queue=[1, 0, 3], step=["arrival", -1]))
    rs.append(dict(tick=7, queue=[], step=["arrival", 1]))
    rs.append(dict(tick=7, queue=[1, 2, 3, 1], step=["poweroff", "self"]))
    rs.append(dict(tick=100, queue=[0, 1, -1], step=["arrival", 2], granularity="opcode"))
    rs.append(dict(tick=100, queue=[0, 1, -1], step=["poweroff", "self"], granularity="opcode"))
    rs.append(dict(tick=100, queue=[0, 1, 0], step=["arrival", 1], fwd="real"))
    rs.append(dict(tick=100, queue=[0, 1, 0], step=["poweroff", "peer"], fwd="real", peer_fh=True))
    rs.append(dict(tick=H - 1, queue=[0, 1, 0], step=["poweroff", "self"], fwd="real", src_fh=True, peer_fh=True))
    return rs


def random_race(rnd):
    F = rnd.choice((rnd.randrange(H), H - 1, 0, H - 2, rnd.randrange(1000)))
    q = [rnd.choice((0, 0, 1, 1, 2, 3, -1, -3, 5)) for _ in range(rnd.randint(0, 6))]
    step = ["arrival", rnd.choice((0, 1, 1, 2, 3, -1))] if rnd.random() < 0.5 else ["poweroff", "self"]
    cfg = dict(tick=F, queue=q, step=step)
    x = rnd.random()
    if x < 0.2:
        cfg["fwd"] = "real"
        cfg["peer_fh"] = rnd.random() < 0.5
        if step[0] == "poweroff":
            cfg["step"] = ["poweroff", rnd.choice(("self", "peer"))]
            cfg["src_fh"] = rnd.random() < 0.5
    elif x < 0.3 and len(q) <= 3:
        cfg["granularity"] = "opcode"
    return cfg


def run(budget_s=20.0, seed=0):
    t0 = time.time()
    prev = logging.root.manager.disable
    logging.disable(logging.CRITICAL)
    cases, failures = 0, []

    def add(f):
        if f and len(failures) < 5 and not any(x["what"] == f["what"] for x in failures):
            failures.append(f)
    with Env() as env:
        try:
            for i, h in enumerate(fixed_histories()):
                n, f = run_history(env, h["events"], h.get("real_fwd", False), h.get("peer_ver", 0))
                cases += n
                if f:
                    add({"what": f[0], "input": dict(h, origin="fixed history %d" % i), "observed": f[1], "expected": f[2]})
            for cfg in fixed_races():
                n, f = race_all(env, cfg)
                cases += n
                add(f)
            rnd = random.Random(1000003 * seed + 3)
            while not failures and time.time() - t0 < budget_s:
                for _ in range(10):
                    h = random_history(rnd)
                    n, f = run_history(env, h["events"], h["real_fwd"], h["peer_ver"])
                    cases += n
                    if f:
                        add({"what": f[0], "input": dict(h, origin="random history, seed %d" % seed), "observed": f[1], "expected": f[2]})
                        break
                if failures or time.time() - t0 >= budget_s:
                    break
                n, f = race_all(env, random_race(rnd), deadline=t0 + budget_s + 2)
                cases += n
                add(f)
        finally:
            sys.settrace(None)
            logging.disable(prev)
    return {"cases": cases, "failures": failures[:5]}

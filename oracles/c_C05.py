"""C05 (C half) - bounded native oracle: the replies to the TRXC commands trxcon emits are accepted by trxcon's own response parser
(src/host/trxcon/src/trx_if.c), including SETFH carrying the longest mobile allocation trxcon can encode.

Statement-level reference (TRXC protocol as the statement words it; written here, not taken from the code or the contract):
  a command is the text  "CMD <VERB>[ <arg>]*"  + NUL, the reply is  "RSP <VERB> <status>[ <original arguments>][ <results>]"  + NUL;
  trxcon's public command interface (trx_if_handle_phyif_cmd) emits: RESET -> POWEROFF then ECHO; POWERON; POWEROFF; MEASURE <kHz>;
  SETFREQ_H0 -> RXTUNE <kHz> then TXTUNE <kHz>; SETFREQ_H1 -> SETFH <hsn> <maio> then one <rx kHz> <tx kHz> pair per channel;
  SETSLOT <tn> <type>; SETTA <ta>.  One command is outstanding at a time; the next one is sent when the reply to the previous one arrived.
Judged: (1) every emitted datagram is a well-formed command with the documented verb, NUL-terminated, numeric arguments, the argument
count of its verb (for SETFH 2 + 2 x channels, hsn/maio echoed); (2) the statement-form reply with status 0 to each emitted command is ACCEPTED:
trx_ctrl_read_cb returns 0, the command leaves the queue, the interface is not terminated, and the next queued command is sent; a MEASURE reply
"RSP MEASURE 0 <kHz> <dBm>" produces one measurement response with that dBm; (3) a reply with a non-zero status is still matched to its command
(accepted and dequeued, or - for the commands trxcon treats as critical - answered by terminating the interface; never left pending, never a
crash); (4) SETFH is emitted and its reply accepted for every allocation of up to 62 channels of any band and up to 64 channels of the 900 MHz
bands (trxcon's text buffer bounds what it can encode: 63..64 channels with 7-digit frequencies may be refused with an error, that is not judged).
"""
import random, re

from . import _c, _c_trx_if as T

BOUND = ("C half (trx_if_handle_phyif_cmd + trx_ctrl_read_cb cut verbatim out of trx_if.c with the helpers they call; ASan+UBSan). Fixed part: all 8 command "
         "types; MEASURE / SETFREQ_H0 for ARFCN corners of every band (0, 1, 124, 125, 128, 251, 259, 293, 306, 340, 438, 511, 512, 885, 955, 1023, with the PCS flag "
         "512..810, uplink flag); SETSLOT for all 8 timeslots x all channel types 0..11; SETTA -128..127 corners; SETFH with 1, 2, 8, 61, 62 channels of "
         "GSM900 / DCS1800 / PCS1900 and 63, 64 channels of GSM900, HSN/MAIO corners; each emitted command answered with status 0 (and, for a sample, with "
         "status 1, 12, -1) in the reply form of the statement and fed back into trxcon's parser. Budgeted part: seeded random command sequences "
         "(1..6 commands queued before any reply, random parameters, random mobile allocations of 1..64 channels) answered in order.")

VERBS = {T.POWERON: ["POWERON"], T.POWEROFF: ["POWEROFF"], T.RESET: ["POWEROFF", "ECHO"], T.MEASURE: ["MEASURE"], T.SETFREQ_H0: ["RXTUNE", "TXTUNE"],
         T.SETFREQ_H1: ["SETFH"], T.SETSLOT: ["SETSLOT"], T.SETTA: ["SETTA"]}
ARGC = {"POWERON": 0, "POWEROFF": 0, "ECHO": 0, "MEASURE": 1, "RXTUNE": 1, "TXTUNE": 1, "SETSLOT": 2, "SETTA": 1}
GSM900 = list(range(1, 125)) + list(range(975, 1024)) + [0]
DCS = list(range(512, 886))
PCS = [0x8000 | a for a in range(512, 811)]


def cmd_line(c):
    t = c["type"]
    if t in (T.MEASURE, T.SETFREQ_H0):
        return "cmd %d %d" % (t, c["arfcn"])
    if t == T.SETFREQ_H1:
        return "cmd %d %d %d %d %s" % (t, c["hsn"], c["maio"], len(c["ma"]), " ".join(str(a) for a in c["ma"]))
    if t == T.SETSLOT:
        return "cmd %d %d %d" % (t, c["tn"], c["pchan"])
    if t == T.SETTA:
        return "cmd %d %d" % (t, c["ta"])
    return "cmd %d" % t


def must_be_emitted(c):
    """commands inside the statement's promise (everything else: judged only when trxcon did emit it)"""
    t = c["type"]
    if t in (T.RESET, T.POWERON, T.POWEROFF):
        return True
    if t == T.SETTA:
        return True
    if t == T.SETSLOT:
        return c["tn"] <= 7 and 1 <= c["pchan"] <= 7          # the channel combinations every libosmocore generation names
    if t in (T.MEASURE, T.SETFREQ_H0):
        return c["arfcn"] in GSM900 or c["arfcn"] in DCS
    if t == T.SETFREQ_H1:
        ma = c["ma"]
        ok = all((a in GSM900 or a in DCS or a in PCS) for a in ma)
        return ok and 1 <= len(ma) and (len(ma) <= 62 or (len(ma) <= 64 and all(a in GSM900 for a in ma)))
    return False


class Conv:
    """one conversation with a fresh trx instance: a list of commands queued, then replies in order"""

    def __init__(self, cmds, statuses):
        self.cmds, self.statuses = cmds, statuses


def run(budget_s=20.0, seed=0):
    S = _c.Session(budget_s)
    with T.native(ctrl=True, data=False) as n:
        dlg = [_c.Dialog(n)]

        def batch(lines):
            """questions to the running harness (it keeps the trx instance between them); a crash restarts it"""
            outs = []
            for ln in lines:
                a, abort = dlg[0].ask(ln)
                if abort:
                    dlg[0].close()
                    dlg[0] = _c.Dialog(n)
                    return outs, abort
                outs.append(a)
            return outs, None

        def talk(conv):
            """run one conversation; the replies depend on what was emitted"""
            inp = {"commands": [dict(c, ma=c["ma"][:70]) if "ma" in c else c for c in conv.cmds], "reply_statuses": conv.statuses}
            outs, abort = batch(["new"] + [cmd_line(c) for c in conv.cmds])
            S.cases += 1
            if abort:
                S.fail("command emission (sanitizer / crash)", inp, abort["sanitizer"] or "exit %s %s" % (abort["rc"], abort["stderr"][-200:]), "returns normally")
                return "restart"
            expected_verbs = []
            first_sent = None
            for c, o in zip(conv.cmds, outs[1:]):
                g = _c.kv(o)
                if g.get("ret") != 0:
                    if must_be_emitted(c):
                        S.fail("command not emitted", dict(inp, command=c if "ma" not in c else dict(c, ma=c["ma"][:70])), {"ret": g.get("ret")}, {"ret": 0})
                        return None
                    continue
                expected_verbs += VERBS[c["type"]]
                if g.get("sent_n", 0) > 0 and first_sent is None:
                    first_sent = _c.unhex(g.get("sent", "-"))
                    if g.get("sent_n") != 1:
                        S.fail("more than one command outstanding", inp, {"datagrams_sent": g.get("sent_n")}, {"datagrams_sent": 1})
                        return None
            if not expected_verbs:
                return None
            if first_sent is None:
                S.fail("no command sent although the queue was empty", inp, "nothing on the CTRL socket", "first command sent")
                return None
            sent = first_sent
            pending = len(expected_verbs)
            for k, verb in enumerate(expected_verbs):
                # (1) well-formed command with the documented verb
                txt = bytes(sent)
                m = re.fullmatch(rb"CMD ([A-Z_]+)((?: -?[0-9]+)*)\x00", txt)
                if not m or m.group(1).decode() != verb:
                    S.fail("emitted datagram is not the documented command", dict(inp, position=k), {"datagram": txt[:120].decode("latin1")}, {"form": "CMD %s[ <int>]* NUL" % verb})
                    return None
                args = m.group(2).decode().split()
                src = [c for c in conv.cmds if verb in VERBS[c["type"]]]
                want_argc = ARGC.get(verb)
                if verb == "SETFH":
                    cands = [c for c in src if len(args) == 2 + 2 * len(c["ma"]) and args[:2] == [str(c["hsn"]), str(c["maio"])]]
                    if not cands:
                        S.fail("SETFH arguments", dict(inp, position=k), {"argc": len(args), "head": args[:4]}, "hsn maio + one rx/tx pair per channel")
                        return None
                elif len(args) != want_argc:
                    S.fail("%s argument count" % verb, dict(inp, position=k), {"args": args}, {"argc": want_argc})
                    return None
                if verb == "SETTA" and not any(args == [str(c["ta"])] for c in src):
                    S.fail("SETTA argument", dict(inp, position=k), {"args": args}, {"ta": [c["ta"] for c in src]})
                    return None
                if verb == "SETSLOT" and not any(args[0] == str(c["tn"]) for c in src):
                    S.fail("SETSLOT timeslot argument", dict(inp, position=k), {"args": args}, {"tn": [c["tn"] for c in src]})
                    return None
                # (2)/(3) the statement-form reply
                st = conv.statuses[k % len(conv.statuses)]
                res = ""
                if verb == "MEASURE":
                    res = " -%d" % (40 + 7 * k % 70)
                reply = ("RSP %s %d%s%s" % (verb, st, "".join(" " + a for a in args), res)).encode() + b"\0"
                outs, abort = batch(["feed " + _c.hexs(reply)])
                if abort or not outs:
                    S.fail("trx_ctrl_read_cb (sanitizer / crash)", dict(inp, reply=reply[:120].decode("latin1")), (abort or {}).get("sanitizer") or "no answer", "returns normally")
                    return "restart"
                g = _c.kv(outs[0])
                info = dict(inp, position=k, command=txt[:160].decode("latin1"), reply=reply[:160].decode("latin1"))
                if st == 0:
                    if g.get("ret") != 0 or g.get("qlen") != pending - 1 or g.get("term") != 0:
                        S.fail("reply with status 0 not accepted", info, {"ret": g.get("ret"), "pending": g.get("qlen"), "terminated": g.get("term")},
                               {"ret": 0, "pending": pending - 1, "terminated": 0})
                        return None
                    if verb == "MEASURE" and (g.get("nrsp") != 1 or g.get("rsp_dbm") != int(res)):
                        S.fail("MEASURE reply not turned into a measurement response", info, {"responses": g.get("nrsp"), "dbm": g.get("rsp_dbm")}, {"responses": 1, "dbm": int(res)})
                        return None
                else:
                    matched = (g.get("ret") == 0 and g.get("qlen") == pending - 1) or (g.get("term", 0) >= 1 and g.get("ret", 0) < 0)
                    if not matched:
                        S.fail("reply with an error status not matched to its command", info, {"ret": g.get("ret"), "pending": g.get("qlen"), "terminated": g.get("term")},
                               "accepted and dequeued, or the interface terminated")
                        return None
                    if g.get("term", 0) >= 1:
                        return None                 # the interface is being torn down: the conversation ends here
                pending -= 1
                if pending:
                    if g.get("sent_n") != 1:
                        S.fail("next queued command not sent after the reply", info, {"datagrams_sent": g.get("sent_n")}, {"datagrams_sent": 1})
                        return None
                    sent = _c.unhex(g.get("sent", "-"))
                elif g.get("sent_n", 0) != 0:
                    S.fail("datagram sent although no command is queued", info, {"datagrams_sent": g.get("sent_n")}, {"datagrams_sent": 0})
                    return None
            return None

        def convs_fixed():
            out = []
            for t in (T.RESET, T.POWERON, T.POWEROFF):
                out.append(Conv([{"type": t}], [0]))
                out.append(Conv([{"type": t}], [1]))
            for a in (0, 1, 62, 124, 975, 1023, 512, 600, 885):
                out.append(Conv([{"type": T.MEASURE, "arfcn": a}], [0]))
                out.append(Conv([{"type": T.SETFREQ_H0, "arfcn": a}], [0]))
            for a in (125, 128, 251, 259, 293, 306, 340, 438, 511, 886, 954, 955, 0x8000 | 512, 0x8000 | 810, 0x4000 | 1, 0x4000 | 512):
                out.append(Conv([{"type": T.MEASURE, "arfcn": a}], [0]))          # other bands / flags: judged only when emitted
                out.append(Conv([{"type": T.SETFREQ_H0, "arfcn": a}], [0]))
            for tn in range(8):
                for pc in range(0, 12):          # the enumerators of enum gsm_phys_chan_config
                    out.append(Conv([{"type": T.SETSLOT, "tn": tn, "pchan": pc}], [0]))
            for ta in (-128, -1, 0, 1, 63, 64, 127):
                out.append(Conv([{"type": T.SETTA, "ta": ta}], [0]))
            for band in (GSM900, DCS, PCS):
                for cnt in (1, 2, 8, 61, 62):
                    for hsn, maio in ((0, 0), (63, 63), (1, 17)):
                        out.append(Conv([{"type": T.SETFREQ_H1, "hsn": hsn, "maio": maio, "ma": band[:cnt]}], [0]))
            for cnt in (63, 64):
                out.append(Conv([{"type": T.SETFREQ_H1, "hsn": 63, "maio": 63, "ma": GSM900[-cnt:]}], [0]))
                out.append(Conv([{"type": T.SETFREQ_H1, "hsn": 63, "maio": 63, "ma": DCS[-cnt:]}], [0]))       # may be refused: judged only when emitted
            out.append(Conv([{"type": T.SETFREQ_H1, "hsn": 5, "maio": 3, "ma": GSM900[:64]}], [12]))
            out.append(Conv([{"type": T.RESET}, {"type": T.SETFREQ_H0, "arfcn": 33}, {"type": T.SETSLOT, "tn": 2, "pchan": 1}, {"type": T.POWERON},
                             {"type": T.MEASURE, "arfcn": 44}, {"type": T.SETTA, "ta": 3}], [0]))
            out.append(Conv([{"type": T.MEASURE, "arfcn": 10}, {"type": T.SETTA, "ta": 1}, {"type": T.SETSLOT, "tn": 1, "pchan": 3}], [1, 0, 12]))
            out.append(Conv([{"type": T.POWERON}], [-1]))
            return out

        for cv in convs_fixed():
            if len(S.failures) >= 5:
                break
            talk(cv)
        rnd = random.Random(seed)
        while S.more():
            cmds = []
            for _ in range(rnd.randrange(1, 7)):
                t = rnd.randrange(8)
                c = {"type": t}
                if t in (T.MEASURE, T.SETFREQ_H0):
                    c["arfcn"] = rnd.choice(GSM900 + DCS)
                elif t == T.SETFREQ_H1:
                    band = rnd.choice((GSM900, DCS, PCS, GSM900 + DCS))
                    c.update(hsn=rnd.randrange(64), maio=rnd.randrange(64), ma=rnd.sample(band, rnd.randrange(1, 65)))
                elif t == T.SETSLOT:
                    c.update(tn=rnd.randrange(8), pchan=rnd.randrange(1, 8))
                elif t == T.SETTA:
                    c["ta"] = rnd.randrange(-128, 128)
                cmds.append(c)
            talk(Conv(cmds, [0] if rnd.random() < 0.7 else [rnd.choice((0, 0, 1, 2, 12, 255, -1)) for _ in range(4)]))
        dlg[0].close()
    return S.result()

"""C12 - bounded native oracle: power state, child transceivers and clock distribution stay consistent.

Configurations are built either by the real fake_trx.Application (sys.argv with --trx definitions; sockets are recorders, SIGINT
registration and the logging handler it installs are undone) or wired by hand from real FakeTRX / CLCKGen objects (shared generator,
individual generators, clock-less parents, managed and unmanaged children).  No clock thread ever runs: the `threading` name inside
clck_gen is replaced by a shim whose Thread only remembers whether it was started / joined, so the real CLCKGen.start() / stop() execute.

A history is a sequence of TRXC commands written to the CTRL sockets (POWERON, POWEROFF, RXTUNE, TXTUNE, SETFH), direct
power_event_handler(True/False) calls, bursts written by the L1 to DATA sockets (they are queued while running) and clock ticks with a
recording forwarder.  After EVERY event the whole configuration is compared with a model written from the statement:
  * running(t) iff the last effective power command for t (own, or the parent's when t is a managed child of a parent with child_idx 0)
    was a successful POWERON; POWERON answers -1 and changes nothing when t is already running or not ready (neither both
    frequencies tuned nor hopping configured), else 0; POWEROFF always answers 0;
  * for every generator: it runs iff at least one clock-owning transceiver attached to it is running, and one
    send_clck_ind() at a frame that is a multiple of the indication period makes exactly the CLCK sockets of the running owners send
    exactly one 'IND CLOCK <fn>' to <remote>:<base+100>;
  * after POWEROFF every switched-off transceiver has forgotten hopping (get_rx_freq / get_tx_freq give the tuned values for any FN,
    `fh` is None, a transceiver that was ready only through SETFH refuses POWERON) and its queued bursts (later ticks emit nothing);
    queues of transceivers that were not addressed survive;
  * ports: CTRL bound to base+1+2*idx talking to base+101+2*idx, DATA base+2+2*idx -> base+102+2*idx, CLCK (clock owners only) base -> base+100;
    a child transceiver with its own clock generator is refused (TypeError)."""
import sys, io, time, random, threading as _threading, signal as _signal, logging, contextlib
from oracles import _um
from oracles._um import ctrl, enc_l1, ref_mai
from engine.pyvc.harness import toolkit

BOUND = ("Fixed part (< 1 s): the seeded demonstration (Application with one BTS child, 11 power commands); the port plan for base ports "
         "{5700, 6700, 1024, 65000} x child index 0..3 with and without clock generator, child with clock refused; unmanaged MS child; managed and "
         "unmanaged children with queued bursts across parent POWEROFF/POWERON; hopping forgotten (SETFH-only readiness); repeated direct "
         "power_event_handler(True/False); individual generators per transceiver; a clock-less parent. Budgeted part: seeded random configurations "
         "(60 % through Application with 0..4 --trx definitions: named or unnamed BTS/MS children index 1..3 and additional named parents with children; 40 % hand-wired "
         "with shared / individual / no generator and random child management, 2..6 transceivers) and random histories of 30 events (POWERON 28 %, POWEROFF 24 %, "
         "RXTUNE/TXTUNE 12 %, SETFH 8 %, direct handler 6 %, L1 burst 14 %, tick 8 %) followed by a drain phase (everybody tuned and powered on again, "
         "every frame of the queue window ticked); the complete model comparison runs after each event (about 4000 histories of about 60 commands / bursts + 250 drain ticks each per 10 s). "
         "Not covered: real sockets and threads (thread start/stop are assumed to make CLCKGen.running true/false), concurrent CTRL vs clock thread.")

WINDOW = 40          # queued bursts live in frames C+5 .. C+5+WINDOW, C = frame of the clock indication check


# ------------------------------------------------------------------------------------------------------------------- shims
class FakeThread:
    def __init__(self, *a, **k):
        self.alive, self.daemon, self.name = False, False, "fake"

    def start(self):
        if self.alive:
            raise RuntimeError("threads can only be started once")
        self.alive = True

    def join(self, timeout=None):
        self.alive = False       # stop() has set the breaker event: the worker loop would end

    def is_alive(self):
        return self.alive


class ThreadingShim:
    Thread = FakeThread

    def __getattr__(self, name):
        return getattr(_threading, name)


class SignalShim:
    def signal(self, *a):
        return None

    def __getattr__(self, name):
        return getattr(_signal, name)


class RecFwd:
    """stands for the burst forwarder in clock ticks: records what a transceiver emits"""

    def __init__(self):
        self.rec = []

    def forward_msg(self, src, msg):
        self.rec.append((src, msg.fn, msg.tn))


# ---------------------------------------------------------------------------------------------------------------- building
def spec(name, base, idx=0, parent=None, mgt=True, gen=0):
    """gen: index of the clock generator the transceiver owns a link of, None = no clock (children never have one)"""
    return {"name": name, "base": base, "idx": idx, "parent": parent, "mgt": mgt, "gen": gen if idx == 0 else None}


def build_app(defs):
    """the real Application; defs = [(name, base, idx)] in --trx order; returns (specs, objs, gens)"""
    ft = toolkit("fake_trx")
    argv = ["fake_trx"]
    specs = [spec("BTS", 5700), spec("MS", 6700, mgt=False)]
    for name, base, idx in defs:
        d = "127.0.0.1:%d%s" % (base, "/%d" % idx if idx else "")
        argv += ["--trx", d if name is None else name + "@" + d]
        name = d if name is None else name
        parent = None
        if idx:
            parent = [i for i, s in enumerate(specs) if s["base"] == base and s["idx"] == 0][0]
        specs.append(spec(name, base, idx, parent))
    old_argv, old_handlers, old_level = sys.argv, list(logging.root.handlers), logging.root.level
    sys.argv = argv
    try:
        with contextlib.redirect_stdout(io.StringIO()):
            app = ft.Application()
    finally:
        sys.argv = old_argv
        for h in list(logging.root.handlers):
            if h not in old_handlers:
                logging.root.removeHandler(h)
        logging.root.setLevel(old_level)
    objs = []
    for s in specs:
        o = app.trx_list.find_trx("127.0.0.1", s["base"], s["idx"])
        if o is None:
            raise RuntimeError("transceiver %s missing from the application's list" % s["name"])
        objs.append(o)
    if len(app.trx_list.trx_list) != len(specs):
        raise RuntimeError("application has %d transceivers, %d defined" % (len(app.trx_list.trx_list), len(specs)))
    return specs, objs, [app.clck_gen], {"argv": argv}


def build_wired(specs, ngens):
    ft, cg = toolkit("fake_trx"), toolkit("clck_gen")
    gens = [cg.CLCKGen([]) for _ in range(ngens)]
    objs = []
    for s in specs:
        kw = {"name": s["name"]}
        if s["idx"]:
            kw["child_idx"] = s["idx"]
        if not s["mgt"]:
            kw["child_mgt"] = False
        if s["gen"] is not None:
            kw["clck_gen"] = gens[s["gen"]]
        objs.append(ft.FakeTRX("0.0.0.0", "127.0.0.1", s["base"], **kw))
    for s, o in zip(specs, objs):
        if s["parent"] is not None:
            objs[s["parent"]].child_trx_list.add_trx(o)
    return specs, objs, gens, {"wired": specs, "generators": ngens}


# --------------------------------------------------------------------------------------------------------------- the model
class World:
    def __init__(self, built, C=102 * 7):
        self.specs, self.objs, self.gens, self.desc = built
        n = len(self.specs)
        self.on = [False] * n
        self.rx = [None] * n
        self.tx = [None] * n
        self.fh = [None] * n
        self.q = [[] for _ in range(n)]          # queued (fn, tn)
        self.log = []
        self.C = C
        self.tn = 0

    def targets(self, i):
        s = self.specs[i]
        if s["idx"] == 0 and s["mgt"]:
            return [i] + [j for j, c in enumerate(self.specs) if c["parent"] == i]
        return [i]

    def power(self, i, on):
        for j in self.targets(i):
            self.on[j] = on
            if not on:
                self.fh[j] = None
                self.q[j] = []
        return self.targets(i)

    def ready(self, i):
        return (self.rx[i] is not None and self.tx[i] is not None) or self.fh[i] is not None

    # ---- events; each returns None or (what, observed, expected)
    def do(self, ev, light=False):
        kind, i = ev[0], ev[1]
        name = self.specs[i]["name"]
        o = self.objs[i]
        off_targets = []
        if kind == "cmd":
            line = ev[2]
            self.log.append("%s: CMD %s" % (name, line))
            verb = line.split(" ")[0]
            if verb == "POWERON":
                want = -1 if (self.on[i] or not self.ready(i)) else 0
                if want == 0:
                    self.power(i, True)
            elif verb == "POWEROFF":
                want = 0
                off_targets = self.power(i, False)
            elif verb == "RXTUNE":
                want, self.rx[i] = 0, int(line.split(" ")[1])
            elif verb == "TXTUNE":
                want, self.tx[i] = 0, int(line.split(" ")[1])
            elif verb == "SETFH":
                a = [int(x) for x in line.split(" ")[1:]]
                want, self.fh[i] = 0, (a[0], a[1], list(zip(a[2::2], a[3::2])))
            st, fields, raw = ctrl(o, line)
            if st != want:
                return ("status of %s" % verb, {"status": st, "response": fields}, {"status": want})
            if len(raw) != 1 or raw[0][1] != _um.L1_ADDR:
                return ("response of %s" % verb, [r[1] for r in raw], "one response to the sender of the command")
        elif kind == "handler":
            self.log.append("%s: power_event_handler(%s)" % (name, ev[2]))
            t = self.power(i, ev[2])
            if not ev[2]:
                off_targets = t
            o.power_event_handler(ev[2])
        elif kind == "l1":
            fn = ev[2]
            self.tn = (self.tn + 1) % 8
            self.log.append("%s: L1 sends a burst for fn=%d tn=%d" % (name, fn, self.tn))
            o.data_if.sock.inbox.append((enc_l1(0, self.tn, fn, 0, bytes(148)), _um.L1_ADDR))
            o.recv_data_msg()
            if self.on[i]:
                self.q[i].append((fn, self.tn))
        elif kind == "tick":
            fn = ev[2]
            if not light:
                self.log.append("%s: clck_tick(fn=%d)" % (name, fn))
            fwd = RecFwd()
            o.clck_tick(fwd, fn)
            exp = sorted((f, t) for f, t in self.q[i] if f == fn) if self.on[i] else []
            if self.on[i]:
                self.q[i] = [(f, t) for f, t in self.q[i] if f > fn]
            got = sorted((f, t) for s, f, t in fwd.rec)
            if got != exp or any(s is not o for s, _, _ in fwd.rec):
                if light:
                    self.log.append("(after ticking every earlier frame of the window on every transceiver) %s: clck_tick(fn=%d)" % (name, fn))
                return ("bursts emitted by the tick", got, exp)
            if light:
                return None
        return self.check(off_targets)

    def check(self, off_targets=()):
        # power state
        got = [bool(o.running) for o in self.objs]
        if got != self.on:
            return ("running", dict(zip([s["name"] for s in self.specs], got)), dict(zip([s["name"] for s in self.specs], self.on)))
        # hopping forgotten by those that were switched off
        for j in off_targets:
            o = self.objs[j]
            for fn in (0, 1, 51 * 26 + 7, 2715647):
                g = (o.get_rx_freq(fn), o.get_tx_freq(fn))
                e = (None if self.rx[j] is None else self.rx[j] * 1000, None if self.tx[j] is None else self.tx[j] * 1000)
                if g != e:
                    return ("frequencies of %s after POWEROFF (hopping must be forgotten)" % self.specs[j]["name"], {"fn": fn, "rx, tx": g}, {"rx, tx": e})
            if getattr(o, "fh", None) is not None:
                return ("fh of %s after POWEROFF" % self.specs[j]["name"], repr(o.fh), None)
        # clock generators and clock indications
        for g, gen in enumerate(self.gens):
            owners = [j for j, s in enumerate(self.specs) if s["gen"] == g]
            exp_run = any(self.on[j] for j in owners)
            if bool(gen.running) != exp_run:
                return ("clock generator %d running" % g, bool(gen.running), exp_run)
            if not exp_run:
                continue
            for j in owners:
                del self.objs[j].clck_if.sock.sent[:]
            gen.clck_src = self.C
            gen.send_clck_ind()
            gotc = {self.specs[j]["name"]: [(d.decode(errors="replace"), a) for d, a in self.objs[j].clck_if.sock.sent] for j in owners}
            gotc = {k: v for k, v in gotc.items() if v}
            expc = {self.specs[j]["name"]: [("IND CLOCK %d\0" % self.C, ("127.0.0.1", self.specs[j]["base"] + 100))] for j in owners if self.on[j]}
            if gotc != expc:
                return ("clock indications of generator %d" % g, gotc, expc)
        return None


def check_ports(specs, objs):
    for s, o in zip(specs, objs):
        base, idx = s["base"], s["idx"]
        links = [("CTRL", o.ctrl_if, base + 1 + 2 * idx, base + 101 + 2 * idx), ("DATA", o.data_if, base + 2 + 2 * idx, base + 102 + 2 * idx)]
        if s["gen"] is not None:
            links.append(("CLCK", o.clck_if, base, base + 100))
        elif getattr(o, "clck_gen", None) is not None:
            return ("clock of " + s["name"], "has a clock generator", "none")
        for nm, link, lport, rport in links:
            n = len(link.sock.sent)
            link.send(b"x")
            sent = link.sock.sent[n:]
            del link.sock.sent[n:]
            got = {"bound": tuple(link.sock.bound), "sends to": [a for _, a in sent]}
            exp = {"bound": ("0.0.0.0", lport), "sends to": [("127.0.0.1", rport)]}
            if got != exp:
                return ("%s link of %s (base %d, child index %d)" % (nm, s["name"], base, idx), got, exp)
    return None


def play(builder, history, fails, tag, drain=True):
    """returns number of events executed"""
    try:
        W = World(builder())
    except Exception as e:
        fails.append({"what": tag + ": building the configuration raised", "input": tag, "observed": repr(e), "expected": "no exception"})
        return 1
    n = 0

    def fail(res):
        fails.append({"what": tag + ": " + res[0], "input": {"configuration": W.desc, "history": list(W.log)}, "observed": res[1], "expected": res[2]})

    try:
        res = check_ports(W.specs, W.objs) or W.check()
        if res:
            fail(res)
            return 1
        events = list(history)
        for ev in events:
            n += 1
            res = W.do(ev)
            if res:
                fail(res)
                return n
        if drain:
            # everybody tuned and on again, then every frame of the window: exactly the surviving queue entries come out
            for i in range(len(W.specs)):
                for ev in (("cmd", i, "RXTUNE 935000"), ("cmd", i, "TXTUNE 890000")) + ((("cmd", i, "POWERON"),) if not W.on[i] else ()):
                    n += 1
                    res = W.do(ev)
                    if res:
                        fail(res)
                        return n
            for fn in range(W.C + 1, W.C + 5 + WINDOW + 2):
                for i in range(len(W.specs)):
                    n += 1
                    res = W.do(("tick", i, fn), light=True)
                    if res:
                        fail(res)
                        return n
    except Exception as e:
        fails.append({"what": tag + ": exception escaped", "input": {"configuration": W.desc, "history": list(W.log)}, "observed": repr(e), "expected": "no exception"})
    return n


# --------------------------------------------------------------------------------------------------------------- scenarios
def fixed_cases(fails):
    n = 0
    C = 102 * 7
    Q = C + 5
    tune = lambda i: [("cmd", i, "RXTUNE 935000"), ("cmd", i, "TXTUNE 890000")]
    # the independent demonstration
    h = tune(0) + tune(1) + tune(2) + [("cmd", 0, "POWERON"), ("cmd", 1, "POWERON"), ("cmd", 1, "POWERON"), ("cmd", 1, "POWEROFF"), ("cmd", 1, "POWEROFF"), ("cmd", 2, "POWEROFF"),
                                       ("cmd", 1, "POWERON"), ("cmd", 0, "POWEROFF"), ("cmd", 1, "POWEROFF"), ("cmd", 0, "POWERON"), ("cmd", 0, "POWEROFF")]
    n += play(lambda: build_app([(None, 5700, 1)]), h, fails, "demo")
    # port plan
    ft = toolkit("fake_trx")
    cg = toolkit("clck_gen")
    for base in (5700, 6700, 1024, 65000):
        for idx in range(4):
            for clock in (False, True):
                n += 1
                inp = {"base_port": base, "child_idx": idx, "clck_gen": clock}
                try:
                    o = ft.FakeTRX("0.0.0.0", "127.0.0.1", base, child_idx=idx, **({"clck_gen": cg.CLCKGen([])} if clock else {}))
                except TypeError as e:
                    if not (clock and idx > 0):
                        fails.append({"what": "port plan: constructor raised", "input": inp, "observed": repr(e), "expected": "a transceiver"})
                    continue
                except Exception as e:
                    fails.append({"what": "port plan: constructor raised", "input": inp, "observed": repr(e), "expected": "TypeError iff child with own clock"})
                    continue
                if clock and idx > 0:
                    fails.append({"what": "port plan: child transceiver with its own clock accepted", "input": inp, "observed": "constructed", "expected": "TypeError"})
                    continue
                s = spec("T", base, idx)
                s["gen"] = 0 if clock else None
                res = check_ports([s], [o])
                if res:
                    fails.append({"what": "port plan: " + res[0], "input": inp, "observed": res[1], "expected": res[2]})
    if len(fails) >= 5:
        return n
    # unmanaged MS child, managed BTS children, queued bursts across the parent's POWEROFF
    defs = [("BTS1", 5700, 1), ("MS1", 6700, 1), ("BTS2", 5700, 2)]
    h = tune(0) + tune(1) + tune(3) + [("cmd", 1, "POWERON"), ("cmd", 3, "POWERON"), ("cmd", 0, "POWERON"), ("l1", 0, Q), ("l1", 2, Q + 1), ("l1", 4, Q + 2), ("l1", 1, Q), ("l1", 3, Q + 3),
                                       ("cmd", 1, "POWEROFF"), ("cmd", 0, "POWEROFF"), ("cmd", 0, "POWERON"), ("cmd", 1, "POWERON"), ("cmd", 1, "POWERON"), ("cmd", 2, "POWERON"),
                                       ("cmd", 2, "POWEROFF"), ("cmd", 0, "POWEROFF"), ("cmd", 3, "POWEROFF"), ("cmd", 1, "POWEROFF"), ("cmd", 4, "POWERON"), ("cmd", 1, "POWERON")]
    n += play(lambda: build_app(defs), h, fails, "children of BTS and MS")
    # the same by hand with the BTS not managing its children
    sp = [spec("BTS", 5700, mgt=False), spec("MS", 6700), spec("BTS1", 5700, 1, 0), spec("MS1", 6700, 1, 1)]
    h = tune(0) + tune(1) + tune(2) + [("cmd", 2, "POWERON"), ("l1", 2, Q), ("cmd", 0, "POWERON"), ("l1", 0, Q + 1), ("cmd", 0, "POWEROFF"), ("cmd", 0, "POWERON"), ("cmd", 1, "POWERON"),
                                       ("l1", 3, Q + 2), ("l1", 1, Q + 2), ("cmd", 1, "POWEROFF"), ("cmd", 1, "POWERON")]
    n += play(lambda: build_wired(sp, 1), h, fails, "unmanaged BTS child / managed MS child")
    # hopping forgotten: ready only through SETFH
    h = [("cmd", 0, "POWERON"), ("cmd", 0, "SETFH 5 1 935000 890000 935200 890200 935400 890400"), ("cmd", 0, "POWERON"), ("cmd", 0, "POWERON"), ("cmd", 0, "POWEROFF"), ("cmd", 0, "POWERON"),
         ("cmd", 1, "RXTUNE 935000"), ("cmd", 1, "POWERON"), ("cmd", 1, "SETFH 0 0 935000 890000 935200 890200"), ("cmd", 1, "POWERON"), ("cmd", 1, "TXTUNE 890000"), ("cmd", 1, "POWEROFF"),
         ("cmd", 1, "POWERON"), ("cmd", 0, "SETFH 63 2 935000 890000 935200 890200 935400 890400"), ("cmd", 0, "POWERON"), ("handler", 0, False), ("cmd", 0, "POWERON")]
    n += play(lambda: build_app([]), h, fails, "hopping forgotten")
    n += play(lambda: build_app([("X", 5800, 0), ("X1", 5800, 1)]), h + tune(2) + [("cmd", 2, "POWERON"), ("cmd", 3, "SETFH 1 0 935000 890000"), ("cmd", 2, "POWEROFF"), ("cmd", 3, "POWERON")], fails,
              "hopping forgotten (additional parent)")
    # direct handler calls, repeated
    h = tune(0) + [("handler", 0, True), ("handler", 0, True), ("handler", 1, True), ("handler", 1, True), ("handler", 0, False), ("handler", 0, False), ("handler", 1, True), ("handler", 1, False),
                   ("handler", 1, False), ("handler", 2, True), ("handler", 2, True), ("handler", 0, True), ("handler", 2, False), ("handler", 0, False)]
    n += play(lambda: build_app([("BTS1", 5700, 1)]), h, fails, "direct power_event_handler")
    # individual generators, a clock-less parent with a child
    sp = [spec("A", 5700, gen=0), spec("B", 6700, gen=1), spec("N", 7700, gen=None), spec("N1", 7700, 1, 2), spec("A1", 5700, 1, 0)]
    h = tune(0) + tune(1) + tune(2) + [("cmd", 0, "POWERON"), ("cmd", 2, "POWERON"), ("cmd", 1, "POWERON"), ("cmd", 0, "POWEROFF"), ("cmd", 2, "POWEROFF"), ("cmd", 1, "POWEROFF"), ("cmd", 3, "POWERON"),
                                       ("handler", 3, True), ("handler", 4, True), ("cmd", 0, "POWERON"), ("cmd", 4, "POWEROFF"), ("cmd", 0, "POWEROFF")]
    n += play(lambda: build_wired(sp, 2), h, fails, "individual generators")
    return n


def random_config(r):
    if r.random() < 0.6:
        defs, parents, kids = [], {5700: "BTS", 6700: "MS"}, {5700: 0, 6700: 0}
        for _ in range(r.randint(0, 4)):
            if r.random() < 0.65:
                base = r.choice(sorted(parents))
                if kids[base] >= 3:
                    continue
                kids[base] += 1
                defs.append((("%s%d" % (parents[base], kids[base])) if r.random() < 0.7 else None, base, kids[base]))
            else:
                base = 5800 + 100 * len(parents)
                parents[base] = "X%d" % len(parents)
                kids[base] = 0
                defs.append((parents[base], base, 0))
        return lambda: build_app(defs)
    n = r.randint(2, 6)
    ngens = r.choice((1, 1, 2, 3))
    sp = []
    while len(sp) < n:
        par = [i for i, s in enumerate(sp) if s["idx"] == 0]
        if par and r.random() < 0.5:
            p = r.choice(par)
            k = 1 + sum(1 for s in sp if s["parent"] == p)
            sp.append(spec("%s/%d" % (sp[p]["name"], k), sp[p]["base"], k, p))
        else:
            sp.append(spec("P%d" % len(sp), 5700 + 1000 * len(sp), mgt=r.random() < 0.6, gen=(r.randrange(ngens) if r.random() < 0.85 else None)))
    return lambda: build_wired(sp, ngens)


def random_history(r, n, C):
    ev = []
    for i in range(n):            # some are tuned from the start
        x = r.random()
        if x < 0.6:
            ev += [("cmd", i, "RXTUNE %d" % r.choice((935000, 935200))), ("cmd", i, "TXTUNE %d" % r.choice((890000, 890200)))]
        elif x < 0.7:
            ev += [("cmd", i, "RXTUNE 935000")]
    for _ in range(30):
        i = r.randrange(n)
        x = r.random()
        if x < 0.28:
            ev.append(("cmd", i, "POWERON"))
        elif x < 0.52:
            ev.append(("cmd", i, "POWEROFF"))
        elif x < 0.64:
            ev.append(("cmd", i, "%s %d" % (r.choice(("RXTUNE", "TXTUNE")), r.choice((935000, 935200, 890000)))))
        elif x < 0.72:
            k = r.randint(1, 4)
            ev.append(("cmd", i, "SETFH %d %d %s" % (r.randint(0, 63), r.randrange(k), " ".join("%d %d" % (935000 + 200 * j, 890000 + 200 * j) for j in range(k)))))
        elif x < 0.78:
            ev.append(("handler", i, r.random() < 0.5))
        elif x < 0.92:
            ev.append(("l1", i, C + 5 + r.randrange(WINDOW)))
        else:
            ev.append(("tick", i, None))
    # ticks must move forward in time: give them increasing frames inside the window
    ticks = [k for k, e in enumerate(ev) if e[0] == "tick"]
    fns = sorted(r.sample(range(C + 1, C + 5 + WINDOW), len(ticks))) if ticks else []
    for k, fn in zip(ticks, fns):
        ev[k] = ("tick", ev[k][1], fn)
    # a burst queued for a frame that has already been ticked would be stale (C03's business): move it ahead of the last tick
    last = {}
    out = []
    for e in ev:
        if e[0] == "tick":
            last[e[1]] = e[2]
        if e[0] == "l1" and e[2] <= last.get(e[1], -1):
            e = ("l1", e[1], last[e[1]] + 1 + r.randrange(3))
        out.append(e)
    return out


def run(budget_s=20.0, seed=0):
    t0 = time.time()
    P = _um.Patches()
    fails, cases, k = [], 0, 0
    try:
        P.setattr(toolkit("clck_gen"), "threading", ThreadingShim())
        P.setattr(toolkit("fake_trx"), "signal", SignalShim())
        cases += fixed_cases(fails)
        r = random.Random(seed)
        while time.time() - t0 < budget_s and len(fails) < 5:
            k += 1
            builder = random_config(r)
            nn = len(builder()[0])
            cases += play(builder, random_history(r, nn, 102 * 7), fails, "random configuration #%d (seed %d)" % (k, seed))
    finally:
        P.restore()
    return {"cases": cases, "failures": _um.fit(fails), "histories": k}

"""python3-vt -m oracles.run <ID> [--budget S] [--seed N] : run one native oracle against $VERIF_REPO, print JSON, exit 0 (no failure) / 1 (failure found) / 3 (oracle crashed)"""
import sys, json, importlib, argparse, time, traceback


def run_oracle(pid, budget=20.0, seed=0):
    mod = importlib.import_module("oracles." + pid)
    t0 = time.time()
    res = mod.run(budget_s=budget, seed=seed)
    res["bound"] = getattr(mod, "BOUND", "")
    res["seconds"] = round(time.time() - t0, 2)
    return res


def main():
    ap = argparse.ArgumentParser()
    ap.add_argument("prop")
    ap.add_argument("--budget", type=float, default=20.0)
    ap.add_argument("--seed", type=int, default=0)
    a = ap.parse_args()
    try:
        res = run_oracle(a.prop, a.budget, a.seed)
    except Exception:
        print(json.dumps({"crash": traceback.format_exc()[-3000:]}))
        return 3
    print(json.dumps(res, indent=1, default=str)[:20000])
    return 1 if res.get("failures") else 0


if __name__ == "__main__":
    sys.exit(main())

"""C06 oracle: the sercomm serial framing (HDLC-like), written from the statement of C06.

  frame(d, P) = 7E . esc(d) . esc(03) . esc(P[0]) ... esc(P[n-1]) . 7E
  esc(b)      = 7D (b xor 20)   if b in {7E, 7D, 00}      else b
so that between the opening and the closing flag no 7E and no 00 occurs unescaped.  A receiver that is in sync
delivers (d, P) to the handler of DLCI d for every frame; octets between frames that are not 7E are ignored.
"""
import z3

FLAG, ESCAPE, CTRL_UI = 0x7E, 0x7D, 0x03


def needs_escape(b):
    if isinstance(b, int):
        return b in (FLAG, ESCAPE, 0)
    return z3.Or(b == FLAG, b == ESCAPE, b == 0)


def xor20(b):
    """b xor 0x20 for an octet"""
    if isinstance(b, int):
        return b ^ 0x20
    return z3.If((b / 32) % 2 == 1, b - 32, b + 32)


# ---------------------------------------------------------------- concrete reference

def frame(dlci, payload):
    out = [FLAG]
    for b in [dlci, CTRL_UI] + list(payload):
        if needs_escape(b):
            out += [ESCAPE, b ^ 0x20]
        else:
            out.append(b)
    return out + [FLAG]


def ideal_receive(stream):
    """what a receiver in sync must deliver for a stream of frames (garbage without 7E between frames ignored)"""
    out, i, n = [], 0, len(stream)
    while i < n:
        if stream[i] != FLAG:
            i += 1
            continue
        i += 1
        body = []
        while i < n and stream[i] != FLAG:
            if stream[i] == ESCAPE and i + 1 < n:
                body.append(stream[i + 1] ^ 0x20)
                i += 2
            else:
                body.append(stream[i])
                i += 1
        if i >= n:
            break
        i += 1
        if len(body) >= 2:
            out.append((body[0], body[2:]))
    return out


def scan_transmitter_output(stream):
    """The statement's grammar of what a transmitter may put on the wire, as a scanner: frames  7E body 7E  back to back; inside a body every
    octet is either plain (then it is neither 7E nor 00; 7D is the escape marker) or the pair 7D x with x neither 7E nor 00, standing for
    x xor 20.  Which octets beyond {7E, 7D, 00} an implementation escapes is its own choice.
    -> (list of decoded bodies, None) or (bodies so far, (index, what is wrong))"""
    frames, i, n = [], 0, len(stream)
    while i < n:
        if stream[i] != FLAG:
            return frames, (i, "octet %02x outside a frame (expected the opening flag)" % stream[i])
        i += 1
        body = []
        while True:
            if i >= n:
                return frames, None if not body and False else (i, "wire ends inside a frame")
            b = stream[i]
            if b == FLAG:
                i += 1
                break
            if b == 0:
                return frames, (i, "unescaped zero octet inside a frame")
            if b == ESCAPE:
                if i + 1 >= n:
                    return frames, (i, "wire ends after an escape marker")
                x = stream[i + 1]
                if x in (FLAG, 0):
                    return frames, (i + 1, "octet %02x after the escape marker" % x)
                body.append(x ^ 0x20)
                i += 2
            else:
                body.append(b)
                i += 1
        frames.append(body)
    return frames, None

"""Octet layouts of the declarative TRXD PDUs (versions 0, 1, 2), written from the TRXD protocol description
(header bit layout: VER(4) RES(1) TN(3); v2 second octet BATCH(1) SHADOW|RES(1) TRXN(6); MTS = NOPE(1) MOD(4) TSC(3);
 Rx: RSSI (negated), ToA256 int16 BE, v1/v2 C/I int16 BE; Tx: PWR, v2 SCPIR int8 + 3 RFU octets; FN uint32 BE;
 burst length by modulation; batched v2 sub-PDUs repeat [hdr(2) MTS meta burst] with VER bits reserved and no FN).

`v` maps field names (as used by trxd_proto) to integer terms. Functions return the list of header octet terms;
the burst / padding octets follow unchanged."""
import z3

GMSK = 148


def burst_len(mod):
    """burst length by the 4-bit modulation code (python int 0..15); None = code not defined by the protocol"""
    if mod >> 2 == 0b00:
        return 1 * GMSK          # GMSK, 4 TSC sets
    if mod >> 1 == 0b010:
        return 3 * GMSK          # 8-PSK
    if mod >> 1 == 0b011:
        return 1 * GMSK          # GMSK access burst (0b0110; 0b0111 = the same with TSC set 1 as the message codec emits it)
    if mod >> 1 == 0b100:
        return 4 * GMSK          # 16QAM
    if mod >> 1 == 0b101:
        return 5 * GMSK          # 32QAM
    if mod >> 2 == 0b11:
        return 2 * GMSK          # AQPSK
    return None


def u16(x):
    return z3.If(x < 0, x + 65536, x)


def be32(x):
    return [(x / 16777216) % 256, (x / 65536) % 256, (x / 256) % 256, x % 256]


def be16s(x):
    u = u16(x)
    return [u / 256, u % 256]


def s8(x):
    return z3.If(x < 0, x + 256, x)


def mts(v):
    return v["nope"] * 128 + v["mod"] * 8 + v["tsc"]


def hdr(name, v, batched=False):
    if name == "PDUv0Rx":
        return [0 * 16 + v["tn"]] + be32(v["fn"]) + [-v["rssi"]] + be16s(v["toa256"])
    if name == "PDUv0Tx":
        return [0 * 16 + v["tn"]] + be32(v["fn"]) + [v["pwr"]]
    if name == "PDUv1Rx":
        return [1 * 16 + v["tn"]] + be32(v["fn"]) + [-v["rssi"]] + be16s(v["toa256"]) + [mts(v)] + be16s(v["cir"])
    if name == "PDUv1Tx":
        return [1 * 16 + v["tn"]] + be32(v["fn"]) + [v["pwr"]]
    if name == "PDUv2Rx":
        o0 = (0 if batched else 2 * 16) + v["tn"]
        o1 = v["batch"] * 128 + (v["shadow"] * 64 if batched else 0) + v["trxn"]
        return [o0, o1, mts(v), -v["rssi"]] + be16s(v["toa256"]) + be16s(v["cir"]) + ([] if batched else be32(v["fn"]))
    if name == "PDUv2Tx":
        o0 = (0 if batched else 2 * 16) + v["tn"]
        o1 = v["batch"] * 128 + (v["shadow"] * 64 if batched else 0) + v["trxn"]
        return [o0, o1, mts(v), v["pwr"], s8(v["scpir"]), 0, 0, 0] + ([] if batched else be32(v["fn"]))
    raise KeyError(name)


RANGES = {"tn": (0, 7), "fn": (0, 2 ** 32 - 1), "rssi": (-255, 0), "toa256": (-32768, 32767), "cir": (-32768, 32767), "pwr": (0, 255),
          "scpir": (-128, 127), "nope": (0, 1), "mod": (0, 15), "tsc": (0, 7), "batch": (0, 1), "shadow": (0, 1), "trxn": (0, 63)}

FIELDS = {"PDUv0Rx": ["tn", "fn", "rssi", "toa256"], "PDUv0Tx": ["tn", "fn", "pwr"],
          "PDUv1Rx": ["tn", "fn", "rssi", "toa256", "nope", "mod", "tsc", "cir"], "PDUv1Tx": ["tn", "fn", "pwr"],
          "PDUv2Rx": ["tn", "batch", "trxn", "nope", "mod", "tsc", "rssi", "toa256", "cir", "fn"],
          "PDUv2Tx": ["tn", "batch", "trxn", "nope", "mod", "tsc", "pwr", "scpir", "fn"],
          "PDUv2Rx.BPDU": ["tn", "batch", "shadow", "trxn", "nope", "mod", "tsc", "rssi", "toa256", "cir"],
          "PDUv2Tx.BPDU": ["tn", "batch", "shadow", "trxn", "nope", "mod", "tsc", "pwr", "scpir"]}

"""C13 oracle: the protocol value ranges, written from the property statement (not from the code).

A message view `m` has: cls ('tx'|'rx'), ver (z3 Int), fn/tn/pwr/rssi/toa256/tsc/tsc_set/ci (Opt),
nope (z3 Bool), mod (python value: a Modulation member, None, or anything else),
burst (Opt whose val is the burst length as z3 Int).
All functions return z3 Bool; with concrete views (IntVal/BoolVal) they simplify to true/false.
"""
import z3

HYPERFRAME = 2715648          # 2048 * 26 * 51
GMSK_LEN, EDGE_LEN = 148, 444
# modulation -> (MTS coding, burst length), 3GPP TS 45.002 / TRXD protocol
MOD_TABLE = {"ModGMSK": (0b0000, 148), "Mod8PSK": (0b0100, 444), "ModGMSK_AB": (0b0110, 148),
             "Mod16QAM": (0b1000, 592), "Mod32QAM": (0b1010, 740), "ModAQPSK": (0b1100, 296)}


class Opt:
    def __init__(self, isnone, val):
        self.isnone, self.val = (z3.BoolVal(isnone) if isinstance(isnone, bool) else isnone), val


def opt_in(f, lo, hi):
    return z3.And(z3.Not(f.isnone), f.val >= lo, f.val <= hi)


def mod_name(mod):
    """name of a Modulation member, or None when `mod` is not one"""
    n = getattr(mod, "name", None)
    return n if (type(mod).__name__ == "Modulation" and n in MOD_TABLE) else None


def valid_common(m):
    return z3.And(z3.Or(m.ver == 0, m.ver == 1), opt_in(m.fn, 0, HYPERFRAME - 1), opt_in(m.tn, 0, 7))


def valid_tx(m):
    return z3.And(valid_common(m), opt_in(m.pwr, 0, 255), z3.Not(m.burst.isnone),
                  z3.Or(m.burst.val == GMSK_LEN, m.burst.val == EDGE_LEN))


def valid_rx(m):
    mn = mod_name(m.mod)
    if mn is None:
        mts_ok = z3.BoolVal(False)
        bl_ok = z3.BoolVal(False)
    else:
        set_hi = 3 if mn == "ModGMSK" else 1
        mts_ok = z3.And(opt_in(m.tsc, 0, 7), opt_in(m.tsc_set, 0, set_hi))
        bl_ok = z3.And(z3.Not(m.burst.isnone), m.burst.val == MOD_TABLE[mn][1])
    v0_burst = z3.And(z3.Not(m.burst.isnone), z3.Or(m.burst.val == GMSK_LEN, m.burst.val == EDGE_LEN))
    v1 = z3.And(opt_in(m.ci, -1280, 1280),
                z3.If(m.nope, m.burst.isnone, z3.And(mts_ok, bl_ok)))
    return z3.And(valid_common(m), opt_in(m.rssi, -120, -47), opt_in(m.toa256, -32768, 32767),
                  z3.If(m.ver == 0, v0_burst, v1))


def valid(m):
    return valid_tx(m) if m.cls == "tx" else valid_rx(m)

"""Hopping sequence generation, 3GPP TS 45.002 section 6.2.3 - written from the standard's text as quoted in
the statement of C07 (NOT from gsm_shared.py or rfch.c).  Shared oracle of HoppingParams.resolve (Python) and
rfch_hop_seq_gen (firmware).

  HSN = 0 (cyclic hopping):  MAI = (FN + MAIO) mod N
  else:  M  = T2 + RNTABLE((HSN xor T1R) + T3)
         M' = M mod 2^NBIN,  T' = T3 mod 2^NBIN
         S  = M' if M' < N else (M' + T') mod N
         MAI = (S + MAIO) mod N
  T1R = T1 mod 64, NBIN = number of bits required to represent N = INTEGER(log2(N) + 1)
"""
import z3
from .gsm_time import gsm_time

RNTABLE = [
    48, 98, 63, 1, 36, 95, 78, 102, 94, 73,
    0, 64, 25, 81, 76, 59, 124, 23, 104, 100,
    101, 47, 118, 85, 18, 56, 96, 86, 54, 2,
    80, 34, 127, 13, 6, 89, 57, 103, 12, 74,
    55, 111, 75, 38, 109, 71, 112, 29, 11, 88,
    87, 19, 3, 68, 110, 26, 33, 31, 8, 45,
    82, 58, 40, 107, 32, 5, 106, 92, 62, 67,
    77, 108, 122, 37, 60, 66, 121, 42, 51, 126,
    117, 114, 4, 90, 43, 52, 53, 113, 120, 72,
    16, 49, 7, 79, 119, 61, 22, 84, 9, 97,
    91, 15, 21, 24, 46, 39, 93, 105, 65, 70,
    125, 99, 17, 123,
]
assert len(RNTABLE) == 114


def nbin(n):
    """bit length of a python int n >= 1"""
    return n.bit_length()


def xor6(a, b):
    """a xor b for 0 <= a, b < 64 as an integer term: sum over bits"""
    if isinstance(a, int) and isinstance(b, int):
        return a ^ b
    from engine.common import bits
    a = z3.IntVal(a) if isinstance(a, int) else a
    b = z3.IntVal(b) if isinstance(b, int) else b
    return bits.xor_bits(a, b, 6)


def rntable(idx):
    if isinstance(idx, int):
        return RNTABLE[idx]
    from engine.common.core import uf_table
    return uf_table(RNTABLE)(idx)


def mai(hsn, maio, n, nb, fn):
    """MAI for N = n channels (term or int) whose bit length is the python int nb."""
    t1, t2, t3, _tc = gsm_time(fn)
    if isinstance(hsn, int) and hsn == 0:
        return (fn + maio) % n
    t1r = t1 % 64
    m = t2 + rntable(xor6(hsn, t1r) + t3)
    p = 1 << nb
    mp = m % p
    tp = t3 % p
    s = z3.If(mp < n, mp, (mp + tp) % n) if not all(isinstance(x, int) for x in (mp, tp, n)) else (mp if mp < n else (mp + tp) % n)
    noncyclic = (s + maio) % n
    if isinstance(hsn, int):
        return noncyclic
    return z3.If(hsn == 0, (fn + maio) % n, noncyclic)


def mai_concrete(hsn, maio, n, fn):
    return mai(hsn, maio, n, nbin(n), fn)

"""C11 oracle: which firmware multiframe task corresponds to which trxcon (channel combination, timeslot, logical channel).

Written from the statement of property C11 (properties.jsonl) and 3GPP TS 45.002 clause 7 (tables 1-3, as transcribed by
both stacks) - NOT from the tables under test.  Names are the enumerator / object names of the two stacks; their numeric
values are read from the real headers on every run by the property part.

Vocabulary
  firmware entry   one row {sched_set, modulo, frame_nr, flags} of a task's `mf_*[]` table.  Its ROLE is given by the
                   scheduler set it points to (FW_SET_ROLE) and its MF_F_SACCH flag:
                     nb_sched_set      four normal bursts received in four consecutive frames   -> a DOWNLINK BLOCK starts
                     nb_sched_set_ul   four normal bursts transmitted in four consecutive frames -> an UPLINK BLOCK starts
                     tch_sched_set     one traffic frame (receive and transmit in that frame)    -> TCH frame, both directions
                     tch_a_sched_set   one SACCH frame of a traffic channel (rx and tx)          -> SACCH/T frame, both directions
                     tch_d_sched_set   DSP keep-alive in the frames of the OTHER TCH/H sub-channel -> no logical channel
                     neigh_pm_sched_set neighbour power measurement                              -> no logical channel
  trigger          the firmware starts the entry's set so that its first burst is in the frame FN with
                   FN mod modulo == frame_nr mod modulo  (the frame the statement calls `the frame in which the firmware
                   starts a block`); `mframe_schedule_set` runs SCHEDULE_AHEAD frames earlier.
  trxcon frame     row (fn mod period) of the layout returned by l1sched_mframe_layout(config, tn): {dl_chan, dl_bid, ul_chan, ul_bid}

Agreement (statement, first sentence)
  block channel    { FN : the firmware starts a <dir> block of (task, SACCH flag) }  ==  { FN : <dir>_chan == chan and <dir>_bid == 0 }
  frame channel    { FN : the firmware schedules a TCH / SACCH-T frame }              ==  { FN : dl_chan == chan } == { FN : ul_chan == chan }
  for every FN of one 51*26*8 cycle (both periods, 102 and 104, divide 51*26*8 = 10608).

Scope decisions (from the statement, recorded in the evidence)
  * `every (channel combination, timeslot) lookup` ranges over every enumerator of enum gsm_phys_chan_config and tn 0..7: a
    lookup may return NULL (combination not implemented by trxcon), but whatever it returns must be valid for that timeslot:
    same combination, slotmask bit tn, period > 0, period == number of rows of ->frames.  GSM_PCHAN_NONE is such an
    enumerator and has a layouts[] entry, so it is included (hypothesis H11).  For the combinations both stacks implement
    (IMPLEMENTED_CONFIGS) the result must not be NULL for any timeslot.
  * `every channel used by a frame` = every dl_chan / ul_chan other than L1SCHED_IDLE (IDLE is the absence of a channel: it has
    no handlers and needs no channel state).
  * a direction the firmware does not implement is not compared (PDTCH uplink: the firmware task is receive-only; the uplink of
    BCCH/CCCH timeslots is RACH, sent on demand; CBCH is downlink only) - but every entry of a compared task's table must have
    a counterpart in ROWS or carry no logical channel, so such a direction cannot appear in the firmware unnoticed.
"""

CYCLE = 51 * 26 * 8

DL, UL = "DL", "UL"
BLOCK, FRAME = "block", "frame"

# role of a firmware entry by the scheduler set it points to: (directions it occupies, mode) or None (no logical channel)
FW_SET_ROLE = {
    "nb_sched_set": ((DL,), BLOCK),
    "nb_sched_set_ul": ((UL,), BLOCK),
    "tch_sched_set": ((DL, UL), FRAME),
    "tch_a_sched_set": ((DL, UL), FRAME),
    "tch_d_sched_set": None,
    "neigh_pm_sched_set": None,
}

ALL_TN = (0, 1, 2, 3, 4, 5, 6, 7)
EVEN_TN = (0, 2, 4, 6)
ODD_TN = (1, 3, 5, 7)

CCCH, COMB, COMB_CBCH = "GSM_PCHAN_CCCH", "GSM_PCHAN_CCCH_SDCCH4", "GSM_PCHAN_CCCH_SDCCH4_CBCH"
SD8, SD8_CBCH = "GSM_PCHAN_SDCCH8_SACCH8C", "GSM_PCHAN_SDCCH8_SACCH8C_CBCH"
TCHF, TCHH, PDCH = "GSM_PCHAN_TCH_F", "GSM_PCHAN_TCH_H", "GSM_PCHAN_PDCH"

# channel combinations both stacks implement (the lookup must succeed for every timeslot it is defined for)
IMPLEMENTED_CONFIGS = (CCCH, COMB, COMB_CBCH, SD8, SD8_CBCH, TCHF, TCHH, PDCH)


class Row:
    """one compared (task, set, SACCH flag, direction) <-> (configs, timeslots, logical channel)"""

    def __init__(self, task, fw_set, sacch, direction, configs, tns, chan, mode):
        self.task, self.fw_set, self.sacch, self.direction = task, fw_set, sacch, direction
        self.configs, self.tns, self.chan, self.mode = tuple(configs), tuple(tns), chan, mode

    def __repr__(self):
        return "Row(%s %s sacch=%d %s <-> %s tn=%s %s %s)" % (self.task, self.fw_set, self.sacch, self.direction,
                                                             "|".join(self.configs), "".join(map(str, self.tns)), self.chan, self.mode)


def _rows():
    R = []

    def block(task, direction, sacch, configs, chan, tns=ALL_TN):
        R.append(Row(task, "nb_sched_set" if direction == DL else "nb_sched_set_ul", sacch, direction, configs, tns, chan, BLOCK))

    def frame(task, fw_set, sacch, configs, chan, tns):
        for d in (DL, UL):
            R.append(Row(task, fw_set, sacch, d, configs, tns, chan, FRAME))

    # BCCH (normal) and CCCH: downlink only (the uplink of these timeslots is RACH, sent on demand: no multiframe task)
    block("MF_TASK_BCCH_NORM", DL, 0, (CCCH, COMB, COMB_CBCH), "L1SCHED_BCCH")
    block("MF_TASK_CCCH", DL, 0, (CCCH,), "L1SCHED_CCCH")
    block("MF_TASK_CCCH_COMB", DL, 0, (COMB, COMB_CBCH), "L1SCHED_CCCH")
    # SDCCH/4 sub-channels with their SACCHs (sub-channel 2 does not exist when the CBCH replaces it)
    for n in range(4):
        cfgs = (COMB,) if n == 2 else (COMB, COMB_CBCH)
        for d in (DL, UL):
            block("MF_TASK_SDCCH4_%d" % n, d, 0, cfgs, "L1SCHED_SDCCH4_%d" % n)
            block("MF_TASK_SDCCH4_%d" % n, d, 1, cfgs, "L1SCHED_SACCH4_%d" % n)
    # SDCCH/8 sub-channels with their SACCHs
    for n in range(8):
        cfgs = (SD8,) if n == 2 else (SD8, SD8_CBCH)
        for d in (DL, UL):
            block("MF_TASK_SDCCH8_%d" % n, d, 0, cfgs, "L1SCHED_SDCCH8_%d" % n)
            block("MF_TASK_SDCCH8_%d" % n, d, 1, cfgs, "L1SCHED_SACCH8_%d" % n)
    # CBCH (downlink broadcast) on SDCCH/4 resp. SDCCH/8 sub-slot 2
    block("MF_TASK_SDCCH4_CBCH", DL, 0, (COMB_CBCH,), "L1SCHED_SDCCH4_CBCH")
    block("MF_TASK_SDCCH8_CBCH", DL, 0, (SD8_CBCH,), "L1SCHED_SDCCH8_CBCH")
    # TCH/F: traffic frames and SACCH/TF; 45.002: SACCH/TF in frame 12 (mod 26) on even timeslots, 25 on odd ones
    for task, tns in (("MF_TASK_TCH_F_EVEN", EVEN_TN), ("MF_TASK_TCH_F_ODD", ODD_TN)):
        frame(task, "tch_sched_set", 0, (TCHF,), "L1SCHED_TCHF", tns)
        frame(task, "tch_a_sched_set", 1, (TCHF,), "L1SCHED_SACCHTF", tns)
    # TCH/H sub-channels and their SACCH/TH (every timeslot)
    for n in range(2):
        frame("MF_TASK_TCH_H_%d" % n, "tch_sched_set", 0, (TCHH,), "L1SCHED_TCHH_%d" % n, ALL_TN)
        frame("MF_TASK_TCH_H_%d" % n, "tch_a_sched_set", 1, (TCHH,), "L1SCHED_SACCHTH_%d" % n, ALL_TN)
    # PDTCH: the firmware task is receive-only (comment in mframe_sched.c): downlink compared
    block("MF_TASK_GPRS_PDTCH", DL, 0, (PDCH,), "L1SCHED_PDTCH")
    return R


ROWS = _rows()
TASKS = tuple(dict.fromkeys(r.task for r in ROWS))

# firmware tasks outside the statement's channel list (still under the mframe_schedule_set contract, not compared)
NOT_COMPARED = {
    "MF_TASK_BCCH_EXT": "BCCH Ext occupies CCCH block 0; trxcon has no separate logical channel for it",
    "MF_TASK_GPRS_PTCCH": "firmware table is empty (PTCCH not implemented in the firmware)",
    "MF_TASK_NEIGH_PM51_C0T0": "neighbour measurement, no logical channel",
    "MF_TASK_NEIGH_PM51": "neighbour measurement, no logical channel",
    "MF_TASK_NEIGH_PM26E": "neighbour measurement, no logical channel",
    "MF_TASK_NEIGH_PM26O": "neighbour measurement, no logical channel",
    "MF_TASK_UL_ALL_NB": "transmitter test task",
}

# trxcon channels that are not 4-burst (2-burst) block channels: no burst-id cycle is required of them
SINGLE_BURST_CHANNELS = ("L1SCHED_IDLE", "L1SCHED_FCCH", "L1SCHED_SCH", "L1SCHED_RACH")
TWO_BURST_CHANNELS = ("L1SCHED_TCHH_0", "L1SCHED_TCHH_1")          # TCH/H traffic: burst ids 0,1
IDLE = "L1SCHED_IDLE"                                               # not a logical channel: needs no channel state


def bid_modulus(chan_name):
    if chan_name in SINGLE_BURST_CHANNELS:
        return None
    return 2 if chan_name in TWO_BURST_CHANNELS else 4


# ------------------------------------------------------------------ the trigger and lookup specifications

def triggers(fn_start, modulo, frame_nr):
    """the entry's block/frame is in frame fn_start (python ints or z3 terms)"""
    return fn_start % modulo == frame_nr % modulo


def first_match(configs, slotmasks, config, tn):
    """l1sched_mframe_layout(config, tn): index of the first layouts[] entry with that config whose slotmask has bit tn,
    else None (concrete)"""
    for i, (c, m) in enumerate(zip(configs, slotmasks)):
        if c == config and (m >> tn) & 1:
            return i
    return None


def fw_frames(entries, fw_set, sacch, cycle=CYCLE):
    """concrete: frames of one cycle in which the firmware starts the given kind of entry.
    entries: [(set name, modulo, frame_nr, flags)] without the terminator"""
    out = set()
    for (s, mod, fr, fl) in entries:
        if s == fw_set and (fl & 1) == sacch and mod:
            out |= {f for f in range(cycle) if f % mod == fr % mod}
    return out


def trx_frames(chan_col, bid_col, period, chan, mode, cycle=CYCLE):
    """concrete: frames of one cycle the layout marks as first burst of chan's block (block) / gives to chan (frame)"""
    return {f for f in range(cycle) if chan_col[f % period] == chan and (mode == FRAME or bid_col[f % period] == 0)}

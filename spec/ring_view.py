"""C08 oracle: the abstract view of the firmware TDMA scheduler, written from the statement of C08.

The scheduler is a ring of DEPTH = 25 per-frame work lists of at most CAP = 8 items; an item is (cb, p1, p2, p3, prio).
ring(d), d = 0..24, is the list of the frame d advances ahead: the CAP slots of bucket (cur + d) mod DEPTH, of which the
first num are in use.  The statement in these terms:
  schedule N      ring(N) gets the item appended (or, when full, an error and no change)
  execute         calls exactly the items of ring(0), ascending priority, each once with its own parameters; ring(0) := []
  advance         ring'(d) = ring(d + 1), ring'(24) = ring(0)
  reset           ring'(d) = [] for d != 0
`Sched` carries the concrete arrays (z3) the view is computed from; Model is the concrete reference used by native replay.
"""
import z3

DEPTH = 25
CAP = 8
FIELDS = ("cb", "p1", "p2", "p3", "prio")        # `flags` is not part of the statement's item


class Sched:
    """cur: Int; num: Array bucket -> count; fld[f]: Array (bucket*CAP + slot) -> value"""

    def __init__(self, cur, num, fld):
        self.cur, self.num, self.fld = cur, num, fld

    def bucket_of(self, d):
        return (self.cur + d) % DEPTH

    def ring_len(self, d):
        return z3.Select(self.num, self.bucket_of(d))

    def ring_item(self, d, k, f):
        return z3.Select(self.fld[f], self.bucket_of(d) * CAP + k)


def wf(s):
    """representation invariant: current position inside the ring, no list longer than its capacity"""
    return z3.And([z3.And(0 <= s.cur, s.cur < DEPTH)] + [z3.And(0 <= z3.Select(s.num, b), z3.Select(s.num, b) <= CAP) for b in range(DEPTH)])


def same_list(s1, d1, s2, d2, k):
    """ring(d1) of s1 and ring(d2) of s2 have the same length and the same item at position k (k universally chosen)"""
    return z3.And(s1.ring_len(d1) == s2.ring_len(d2),
                  z3.Implies(z3.And(0 <= k, k < s1.ring_len(d1)),
                             z3.And([s1.ring_item(d1, k, f) == s2.ring_item(d2, k, f) for f in FIELDS])))


# ---------------------------------------------------------------- concrete reference (native replay)

class Model:
    def __init__(self):
        self.ring = [[] for _ in range(DEPTH)]      # ring[d] = list of (cb, p1, p2, p3, prio)

    def schedule(self, n, item):
        if len(self.ring[n % DEPTH]) >= CAP:
            return -1
        self.ring[n % DEPTH].append(tuple(item))
        return 0

    def execute(self):
        items = sorted(enumerate(self.ring[0]), key=lambda t: t[1][4])
        self.ring[0] = []
        return [it for _, it in items]

    def advance(self):
        self.ring = self.ring[1:] + self.ring[:1]

    def reset(self):
        self.ring = [self.ring[0]] + [[] for _ in range(DEPTH - 1)]


# ---------------------------------------------------------------- multi-frame sets (tdma_schedule_set)
# A set is an array of items; an entry whose cb is NULL ends a frame, the entry whose cb is END ends the set.
# Counting functions over the set's cb array (uninterpreted symbols + their recursive unfoldings; lemmas about them are
# proved by induction in the property part):
#   nul(m) = number of frame separators among entries [0, m)      = index of the frame entry m belongs to
#   pos(m) = number of entries since the last separator before m  = position of entry m inside its frame

_I, _A = z3.IntSort(), z3.ArraySort(z3.IntSort(), z3.IntSort())
set_nul = z3.Function("set_nul", _A, _I, _I)
set_pos = z3.Function("set_pos", _A, _I, _I)


def nul(cb, m):
    return set_nul(cb, m)


def pos(cb, m):
    return set_pos(cb, m)


def set_unfold(cb, m):
    """definitions at m >= 0"""
    sep = z3.Select(cb, m) == 0
    return z3.And(nul(cb, 0) == 0, pos(cb, 0) == 0,
                  z3.Implies(m >= 0, z3.And(nul(cb, m + 1) == nul(cb, m) + z3.If(sep, 1, 0),
                                            pos(cb, m + 1) == z3.If(sep, 0, pos(cb, m) + 1))))


def set_frames_concrete(cbs, end):
    """concrete reference: list of frames (lists of entry indices) of a set given as a list of cb codes"""
    frames, cur = [], []
    for m, cbv in enumerate(cbs):
        if cbv == end:
            frames.append(cur)
            return frames
        if cbv == 0:
            frames.append(cur)
            cur = []
        else:
            cur.append(m)
    return None

"""Frame-number order on the hyperframe circle (statement of C03: "...across the hyperframe wrap").

  due(a, now)     a == now
  passed(a, now)  the frame a lies 1 .. H/2 - 1 frames behind now (modulo the hyperframe H = 2715648)
  future(a, now)  otherwise
Away from the wrap these coincide with a == now / a < now / a > now."""
import z3
H = 2715648


def passed(a, now):
    d = (now - a) % H
    return z3.And(d >= 1, d < H // 2)


def due(a, now):
    return a == now


def klass(a, now):
    """0 = discard as stale, 1 = transmit now, 2 = keep waiting"""
    return z3.If(due(a, now), 1, z3.If(passed(a, now), 0, 2))


def klass_py(a, now):
    if a == now:
        return 1
    d = (now - a) % H
    return 0 if 1 <= d < H // 2 else 2

"""TRXD PDU layout (versions 0 and 1), written from the protocol description in the statements of
C01/C04 - NOT from data_msg.py.  Shared oracle of the Python codec (C01, C04, C15), trxcon (C04) and
the declarative PDUs (C17).

  octet 0      : version << 4 | TN                      (TN in bits 2..0, bit 3 reserved = 0)
  octets 1..4  : FN, big endian
  L1 -> TRX    : octet 5 attenuation, then one octet per hard bit (0/1)
  TRX -> L1    : octet 5 = -RSSI, octets 6..7 ToA256 (int16 big endian, two's complement)
                 v1: octet 8 = MTS, octets 9..10 C/I (int16 big endian); then one octet per soft
                 bit, value 127 - s (0..254)
  MTS          : bit 7 NOPE.ind (then the rest is 0), bits 6..3 modulation code with the TSC set in its
                 free low bit(s), bits 2..0 TSC
  legacy       : two zero octets after a version-0 message
"""
import z3
from .valid_msg import MOD_TABLE, mod_name


def u16_of_s16(x):
    return z3.If(x < 0, x + 65536, x)


def s16_of_u16(x):
    return z3.If(x >= 32768, x - 65536, x)


def mts_octet(m):
    """MTS octet of a valid v1 Rx message view"""
    mn = mod_name(m.mod)
    if mn is None:
        return z3.If(m.nope, z3.IntVal(0x80), z3.IntVal(-1))
    coding = MOD_TABLE[mn][0]
    return z3.If(m.nope, z3.IntVal(0x80), m.tsc.val + 8 * (coding + m.tsc_set.val))


def hdr_octets(m):
    """list of header octet terms (python list; length depends on class and concrete-or-symbolic ver)"""
    fn = m.fn.val
    hdr = [m.ver * 16 + m.tn.val,
           (fn / 16777216) % 256, (fn / 65536) % 256, (fn / 256) % 256, fn % 256]
    if m.cls == "tx":
        hdr.append(m.pwr.val)
        return hdr, hdr
    toa = u16_of_s16(m.toa256.val)
    hdr += [-m.rssi.val, toa / 256, toa % 256]
    ci = u16_of_s16(m.ci.val)
    hdr1 = hdr + [mts_octet(m), ci / 256, ci % 256]
    return hdr, hdr1


def enc(m, legacy, burst_get):
    """(length term, octet function i -> term) of the encoding of a *valid* message view.
    burst_get(i) yields the i-th burst element (hard bit, or soft bit s)."""
    h0, h1 = hdr_octets(m)
    n0, n1 = len(h0), len(h1)
    hlen = z3.If(m.ver == 0, z3.IntVal(n0), z3.IntVal(n1))
    blen = z3.If(m.burst.isnone, z3.IntVal(0), m.burst.val)
    pad = z3.If(z3.And(z3.BoolVal(bool(legacy)), m.ver == 0), z3.IntVal(2), z3.IntVal(0))
    length = hlen + blen + pad

    def octet(i):
        i = z3.IntVal(i) if isinstance(i, int) else i
        # header
        def chain(h):
            r = z3.IntVal(0)
            for k in range(len(h) - 1, -1, -1):
                r = z3.If(i == k, h[k], r)
            return r
        hv = z3.If(m.ver == 0, chain(h0), chain(h1)) if n0 != n1 else chain(h0)
        b = burst_get(i - hlen)
        bv = b if m.cls == "tx" else 127 - b
        return z3.If(i < hlen, hv, z3.If(i < hlen + blen, bv, z3.IntVal(0)))
    return length, octet


def enc_seq(E, m, legacy):
    """The encoding as an engine sequence (used as the call-site text of gen_msg's contract)."""
    from engine.pyvc.values import SSeq
    bs = getattr(m, "burst_seq", None)
    if bs is not None:
        g = lambda i: bs.get(i)
    elif hasattr(m, "burst_arr"):
        arr = m.burst_arr
        g = lambda i: z3.Select(arr, i)
    else:
        g = lambda i: z3.IntVal(0)          # no burst
    length, octet = enc(m, legacy, g)
    length = z3.simplify(length)
    return SSeq("bytearray", length, octet)


# ------------------------------------------------------------------ decoding per layout

def dec_common(octet):
    """fields of the common header from an octet function"""
    b0 = octet(0)
    return {"ver": b0 / 16, "tn": b0 % 8,
            "fn": octet(1) * 16777216 + octet(2) * 65536 + octet(3) * 256 + octet(4)}


def dec_mts(mts):
    """(nope, coding-of-modulation, tsc_set, tsc) from the MTS octet"""
    nope = mts >= 128
    code = (mts / 8) % 16
    gmsk = code / 4 == 0          # 0b00SS
    coding = z3.If(gmsk, z3.IntVal(0), (code / 2) * 2)
    tsc_set = z3.If(gmsk, code % 4, code % 2)
    return nope, coding, tsc_set, mts % 8


MOD_LENS = sorted(set(bl for (_c, bl) in MOD_TABLE.values()))      # 148 296 444 592 740
CODINGS = sorted(set(c for (c, _bl) in MOD_TABLE.values()))


def in_set(x, vals):
    return z3.Or([x == v for v in vals])


def std_len(cls, d):
    """the payload length is one the encoder produces (148 / 444 bits, plus the two legacy padding octets on version 0; for version-1
    Rx the length the modulation prescribes).  Only for those the layout fixes how many burst bits there are; what a parser makes of
    other payload lengths (cut, keep, refuse) is its own business."""
    P = d["payload"]
    if cls == "tx":
        return z3.If(d["ver"] == 0, in_set(P, [148, 150, 444, 446]), in_set(P, [148, 444]))
    return z3.If(d["ver"] == 0, in_set(P, [0, 148, 150, 444, 446]), z3.BoolVal(True))


def dec_valid(cls, d):
    """the decoded content is a message inside the protocol value ranges (C13) - a parser may refuse anything else"""
    from .valid_msg import HYPERFRAME
    c = [d["fn"] >= 0, d["fn"] <= HYPERFRAME - 1, std_len(cls, d)]
    if cls == "tx":
        c += [z3.Not(d["burst_none"]), z3.Or(d["blen"] == 148, d["blen"] == 444)]
        return z3.And(c)
    c += [d["rssi"] >= -120, d["rssi"] <= -47]
    v0 = z3.And(z3.Not(d["burst_none"]), z3.Or(d["blen"] == 148, d["blen"] == 444))
    lens = z3.Or([z3.And(d["coding"] == cd, d["blen"] == bl, d["tsc_set"] <= (3 if cd == 0 else 1)) for (cd, bl) in sorted(set(MOD_TABLE.values()))])
    v1 = z3.And(d["ci"] >= -1280, d["ci"] <= 1280, z3.If(d["nope"], d["burst_none"], z3.And(z3.Not(d["burst_none"]), lens)))
    c.append(z3.If(d["ver"] == 0, v0, v1))
    return z3.And(c)


def dec(cls, octet, n):
    """Interpretation of a datagram (octet function, length n) per the layout.

    Returns a dict of z3 terms:
      accept   - the datagram is structurally acceptable (long enough for its version's header, known version,
                 and for version-0 Rx a burst part whose length is a modulation's burst length, optionally + 2
                 legacy padding octets)
      ver tn fn, pwr | rssi toa256, and for version 1: nope coding tsc_set tsc ci
      burst_none, blen, bget(i)   - burst part (Tx: hard bits as sent, at most 444 / 148 of them;
                 Rx: soft bits 127 - octet, octet 255 -> -127)
    """
    d = dec_common(octet)
    ver = d["ver"]
    if cls == "tx":
        hlen = z3.IntVal(6)
        d["pwr"] = octet(5)
        P = n - hlen
        d["payload"] = P
        # GSM/EDGE length selection: longer payloads are cut to 444, or to 148 when below 444
        blen = z3.If(P >= 444, z3.IntVal(444), z3.If(P > 148, z3.IntVal(148), P))
        d["accept"] = z3.And(n >= 5, z3.Or(ver == 0, ver == 1), n >= hlen)
        d["burst_none"] = P == 0
        d["blen"] = blen
        d["bget"] = lambda i: octet(i + 6)
        d["hlen"] = hlen
        return d
    hlen = z3.If(ver == 0, z3.IntVal(8), z3.IntVal(11))
    d["rssi"] = -octet(5)
    d["toa256"] = s16_of_u16(octet(6) * 256 + octet(7))
    mts = octet(8)
    d["nope"], d["coding"], d["tsc_set"], d["tsc"] = dec_mts(mts)
    d["ci"] = s16_of_u16(octet(9) * 256 + octet(10))
    P = n - hlen
    d["payload"] = P
    plain = in_set(P, MOD_LENS)
    padded = in_set(P - 2, MOD_LENS)
    d["accept"] = z3.And(n >= 5, z3.Or(ver == 0, ver == 1), n >= hlen,
                         z3.Or(ver == 1, P == 0, plain, padded))
    d["burst_none"] = P == 0
    d["blen"] = z3.If(ver == 0, z3.If(plain, P, P - 2), P)
    d["v0_mod_bl"] = d["blen"]

    def bget(i):
        u = octet(i + hlen)
        return z3.If(u == 255, z3.IntVal(-127), 127 - u)
    d["bget"] = bget
    d["hlen"] = hlen
    return d

"""GSM time decomposition (3GPP TS 45.002 4.3.3), written from the statement of C19.
Shared oracle of gsm_utils.c, sync.c (l1s_time_inc) and gsm_shared.HoppingParams.fn2gsm_time."""
import z3

HYPERFRAME = 2715648        # 2048 * 26 * 51
SUPERFRAME = 1326           # 26 * 51


def gsm_time(fn):
    """(t1, t2, t3, tc) of frame number fn (z3 Int or python int)"""
    if isinstance(fn, int):
        return fn // 1326, fn % 26, fn % 51, (fn // 51) % 8
    return fn / 1326, fn % 26, fn % 51, (fn / 51) % 8


def consistent(fn, t1, t2, t3, tc=None):
    a, b, c, d = gsm_time(fn)
    conj = [t1 == a, t2 == b, t3 == c]
    if tc is not None:
        conj.append(tc == d)
    return z3.And(conj)

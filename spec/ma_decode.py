"""C20 oracle: Mobile Allocation decoding, written from the statement of C20 / 3GPP TS 44.018 10.5.2.21
(NOT from sysinfo.c).

  cell allocation CA  = the ARFCNs flagged as serving-cell frequencies, ordered ascending with ARFCN 0 last
                        (order position p = 0..1023 holds ARFCN (p + 1) mod 1024)
  bitmap              = `length` octets; MA C i (i = 1..8*length) is bit ((i-1) mod 8) of octet length-1-((i-1) div 8):
                        the least significant bit of the LAST octet is the first cell-allocation channel
  decoded list        = [ CA[i] | i ascending, bit i set ], stopping at the first set bit i >= |CA|
  length > 8 is rejected (an IE carries at most 64 hopping indexes); an empty bitmap yields an empty list.

Two forms of the same oracle:
  * decode(...)            concrete reference evaluation (native replay)
  * rank / hrank / bit     counting functions for the symbolic contracts: rank(p) = number of CA members at order
                           positions < p, hrank(i) = number of set bits below i.  They are uninterpreted symbols with
                           their recursive definitions (`*_unfold`); lemmas about them are proved by induction in the
                           property part (base + step obligations).
"""
import z3

NARFCN = 1024
MAX_OCTETS = 8
MAX_HOPPING = 64

I, A = z3.IntSort(), z3.ArraySort(z3.IntSort(), z3.IntSort())


def arfcn_at(p):
    """ARFCN at order position p (1, 2, ..., 1023, 0)"""
    return (p + 1) % NARFCN


def order_of(a):
    """order position of ARFCN a"""
    return (a - 1) % NARFCN


def has_bit(x, mask):
    """x has the single-bit flag `mask` (python int power of two) set"""
    return (x / mask) % 2 == 1 if mask > 1 else x % 2 == 1


# ---------------------------------------------------------------- concrete reference

def cell_alloc(masks, serv):
    return [arfcn_at(p) for p in range(NARFCN) if masks[arfcn_at(p)] & serv]


def bit_concrete(ma, i):
    n = len(ma)
    return (ma[n - 1 - (i >> 3)] >> (i & 7)) & 1


def decode(masks, serv, ma):
    """-> (rc, hopping list) ; rc -22 (EINVAL) when the bitmap is longer than 8 octets"""
    if len(ma) > MAX_OCTETS:
        return -22, None
    ca = cell_alloc(masks, serv)
    out = []
    for i in range(8 * len(ma)):
        if bit_concrete(ma, i):
            if i >= len(ca):
                break
            out.append(ca[i])
    return 0, out


# ---------------------------------------------------------------- symbolic counting functions

ca_rank = z3.Function("ca_rank", A, I, I, I)        # (mask array, SERV flag, p) -> #{q < p | CA member at position q}
ma_rank = z3.Function("ma_rank", A, I, I, I)        # (bitmap array, length, i) -> #{i' < i | bit i' set}


def in_ca(masks, serv, p):
    return has_bit(z3.Select(masks, arfcn_at(p)), serv)


def rank(masks, serv, p):
    return ca_rank(masks, z3.IntVal(serv), p)


def rank_unfold(masks, serv, p):
    """definition of ca_rank at p >= 0"""
    return z3.And(rank(masks, serv, 0) == 0,
                  z3.Implies(p >= 0, rank(masks, serv, p + 1) == rank(masks, serv, p) + z3.If(in_ca(masks, serv, p), 1, 0)))


def bit(ma, length, i):
    """bit i of the bitmap (0 <= i < 8*length)"""
    i = z3.IntVal(i) if isinstance(i, int) else i
    octet = z3.Select(ma, length - 1 - i / 8)
    b = i % 8
    r = has_bit(octet, 128)
    for k in range(6, -1, -1):
        r = z3.If(b == k, has_bit(octet, 1 << k), r)
    return r


def hrank(ma, length, i):
    return ma_rank(ma, length, i)


def hrank_unfold(ma, length, i):
    return z3.And(hrank(ma, length, 0) == 0,
                  z3.Implies(i >= 0, hrank(ma, length, i + 1) == hrank(ma, length, i) + z3.If(bit(ma, length, i), 1, 0)))

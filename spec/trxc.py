"""TRXC command semantics, written from the statement of C05 and the protocol description in ctrl_if_trx.py's docstring
(NOT from the code of parse_cmd / ctrl_cmd_handler).

A command is (verb, args) with integer arguments; the transceiver state is a dict of z3 terms:
  running (Bool), ready (Bool), rx_freq/tx_freq (None-flag + value), fh_set (Bool), hdr_ver, tx_att_base, tx_power_base, rf_muted (Bool),
  ta, toa256_base, toa256_thr, rssi_base, rssi_thr, fake_rssi (Bool), ci_base, ci_thr, drop_amount, drop_period, rsp_delay_ms,
  has_pm (python bool)
`effect(verb, args, st)` returns (status term, results spec, updates dict) - every key not in `updates` is unchanged.
results spec: None | ("nomtxpower",) | ("measure",)
Status for unknown verbs / known verbs with another argument count: 0, nothing changes ("unknown verbs acknowledged with 0").
"""
import z3

KNOWN_VERSIONS = (0, 1)
VER_MAX = 15


def pick_version(req):
    """highest supported version not above the request, -1 when there is none"""
    r = z3.IntVal(-1)
    for v in sorted(KNOWN_VERSIONS):
        r = z3.If(req >= v, v, r)
    return r


def effect(verb, args, st):
    n = len(args)
    T, F = z3.BoolVal(True), z3.BoolVal(False)
    zero = z3.IntVal(0)
    if verb == "POWERON" and n == 0:
        ok = z3.And(z3.Not(st["running"]), st["ready"])
        return z3.If(ok, 0, -1), None, {"__power": ("on_if", ok)}
    if verb == "POWEROFF" and n == 0:
        return zero, None, {"__power": ("off", T)}
    if verb == "RXTUNE" and n == 1:
        return zero, None, {"rx_freq": (F, args[0] * 1000)}
    if verb == "TXTUNE" and n == 1:
        return zero, None, {"tx_freq": (F, args[0] * 1000)}
    if verb == "MEASURE" and n == 1:
        if not st["has_pm"]:
            return z3.IntVal(-1), None, {}
        return zero, ("measure", args[0] * 1000), {}
    if verb == "SETFH" and n >= 4:
        # hsn, maio, then (rx, tx) pairs in kHz; at least one complete pair is guaranteed by n >= 4
        # the hopping sequence number is a 6-bit value (3GPP TS 45.002 6.2.3): anything else is refused and leaves the hopping state alone
        ok = z3.And(args[0] >= 0, args[0] <= 63)
        return z3.If(ok, 0, -1), None, {"__fh": ("set", args[0], args[1], [(args[2 + 2 * k] * 1000, args[3 + 2 * k] * 1000) for k in range((n - 2) // 2)], ok)}
    if verb == "SETFORMAT" and n == 1:
        req = args[0]
        bad = z3.Or(req < 0, req > VER_MAX)
        known = z3.Or([req == v for v in KNOWN_VERSIONS])
        status = z3.If(bad, -1, z3.If(known, req, pick_version(req)))
        return status, None, {"hdr_ver": z3.If(z3.And(z3.Not(bad), known), req, st["hdr_ver"])}
    if verb == "SETPOWER" and n == 1:
        return zero, None, {"tx_att_base": args[0]}
    if verb == "NOMTXPOWER" and n == 0:
        return zero, ("nomtxpower",), {}
    if verb == "RFMUTE" and n == 1:
        return zero, None, {"rf_muted": args[0] > 0}
    if verb == "SETTA" and n == 1:
        return zero, None, {"ta": args[0]}
    if verb == "FAKE_TOA" and n == 2:
        # a randomisation threshold is a half-width: negative ones are refused (C14: every accepted command must leave the
        # transceiver able to serve bursts)
        bad = args[1] < 0
        return z3.If(bad, -1, 0), None, {"toa256_base": z3.If(bad, st["toa256_base"], args[0]), "toa256_thr": z3.If(bad, st["toa256_thr"], args[1])}
    if verb == "FAKE_TOA" and n == 1:
        return zero, None, {"toa256_base": st["toa256_base"] + args[0]}
    if verb == "FAKE_RSSI" and n == 2:
        off = args[1] < 0
        return zero, None, {"fake_rssi": z3.Not(off), "rssi_base": z3.If(off, st["rssi_base"], args[0]),
                            "rssi_thr": z3.If(off, st["rssi_thr"], args[1])}
    if verb == "FAKE_RSSI" and n == 1:
        return zero, None, {"rssi_base": st["rssi_base"] + args[0]}
    if verb == "FAKE_CI" and n == 2:
        bad = args[1] < 0
        return z3.If(bad, -1, 0), None, {"ci_base": z3.If(bad, st["ci_base"], args[0]), "ci_thr": z3.If(bad, st["ci_thr"], args[1])}
    if verb == "FAKE_CI" and n == 1:
        return zero, None, {"ci_base": st["ci_base"] + args[0]}
    if verb == "FAKE_DROP" and n == 1:
        bad = args[0] < 0
        return z3.If(bad, -1, 0), None, {"drop_amount": z3.If(bad, st["drop_amount"], args[0]), "drop_period": z3.If(bad, st["drop_period"], 1)}
    if verb == "FAKE_DROP" and n == 2:
        bad = z3.Or(args[0] < 0, args[1] <= 0)
        return z3.If(bad, -1, 0), None, {"drop_amount": z3.If(bad, st["drop_amount"], args[0]), "drop_period": z3.If(bad, st["drop_period"], args[1])}
    if verb == "FAKE_TRXC_DELAY" and n == 1:
        # a delay the process cannot sleep (negative, or beyond TRXC_DELAY_MAX_MS) is refused and the old setting kept
        bad = z3.Or(args[0] < 0, args[0] > TRXC_DELAY_MAX_MS)
        return z3.If(bad, -1, 0), None, {"rsp_delay_ms": z3.If(bad, st["rsp_delay_ms"], args[0])}
    return zero, None, {}


TRXC_DELAY_MAX_MS = 60 * 1000


VERBS = ["POWERON", "POWEROFF", "RXTUNE", "TXTUNE", "MEASURE", "SETFH", "SETFORMAT", "SETPOWER", "NOMTXPOWER", "RFMUTE",
         "SETTA", "FAKE_TOA", "FAKE_RSSI", "FAKE_CI", "FAKE_DROP", "FAKE_TRXC_DELAY", "SETSLOT", "SETTSC", "SETRXGAIN", "NOHANDOVER", "XYZZY"]

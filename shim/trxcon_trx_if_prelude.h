/* CVC prelude for functions cut verbatim from src/host/trxcon/src/trx_if.c.
 * trx_if.c needs a libosmocore newer than the bundled one (osmocom/core/fsm.h, GSM_TDMA_*, GSM_NBITS_*,
 * osmo_load32be/osmo_store32be, two GSM_PCHAN_* enumerators, gsm_freq102arfcn).  Everything that exists is taken from
 * the REAL headers; only the missing library API is declared here.  After the prelude comes the unmodified text of the
 * real file's functions. */
#include <stdio.h>
#include <errno.h>
#include <stdint.h>
#include <stdbool.h>
#include <stdarg.h>
#include <unistd.h>
#include <stdlib.h>
#include <string.h>
#include <sys/types.h>
#include <sys/socket.h>
#include <osmocom/core/linuxlist.h>	/* REAL bundled: struct llist_head, llist_* inline functions and macros */
#include <osmocom/core/select.h>	/* REAL bundled: struct osmo_fd */
#include <osmocom/core/timer.h>		/* REAL bundled: struct osmo_timer_list, osmo_timer_* */
#include <osmocom/core/talloc.h>	/* REAL bundled: talloc_zero, talloc_free */
#include <osmocom/core/bits.h>		/* REAL bundled: sbit_t, ubit_t */
#include <osmocom/core/utils.h>		/* REAL bundled: ARRAY_SIZE */

/* ---- newer libosmocore API, declared (assumed) ---- */
#define GSM_TDMA_SUPERFRAME	(26 * 51)
#define GSM_TDMA_HYPERFRAME	(2048 * GSM_TDMA_SUPERFRAME)
#define GSM_TDMA_FN_SUM(a, b)	(((a) + (b)) % GSM_TDMA_HYPERFRAME)
#define GSM_NBITS_NB_GMSK_BURST	148
#define GSM_NBITS_NB_8PSK_BURST	444
#define ARFCN_FLAG_MASK		0xf000
enum gsm_phys_chan_config {	/* osmocom/gsm/gsm_utils.h of current libosmocore (the bundled one lacks the *_CBCH values) */
	GSM_PCHAN_NONE, GSM_PCHAN_CCCH, GSM_PCHAN_CCCH_SDCCH4, GSM_PCHAN_TCH_F, GSM_PCHAN_TCH_H, GSM_PCHAN_SDCCH8_SACCH8C,
	GSM_PCHAN_PDCH, GSM_PCHAN_TCH_F_PDCH, GSM_PCHAN_UNKNOWN, GSM_PCHAN_CCCH_SDCCH4_CBCH, GSM_PCHAN_SDCCH8_SACCH8C_CBCH,
	GSM_PCHAN_OSMO_DYN, _GSM_PCHAN_MAX
};
uint16_t gsm_arfcn2freq10(uint16_t arfcn, int uplink);
uint16_t gsm_freq102arfcn(uint16_t freq10, int uplink);
/* osmocom/core/bit32gen.h: big-endian load/store, definitions as in libosmocore */
static inline uint32_t osmo_load32be(const void *p)
{
	const uint8_t *q = (const uint8_t *)p;
	return ((uint32_t)q[0] << 24) | ((uint32_t)q[1] << 16) | ((uint32_t)q[2] << 8) | (uint32_t)q[3];
}
static inline void osmo_store32be(uint32_t x, void *p)
{
	uint8_t *q = (uint8_t *)p;
	q[0] = (x >> 24) & 0xff; q[1] = (x >> 16) & 0xff; q[2] = (x >> 8) & 0xff; q[3] = x & 0xff;
}
/* osmocom/core/fsm.h: only what trx_if.c touches */
enum osmo_fsm_term_cause { OSMO_FSM_TERM_PARENT, OSMO_FSM_TERM_REQUEST, OSMO_FSM_TERM_REGULAR, OSMO_FSM_TERM_ERROR, OSMO_FSM_TERM_TIMEOUT };
struct osmo_fsm_inst { uint32_t state; void *priv; };
int verif_fsm_state_chg(struct osmo_fsm_inst *fi, uint32_t new_state);
#define osmo_fsm_inst_state_chg(fi, st, tmo, T)	verif_fsm_state_chg(fi, st)
void verif_fsm_term(struct osmo_fsm_inst *fi, enum osmo_fsm_term_cause cause, void *data);
#define osmo_fsm_inst_term(fi, cause, data)	verif_fsm_term(fi, cause, data)
/* dropped: logging.  The macros expand to nothing, so their argument expressions are not evaluated. */
#define LOGPFSML(fi, level, fmt, args...)		do { } while (0)
#define LOGPFSMSL(fi, ss, level, fmt, args...)	do { } while (0)
#define DTRXC 0
#define DTRXD 0
/* ---- the REAL trxcon headers ---- */
#include <osmocom/bb/trxcon/phyif.h>	/* REAL: trxcon_phyif_* structures and prototypes */
/* cut verbatim from the REAL trx_if.h (its own includes need osmocom/core/fsm.h) and trx_if.c: */
/*@CUT-DECLS@*/
enum { VERIF_EINVAL = EINVAL, VERIF_ENOTSUP = ENOTSUP, VERIF_EIO = EIO, VERIF_TRXD_BUF_SIZE = TRXD_BUF_SIZE,
       VERIF_TRXC_BUF_SIZE = TRXC_BUF_SIZE };

/* OSMO_ASSERT of current libosmocore (osmocom/core/utils.h; the bundled utils.h predates it): a failed assertion ends in osmo_panic(), which
 * does not return.  For CVC a call of osmo_panic is the obligation `call.osmo_panic_unreachable` (engine/cvc/interp.py: _noreturn); the
 * native harnesses define osmo_panic() to abort. */
#ifndef OSMO_ASSERT
void osmo_panic(const char *fmt, ...);
#define OSMO_ASSERT(exp)    \
	if (!(exp)) { \
		osmo_panic("Assert failed %s %s:%d\n", #exp, __FILE__, __LINE__); \
	}
#endif

/* CVC prelude for functions cut verbatim from src/host/layer23/src/common/sysinfo.c.
 * The file's own includes need a libosmocore newer than the bundled one; this prelude supplies only what the
 * extracted functions use.  Everything after the prelude is the unmodified text of the real file. */
#include <stdint.h>
#include <errno.h>
#include <osmocom/gsm/gsm48_ie.h>	/* REAL bundled header: struct gsm_sysinfo_freq */
/* FREQ_TYPE_* : the #define lines below are cut verbatim from the REAL layer23/include/osmocom/bb/common/sysinfo.h */
/*@CUT-DEFINES@*/
/* dropped: logging.  The macro expands to nothing, so its argument expressions are not evaluated. */
#define LOGP(ss, level, fmt, args...) do { } while (0)
/* constants the contracts read back from the AST */
enum { VERIF_FREQ_TYPE_SERV = FREQ_TYPE_SERV, VERIF_FREQ_TYPE_HOPP = FREQ_TYPE_HOPP, VERIF_EINVAL = EINVAL };

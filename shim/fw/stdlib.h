/* CVC shim: declarations only. */
#ifndef VERIF_SHIM_STDLIB_H
#define VERIF_SHIM_STDLIB_H
#include <stddef.h>
void *malloc(size_t);
void free(void *);
void abort(void);
int abs(int);
long strtol(const char *, char **, int);
unsigned long strtoul(const char *, char **, int);
#endif

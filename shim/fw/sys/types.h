/* CVC shim (newlib headers are not installed): typedefs only, ARM ILP32 sizes. */
#ifndef VERIF_SHIM_SYS_TYPES_H
#define VERIF_SHIM_SYS_TYPES_H
#include <stddef.h>
#include <stdint.h>
#include <sys/_types.h>
typedef long ssize_t;
typedef long off_t;
typedef unsigned int u_int;
typedef unsigned char u_char;
typedef unsigned short u_short;
typedef unsigned long u_long;
#endif

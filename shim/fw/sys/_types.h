/* CVC shim: nothing but the typedefs some libosmocore headers expect. */
#ifndef VERIF_SHIM_SYS__TYPES_H
#define VERIF_SHIM_SYS__TYPES_H
typedef long _ssize_t;
typedef long _off_t;
#endif

/* CVC shim: errno numbers (newlib values) only. */
#ifndef VERIF_SHIM_ERRNO_H
#define VERIF_SHIM_ERRNO_H
#define EPERM 1
#define ENOENT 2
#define EIO 5
#define ENOMEM 12
#define EBUSY 16
#define EEXIST 17
#define ENODEV 19
#define EINVAL 22
#define ENOSPC 28
#define ERANGE 34
#define ENOTSUP 134
extern int errno;
#endif

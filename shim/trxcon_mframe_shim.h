/* CVC macro shim for parsing src/host/trxcon/src/sched_mframe.c WHOLE (clang -include <this file>).
 * The real file and the real trxcon headers are parsed unmodified; the bundled libosmocore (src/shared/libosmocore) is
 * older than the one trxcon is written against and lacks the names below.  Values as in current libosmocore
 * (osmocom/gsm/gsm0502.h, osmocom/gsm/gsm_utils.h: the *_CBCH enumerators were appended after GSM_PCHAN_UNKNOWN). The
 * same values are used by shim/trxcon_trx_if_prelude.h.  ASSUMED, listed in the evidence. */
#define GSM_NBITS_NB_GMSK_BURST		148
#define GSM_NBITS_NB_8PSK_BURST		444
#define GSM_PCHAN_CCCH_SDCCH4_CBCH	((enum gsm_phys_chan_config) 9)
#define GSM_PCHAN_SDCCH8_SACCH8C_CBCH	((enum gsm_phys_chan_config) 10)
#define GSM_PCHAN_OSMO_DYN		((enum gsm_phys_chan_config) 11)

/* CVC replay shim: <asm/system.h> for a NATIVE (x86-64) build of the target variant of sercomm.c (receive buffer 256 octets).
 * The real header masks interrupts with ARM inline assembly; the replay harness is single-threaded, so the lock is a no-op
 * (the same assumption the contract states for sercomm_lock/sercomm_unlock). */
#ifndef VERIF_SHIM_ASM_SYSTEM_H
#define VERIF_SHIM_ASM_SYSTEM_H
#define local_firq_save(x)	((x) = 0)
#define local_irq_restore(x)	((void)(x))
#endif

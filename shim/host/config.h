/* CVC shim: empty config.h for bundled libosmocore sources that #include "../../config.h" (autoconf output is absent). */

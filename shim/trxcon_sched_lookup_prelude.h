/* CVC prelude for the frame-lookup functions cut verbatim from src/host/trxcon/src/sched_trx.c
 * (l1sched_pull_burst, l1sched_configure_ts, subst_frame_loss, l1sched_handle_rx_burst, l1sched_handle_rx_probe).
 * The generated translation unit is:   -include shim/trxcon_mframe_shim.h
 *                                      #include "<real> src/host/trxcon/src/sched_mframe.c"   (the real tables, real headers)
 *                                      this prelude
 *                                      the unmodified text of the functions
 * sched_trx.c itself needs talloc.h and a libosmocore newer than the bundled one; only the missing library API is
 * declared here.  Dropped: logging (the macros expand to nothing, their argument expressions are not evaluated). */
#include <errno.h>
#include <osmocom/core/linuxlist.h>	/* REAL bundled */
#include <osmocom/core/msgb.h>		/* REAL bundled */
#include <osmocom/core/talloc.h>	/* REAL bundled: talloc_zero */

#define GSM_TDMA_SUPERFRAME	(26 * 51)
#define GSM_TDMA_HYPERFRAME	(2048 * GSM_TDMA_SUPERFRAME)
#define GSM_TDMA_FN_SUM(a, b)	(((a) + (b)) % GSM_TDMA_HYPERFRAME)
#define GSM_TDMA_FN_INC(fn)	((fn) = GSM_TDMA_FN_SUM((fn), 1))
#ifndef llist_first_entry_or_null
#define llist_first_entry_or_null(ptr, type, member) \
	(!llist_empty(ptr) ? llist_entry((ptr)->next, type, member) : NULL)
#endif
#undef LOGP
#define LOGP(ss, level, fmt, args...)	do { } while (0)
#define LOGL_DEBUG 1
#define LOGL_INFO 3
#define LOGL_NOTICE 5
#define LOGL_ERROR 7

/* static helper of sched_trx.c called by l1sched_configure_ts after the verified prefix (the replay harness defines it) */
static int l1sched_cfg_pchan_comb_ind(struct l1sched_state *sched, uint8_t tn, enum gsm_phys_chan_config pchan);

/* static functions of sched_trx.c called after the lookup (outside the verified prefix; the replay harness defines them) */
static void l1sched_a5_burst_enc(struct l1sched_lchan_state *lchan, struct l1sched_burst_req *br);
static void l1sched_a5_burst_dec(struct l1sched_lchan_state *lchan, struct l1sched_burst_ind *bi);

/* OSMO_ASSERT of libosmocore (osmocom/core/utils.h): a failed assertion ends in osmo_panic(), which does not return.  Declared here in the
 * library's own form when the headers above did not bring it: for CVC a call of osmo_panic is the obligation `call.osmo_panic_unreachable`
 * (engine/cvc/interp.py: _noreturn), the native harnesses define osmo_panic() to abort. */
#ifndef OSMO_ASSERT
void osmo_panic(const char *fmt, ...);
#define OSMO_ASSERT(exp)    \
	if (!(exp)) { \
		osmo_panic("Assert failed %s %s:%d\n", #exp, __FILE__, __LINE__); \
	}
#endif

"""./check <ID> [--tier quick|thorough] [--replay FILE]

Exit 0 held / 1 violation (VIOLATION line) / 2 undecided / 3 checker crash.
"""
import sys, os, json, time, importlib, subprocess, traceback, argparse, fnmatch

sys.dont_write_bytecode = True
import z3
from .common import core
from .common.core import Run, Cover, discharge, model_of, model_of_excluding, write_replay, load_known_findings


def load_prop(pid):
    return importlib.import_module("props.%s" % pid)


def native_replay(pid, payload_path):
    """Run the native replay in a fresh interpreter on the same tree."""
    cmd = [sys.executable, "-m", "engine.cli", pid, "--replay", payload_path, "--json"]
    env = dict(os.environ)
    env["PYTHONPATH"] = core.VERIF
    try:
        p = subprocess.run(cmd, cwd=core.VERIF, env=env, capture_output=True, text=True, timeout=600)
    except subprocess.TimeoutExpired:
        return {"confirmed": False, "error": "replay timeout"}
    for line in reversed(p.stdout.strip().splitlines()):
        if line.startswith("{"):
            try:
                return json.loads(line)
            except ValueError:
                pass
    return {"confirmed": False, "error": "replay produced no verdict", "stdout": p.stdout[-2000:], "stderr": p.stderr[-2000:]}


def do_replay(pid, path, as_json):
    mod = load_prop(pid)
    payload = json.load(open(path if os.path.isabs(path) else os.path.join(core.OUT, path)))
    try:
        res = mod.replay(payload)
    except Exception as e:
        res = {"confirmed": False, "error": "replay crashed: %r" % (e,), "trace": traceback.format_exc()[-1500:]}
    if as_json:
        print(json.dumps(res, default=str))
        return 0
    print(json.dumps(res, indent=1, default=str))
    if res.get("confirmed"):
        print("VIOLATION property=%s replay=%s" % (pid, path))
        return 1
    return 0


def handle_failure(run, mod, o, known):
    """A goal came back `sat`.  Find a witness, replay it natively, classify."""
    pid = run.prop
    budget = run.budget()
    excl = []
    attempts = []
    matching = [k for k in known if k.get("property") == pid and fnmatch.fnmatch(o.name, k.get("obligation", "*"))]
    # 1. known findings: is every counter-model the listed one?
    for k in matching:
        pred = mod.known_predicate(o, k) if hasattr(mod, "known_predicate") else None
        if pred is None:
            continue
        st, m = model_of_excluding(o, [z3.Not(pred)], budget)
        if st == "unsat":
            # every counter-model satisfies the known predicate: replay the known witness to confirm it is still real
            m0 = model_of(o, budget)
            payload = mk_payload(run, mod, o, m0, known=k.get("id"))
            path = write_replay(pid, o.name, payload)
            res = native_replay(pid, path)
            payload["native"] = res
            write_replay(pid, o.name, payload)
            if res.get("confirmed"):
                line = "KNOWN-FINDING: property=%s %s [%s] replay=%s" % (pid, k.get("what", k.get("id")), o.name, path)
                if line not in run.known:
                    run.known.append(line)
                o.status = "known"
                return
        elif st == "sat":
            excl.append(z3.Not(pred))
        else:
            o.status, o.reason = "unknown", "known-finding re-query: %s" % st
            run.undecided.append(o)
            return
    # 2. new witness
    last_path = None
    for attempt in range(4):
        st, m = model_of_excluding(o, excl, budget)
        if st != "sat":
            break
        payload = mk_payload(run, mod, o, m)
        path = write_replay(pid, o.name, payload)
        last_path = path
        res = native_replay(pid, path)
        payload["native"] = res
        write_replay(pid, o.name, payload)
        attempts.append(res)
        if res.get("confirmed"):
            run.violations.append({"obligation": o.name, "replay": path, "confirmed": True, "func": o.func,
                                   "helper": bool(isinstance(o.tag, dict) and o.tag.get("helper")),
                                   # the replay judged the run against the property's statement through a public entry point (not against
                                   # the helper's own contract): it stands without the oracle even when the obligation sits on a helper
                                   "statement_level": bool(res.get("statement_level"))})
            return
        blk = mod.block_model(o, m) if hasattr(mod, "block_model") else None
        if blk is None:
            break
        excl.append(blk)
    if last_path is None:
        payload = mk_payload(run, mod, o, None)
        last_path = write_replay(pid, o.name, payload)
    refuted = bool(attempts) and all(isinstance(a, dict) and a.get("confirmed") is False and not a.get("error") for a in attempts)
    run.violations.append({"obligation": o.name, "replay": last_path, "confirmed": False, "refuted": refuted, "kind": o.kind})


def oracle_modules(pid):
    """the halves of a property's bounded native oracle: oracles/<ID>.py (Python toolkit) and oracles/c_<ID>.py (C code); VERIF_PARTS=py|c
    restricts the run to one side (as it does for the proof parts, props/_combine.py)"""
    only = os.environ.get("VERIF_PARTS")
    mods = []
    for name, side in ((pid, "py"), ("c_" + pid, "c")):
        if only in ("py", "c") and only != side:
            continue
        if os.path.exists(os.path.join(core.VERIF, "oracles", "%s.py" % name)):
            mods.append(name)
    return mods


def have_oracle(pid):
    return bool(oracle_modules(pid))


def run_oracle(run, pid, why, short=False):
    """the property's bounded native oracle (statement-level test of the real code) - run at most once per check"""
    if run.oracle is not None:
        return run.oracle
    if not have_oracle(pid):
        run.oracle = {"missing": True, "why": why}
        return run.oracle
    budget = float(os.environ.get("VERIF_ORACLE_S", "0") or 0) or (120.0 if run.tier == "thorough" else (12.0 if short else 25.0))
    mods = oracle_modules(pid)
    res = {"cases": 0, "failures": [], "bound": "", "halves": mods}
    for k, name in enumerate(mods):
        # both halves exist for the mixed properties: cases summed, failures concatenated, bound texts joined; the budget is shared
        try:
            from oracles.run import run_oracle as _ro
            r1 = _ro(name, budget / len(mods), run.seed)
        except core.WallClock:
            raise
        except Exception as e:
            r1 = {"crash": "%s: %s" % (type(e).__name__, str(e)[:300]), "cases": 0, "failures": []}
        res["cases"] += r1.get("cases") or 0
        res["seconds"] = round((res.get("seconds") or 0.0) + float(r1.get("seconds") or 0.0), 2)
        res["failures"] += [dict(f, half=name) for f in (r1.get("failures") or [])]
        res["bound"] = (res["bound"] + (" || " if res["bound"] else "") + ("[%s] " % name if len(mods) > 1 else "") + (r1.get("bound") or "")).strip()
        if r1.get("crash"):
            res["crash"] = (res.get("crash", "") + (" | " if res.get("crash") else "") + "[%s] %s" % (name, r1["crash"]))[:900]
        for key, val in r1.items():
            if key not in ("cases", "failures", "bound", "crash", "seconds"):
                res.setdefault("extra", {}).setdefault(name, {})[key] = val
    res["why"] = why
    run.oracle = res
    for i, fl in enumerate((res.get("failures") or [])[:3]):
        payload = {"property": pid, "obligation": "%s/bounded-native-oracle/%s" % (pid, fl.get("what", "failure")), "function": "oracles/%s.py" % fl.get("half", pid),
                   "clause": str(fl.get("what", "failure")), "kind": "bounded", "engine": "native oracle (bounded stand-in)", "solver": None,
                   "solver_result": "concrete failing input found by the bounded native oracle", "inputs": fl.get("input"),
                   "native": {"confirmed": True, "observed": fl.get("observed"), "expected": fl.get("expected")},
                   "verifier_output": {"reason": why, "bound": res.get("bound")}, "known_finding": None}
        path = write_replay(pid, payload["obligation"] + "#%d" % i, payload)
        run.violations.append({"obligation": payload["obligation"], "replay": path, "confirmed": True, "oracle": True})
    return res


def mk_payload(run, mod, o, model, known=None):
    inputs = None
    if model is not None and hasattr(mod, "witness"):
        try:
            inputs = mod.witness(o, model)
        except Exception as e:
            inputs = {"error": "witness extraction failed: %r" % (e,)}
    return {
        "property": run.prop, "obligation": o.name, "function": o.func, "clause": o.clause, "case": o.case,
        "kind": o.kind, "where": o.where, "engine": getattr(mod, "ENGINE", "PyVC"),
        "solver": o.backend, "solver_result": "sat (counter-model of PC and not goal)" if model is not None else o.status,
        "inputs": inputs, "tag": o.tag if isinstance(o.tag, (dict, list, str, int, type(None))) else str(o.tag),
        "verifier_output": {"reason": o.reason, "model": str(model)[:4000] if model is not None else None,
                            "goal": str(o.goal)[:2000]},
        "known_finding": known, "note": o.note,
    }


def main(argv=None):
    ap = argparse.ArgumentParser()
    ap.add_argument("prop")
    ap.add_argument("--tier", default=os.environ.get("VERIF_TIER", "quick"))
    ap.add_argument("--replay")
    ap.add_argument("--json", action="store_true")
    ap.add_argument("--list", action="store_true", help="print obligations")
    a = ap.parse_args(argv)
    pid = a.prop
    if a.replay:
        return do_replay(pid, a.replay, a.json)
    seed = int(os.environ.get("VERIF_SEED", "0") or 0)
    tier = a.tier if a.tier in ("quick", "thorough") else "quick"
    run = Run(pid, tier, seed)
    rc = 0
    mod = None
    # wall-clock watchdog: a check that cannot decide in time is UNDECIDED (exit 2), it never hangs and never reports a violation
    import signal
    wall = int(os.environ.get("VERIF_WALL_S", "0") or 0) or (7200 if tier == "thorough" else 1500)

    WallClock = core.WallClock
    fired = []

    def on_alarm(signum, frame):
        fired.append(1)
        signal.alarm(1)           # keep firing: an exception raised inside a destructor is swallowed by the interpreter
        raise WallClock()
    signal.signal(signal.SIGALRM, on_alarm)
    signal.alarm(wall)

    # hard watchdog: a solver call that does not return (z3's native code ignores its own time limit now and then) blocks the signal
    # handler above; this timer thread runs while the main thread sits in the foreign call (ctypes releases the GIL).  It lets the
    # bounded native oracle decide the run, writes the evidence, and ends the process.
    import threading

    def hard_exit():
        code = 2
        try:
            print("UNDECIDED property=%s reason=a solver call did not return within the wall-clock budget of %d s (+60 s)" % (pid, wall), flush=True)
            run.notes.append("undecided: a solver call did not return within the wall-clock budget")
            run.out_of_reach.append({"section": "(solver)", "reason": "a solver call did not return within %d s" % wall})
            for ch in mp_children():
                ch.terminate()
            res = run_oracle(run, pid, "a solver call did not return")
            if run.violations:
                code = 1
                for v in run.violations:
                    if v.get("oracle"):
                        print("VIOLATION property=%s replay=%s" % (pid, v["replay"]), flush=True)
            elif not res.get("missing") and not res.get("crash"):
                code = 0
                print("BOUNDED property=%s proof out of reach (solver call did not return); bounded native oracle stood in: %s cases, 0 failures"
                      % (pid, res.get("cases")), flush=True)
            try:
                run.write_evidence(level="exploration" if code != 2 else "proof")
            except Exception:
                pass
        finally:
            os._exit(code)
    hard = threading.Timer(wall + 60, hard_exit)
    hard.daemon = True
    hard.start()
    try:
        mod = load_prop(pid)
        mod.build(run)
        goals = [o for o in run.obls if not isinstance(o, Cover)]
        if not goals and not run.out_of_reach:
            raise RuntimeError("vacuity guard: zero obligations generated")
        discharge(run.obls, run.budget())
        known = load_known_findings()
        groups = {}
        for o in run.obls:
            if o.status == "failed":
                if isinstance(o, Cover) or o.kind == "cover":
                    run.undecided.append(o)
                    o.reason = "vacuity: cover query unsat / expected path not reached (contradictory pre-condition or a code shape the harness does not drive)"
                else:
                    # one witness search + native replay per failed contract clause (its other paths/cases are listed in the evidence)
                    key = (o.func, o.clause)
                    g = groups.setdefault(key, [])
                    g.append(o)
                    if len(g) <= 2 and len(groups) <= 24:
                        handle_failure(run, mod, o, known)
                    else:
                        run.extra.setdefault("failed_obligations_not_replayed", []).append(o.name)
            elif o.status in ("unknown", "error", None):
                # candidate counter-model without the quantified hypotheses; believed only if it replays natively
                confirmed = False
                if o.status == "unknown" and not isinstance(o, Cover) and len(run.violations) < 6:
                    m = core.relaxed_model(o, 20)
                    if m is not None:
                        payload = mk_payload(run, mod, o, m)
                        payload["solver_result"] = "unknown; candidate model found with quantified hypotheses dropped"
                        path = write_replay(pid, o.name, payload)
                        res = native_replay(pid, path)
                        payload["native"] = res
                        write_replay(pid, o.name, payload)
                        if res.get("confirmed"):
                            run.violations.append({"obligation": o.name, "replay": path, "confirmed": True})
                            o.status = "failed"
                            confirmed = True
                if not confirmed:
                    run.undecided.append(o)
        if run.extra.get("failed_obligations_not_replayed") and not run.violations and not run.known:
            o = [x for x in run.obls if x.status == "failed" and not isinstance(x, Cover)][0]
            handle_failure(run, mod, o, known)
        if hasattr(mod, "post"):
            mod.post(run)
        # bounded native stand-in: (a) sections out of reach, (b) obligations the solver left undecided, (c) failed obligations whose
        # counter-models did not reproduce natively (search for a concrete failing input), (d) thorough tier: always
        # a counter-model that reproduces on an INTERNAL helper (leading underscore) shows that the helper's contract no longer describes it -
        # the decomposition may have moved (responsibility shifted to a caller): only the statement-level oracle can turn that into a violation
        for v in run.violations:
            fn_last = (v.get("func") or (v["obligation"].split("/")[1] if v["obligation"].count("/") >= 2 else "")).split(".")[-1]
            # (helpers: a leading underscore, or the obligation's tag says {"helper": True} - C: a `static` function that is not the property's
            #  mechanism, marked by its contract, engine/cvc/contract.py Contract.helper)
            if v["confirmed"] and not v.get("oracle") and not v.get("statement_level") and (v.get("helper") or (fn_last.startswith("_") and not fn_last.startswith("__"))) and have_oracle(pid):
                v["confirmed"], v["refuted"], v["helper_level"] = False, True, True
        unconfirmed = [v for v in run.violations if not v["confirmed"]]
        needed = bool(run.out_of_reach or run.undecided or (unconfirmed and not any(v["confirmed"] for v in run.violations)))
        if needed or tier == "thorough" or not run.violations:
            # also next to a complete proof (short budget in the quick tier): the oracle is end-to-end, so it sees what a modular proof assumes
            # about callees proved elsewhere (a defect in a dependency shows up here even when this check's own obligations all hold)
            why = ("sections out of reach: " + "; ".join("%s (%s)" % (x["section"], x["reason"][:120]) for x in run.out_of_reach)) if run.out_of_reach else \
                  ("%d obligations undecided by the solvers" % len(run.undecided)) if run.undecided else \
                  ("failed obligations without a reproducing counter-model: search for a concrete failing input" if unconfirmed else
                   ("thorough tier" if tier == "thorough" else "complementary end-to-end exploration next to the proof"))
            run_oracle(run, pid, why, short=not needed)
        # a failed obligation whose every counter-model was replayed on the real code and did NOT reproduce there, while the bounded native
        # oracle finds no failing input either, is an unestablished proof step (brittle contract / abstraction), not a violation:
        # the bounded stand-in decides this run and the evidence says so.  The same holds for a failed obligation whose counter-model could not
        # be executed natively (tools/replay_audit.py keeps that set small: spec-level lemmas, trx_ctrl_cmd, socket read errors); when no oracle
        # can run, a failed obligation is reported as VIOLATION ... no-failing-input-found.
        unconfirmed = [v for v in run.violations if not v["confirmed"]]
        orc_ = run.oracle or {}
        oracle_clean = run.oracle is not None and not orc_.get("missing") and not orc_.get("crash") and not orc_.get("failures")
        if unconfirmed and len(unconfirmed) == len(run.violations) and oracle_clean:
            # no failing input exists for any failed obligation: neither a replayed counter-model nor the statement-level oracle produced one
            for v in unconfirmed:
                how = ("the verifier's counter-models were replayed on the real code and do not reproduce there" if v.get("refuted")
                       else "its counter-model cannot be replayed natively")
                run.out_of_reach.append({"section": v["obligation"], "reason": "obligation not established by the proof; %s, and the bounded native oracle "
                                         "finds no failing input (%s)" % (how, v["replay"])})
            run.extra["unestablished_obligations"] = [v["obligation"] for v in unconfirmed]
            run.violations = []
        if tier == "thorough":
            thorough_extras(run, pid)
    except WallClock:
        run.notes.append("undecided: wall-clock budget of %d s exhausted" % wall)
        print("UNDECIDED property=%s reason=wall-clock budget of %d s exhausted" % (pid, wall))
        for ch in mp_children():
            ch.terminate()
        rc = 2
    except core_unsupported() as e:
        run.notes.append("undecided: %s" % (e,))
        run.out_of_reach.append({"section": "(whole check)", "reason": "construct outside the engine: %s" % (e,)})
        rc = fallback_whole(run, pid, "UNDECIDED property=%s reason=%s" % (pid, e), 2)
    except Exception as e:
        traceback.print_exc()
        run.notes.append("checker crash: %r" % (e,))
        rc = 3
    finally:
        signal.alarm(0)
        hard.cancel()
    if fired and rc == 0:
        run.notes.append("undecided: wall-clock budget of %d s exhausted" % wall)
        print("UNDECIDED property=%s reason=wall-clock budget of %d s exhausted" % (pid, wall))
        rc = 2
    # known findings count as discharged-with-finding for the level accounting
    level = getattr(mod, "LEVEL", "proof") if mod else "proof"
    orc = run.oracle or {}
    stood_in = bool(run.out_of_reach or run.undecided) and run.oracle is not None and not orc.get("missing") and not orc.get("crash")
    if stood_in:
        level = "exploration"
    for o in run.obls:
        if o.status == "known":
            o.status = "proved-known"
    try:
        nk = len([o for o in run.obls if o.status == "proved-known"])
        if nk:
            run.extra["obligations_failing_only_on_known_findings"] = nk
        for o in run.obls:
            if o.status == "proved-known":
                o.status = "proved"
                o.note = "fails only on a listed known finding"
        ev = run.write_evidence(level=level)
    except Exception as e:
        traceback.print_exc()
        rc = 3
        ev = None
    if a.list:
        for o in run.obls:
            print("%-8s %-7.3fs %s" % (o.status, o.time_s, o.name))
    for line in run.known:
        print(line)
    seen_v = set()
    for v in run.violations:
        key = (v["replay"], v["confirmed"])
        if key in seen_v:
            continue
        seen_v.add(key)
        if v["confirmed"]:
            print("VIOLATION property=%s replay=%s" % (pid, v["replay"]))
        else:
            print("VIOLATION property=%s replay=%s obligation=%s no-failing-input-found" % (pid, v["replay"], v["obligation"]))
    if run.violations:
        rc = 1
    elif (run.undecided or run.out_of_reach) and rc == 0:
        if stood_in:
            print("BOUNDED property=%s proof out of reach for this code shape (%s); bounded native oracle stood in: %s cases, 0 failures"
                  % (pid, "; ".join(x["section"] for x in run.out_of_reach) or "%d undecided obligations" % len(run.undecided), orc.get("cases")))
        else:
            for o in run.undecided[:20]:
                print("UNDECIDED %s: %s" % (o.name, o.reason))
            for x in run.out_of_reach[:20]:
                print("UNDECIDED property=%s reason=section %s out of reach: %s" % (pid, x["section"], x["reason"]))
            rc = 2
    if ev is not None:
        c = ev["coverage"]
        print("%s %s: %d obligations, %d discharged, %d cover, %d violations, %d known, %d undecided, %.1fs"
              % (pid, tier, c["obligations"], c["discharged"], c["cover_queries"], len(run.violations), len(run.known),
                 len(run.undecided), ev["wall_s"]))
    return rc


def fallback_whole(run, pid, line, rc):
    """the whole driver fell out of reach: the bounded native oracle decides this run (or the old verdict stays when there is none)"""
    try:
        res = run_oracle(run, pid, line)
    except core.WallClock:
        res = {"missing": True}
    if res.get("missing") or res.get("crash"):
        print(line)
        return rc
    return 0


def thorough_extras(run, pid):
    """Thorough tier = quick (with 180 s per query) + guards against an unsound or vacuous engine:
       1. differential self-test of the PyVC engine against CPython, seeded by VERIF_SEED (disagreement = checker failure);
       2. second-solver confirmation: a sample of the discharged obligations is re-decided by cvc5 (a `sat` there = checker failure);
       3. the mutation catalogue of this property on scratch copies (survivors are recorded; they do not change the verdict)."""
    import random
    from .common.core import _solve_cvc5
    # 1
    try:
        from .pyvc import selftest
        checks, bad = selftest.run(run.seed, 150)
        run.extra["engine_selftest"] = {"comparisons": checks, "disagreements": [str(b)[:200] for b in bad[:10]]}
        if bad:
            raise RuntimeError("PyVC engine disagrees with CPython on %d of %d comparisons: %s" % (len(bad), checks, bad[0]))
    except ImportError:
        pass
    # 2
    rnd = random.Random(run.seed)
    proved = [o for o in run.obls if o.status == "proved" and not isinstance(o, Cover) and o.smt2 and "declare-datatypes" not in o.smt2]
    sample = rnd.sample(proved, min(len(proved), 120))
    agree = unknown = 0
    for o in sample:
        st, t, reason = _solve_cvc5(o.smt2, 20000)
        if st == "unsat":
            agree += 1
        elif st == "sat":
            raise RuntimeError("solver disagreement: z3 says unsat, cvc5 says sat for %s" % o.name)
        else:
            unknown += 1
    run.extra["second_solver"] = {"sampled": len(sample), "cvc5_unsat": agree, "cvc5_unknown": unknown}
    # 3
    try:
        sys.path.insert(0, os.path.join(core.VERIF, "tools"))
        import run_mutants
        from mutants.catalogue import MUTANTS
        if pid in MUTANTS and not os.environ.get("VERIF_NO_MUTANTS"):
            res = run_mutants.run(pid, wall=600)
            run.extra["mutation_catalogue"] = {k: v for k, v in res.items()}
            run.notes.append("mutation catalogue: %d killed, %d survived, %d undecided; harmless edits: %d green, %d alarms" % (
                len(res["killed"]), len(res["survived"]), len(res["undecided"]), len(res["harmless_green"]), len(res["harmless_alarm"])))
    except Exception as e:      # the catalogue is a self-test of the checker, never a verdict on the repository
        run.notes.append("mutation catalogue not run: %r" % (e,))


def mp_children():
    import multiprocessing
    return multiprocessing.active_children()


def core_unsupported():
    from .pyvc.values import Unsupported
    return Unsupported


if __name__ == "__main__":
    sys.exit(main())

"""Glue between property drivers and the PyVC engine: live-module loading, path enumeration,
obligation construction."""
import os, sys, importlib, inspect, types
import z3

from ..common import core
from ..common.core import Obligation, Cover
from .values import *
from .interp import Engine, qualname, func_ast, Path, PathCut
from . import models

_LOADED = {}


def toolkit(name):
    """Import a live trx_toolkit module from $VERIF_REPO (the code that runs)."""
    if core.TOOLKIT not in sys.path:
        sys.path.insert(0, core.TOOLKIT)
    if name not in _LOADED:
        sys.dont_write_bytecode = True
        _LOADED[name] = importlib.import_module(name)
        f = os.path.realpath(_LOADED[name].__file__)
        if not f.startswith(os.path.realpath(core.TOOLKIT)):
            raise RuntimeError("module %s loaded from %s, not from %s" % (name, f, core.TOOLKIT))
    return _LOADED[name]


def raw(cls, name):
    """The plain function object behind cls.name (unwrapping staticmethod/classmethod/property)."""
    r = inspect.getattr_static(cls, name)
    if isinstance(r, (staticmethod, classmethod)):
        return r.__func__
    if isinstance(r, property):
        return r.fget
    return r


def where(func):
    code = func.__code__
    return "%s:%d" % (os.path.relpath(code.co_filename, core.REPO), code.co_firstlineno)


def live_template(cls):
    """instance attributes of a live object of a toolkit class, built by the real constructor with the sockets stubbed"""
    import io
    from contracts.py.native import native_trx, patch_sockets
    patch_sockets()
    name = cls.__name__
    mod = cls.__module__
    if mod in ("fake_trx", "transceiver") and name in ("FakeTRX", "Transceiver"):
        obj = native_trx()
        if name == "Transceiver" and type(obj) is not cls:
            return dict(vars(obj))
        return dict(vars(obj))
    if name in ("DATAInterface", "CTRLInterfaceTRX", "CTRLInterface", "UDPLink"):
        t = native_trx()
        for o in (t.data_if, t.ctrl_if, getattr(t, "clck_if", None)):
            if o is not None and isinstance(o, cls):
                return dict(vars(o))
        return None
    if name == "CLCKGen":
        return dict(vars(cls([])))
    if name in ("BurstForwarder", "TRXList"):
        return dict(vars(cls([]))) if name == "BurstForwarder" else dict(vars(cls()))
    if name == "DATADumpFile":
        return dict(vars(cls(io.BytesIO())))
    if name == "HoppingParams":
        return dict(vars(cls(0, 0, [(1, 2)])))
    try:
        return dict(vars(cls()))
    except Exception:
        return None


def new_engine():
    E = Engine(models)
    E.template_factory = live_template
    return E


def run_paths(E, setup, invoke):
    """Explore all paths of `invoke(E, ctx)` from the symbolic state built by `setup(E)`.
    Returns [(Path, ctx, outcome)], outcome = ('return', value) | ('raise', ExcVal)."""
    def runp(E):
        ctx = setup(E)
        try:
            v = invoke(E, ctx)
            out = ("return", v)
        except PyRaise as e:
            out = ("raise", e.exc)
        except PathCut:
            out = ("cut", None)
        return (ctx, out)
    res = []
    for p in E.explore(runp):
        if p.outcome[0] == "cut":
            res.append((p, None, ("cut", None)))
            continue
        ctx, out = p.outcome[1]
        res.append((p, ctx, out))
    return res


def path_obligations(run, prop, func, p, case="", tag=None):
    """Obligations raised inside a path via E.require (callee pre-conditions, loop invariants etc.)."""
    out = []
    fn = qualname(func) if not isinstance(func, str) else func
    for (clause, pc, goal, meta) in p.obls:
        t = dict(tag or {})
        t.update(meta)
        out.append(Obligation(prop, fn, clause, pc, goal, kind=meta.get("kind", "pre"), case=case,
                              where=meta.get("where", "") or (where(func) if not isinstance(func, str) else ""), tag=t))
    return out


def register_fn(run, func, how="contract"):
    code = func.__code__
    run.fn(qualname(func), os.path.relpath(code.co_filename, core.REPO), code.co_firstlineno, how)


def note_engine(run, E):
    for q in sorted(E.inlined):
        run.inlined.add(q)
    for m in sorted(E.used_models):
        run.trust("model:" + m)


def par_cases(run, E, cases, fn):
    """fn(case) -> list of Obligations; cases are explored in parallel worker processes.
    Obligations come back frozen (SMT-LIB text + metadata)."""
    def job(i):
        E.inlined.clear()
        E.used_models.clear()
        p0 = E.stats["paths"]
        obls = fn(cases[i]) or []
        return ([o.freeze() for o in obls], sorted(E.inlined), sorted(E.used_models), E.stats["paths"] - p0)
    for frozen, inl, used, npaths in core.par_map(job, len(cases)):
        for d in frozen:
            run.add(Obligation.thaw(d))
        E.inlined.update(inl)
        E.used_models.update(used)
        E.stats["paths"] += npaths


def exc_note(exc):
    """human-readable description of a symbolic path's exception (for the obligation's note / the replay file)"""
    try:
        args = getattr(exc, "args", ()) or ()
        return "%s(%s)%s" % (exc.cls.__name__, ", ".join(str(a)[:80] for a in args), " [implicit: %s]" % exc.implicit if getattr(exc, "implicit", None) else "")
    except Exception:
        return str(exc)[:200]


def sect(run, fn, *a, **k):
    """Run one section of a property driver.  When the section's contracts cannot be bound to the current code (a construct outside the
    engine, a loop contract whose roles cannot be resolved, a harness-side exception), the section is recorded as out of reach - the
    bounded native oracle stands in for this run - instead of aborting the whole check.  Its partial obligations are dropped."""
    n0 = len(run.obls)
    try:
        return fn(*a, **k)
    except core.WallClock:
        raise
    except Unsupported as e:
        reason = "construct outside the engine: %s" % (e,)
    except (KeyboardInterrupt, SystemExit):
        raise
    except Exception as e:
        import traceback
        tb = traceback.extract_tb(e.__traceback__)
        reason = "contract could not be bound to the code: %s: %s (%s)" % (type(e).__name__, str(e)[:200], "%s:%d" % (os.path.basename(tb[-1].filename), tb[-1].lineno) if tb else "")
    del run.obls[n0:]
    run.out_of_reach.append({"section": getattr(fn, "__name__", str(fn)), "reason": reason[:400]})
    return None


def local_roles(func):
    """Facts about a function's locals, from its AST, so that loop contracts can bind by use instead of by name:
      returned        names appearing as `return <name>`
      appended        names x with a call x.append(...) anywhere
      aug_added       names x with `x += ...`
      assigned_call   {attr-or-function name: [local names assigned from a call of it]}  (e.g. 'monotonic_ns' -> ['t_next', 't'])
      order           first assignment line of each local"""
    import ast
    node = func_ast(func)[0]
    r = {"returned": [], "appended": [], "aug_added": [], "assigned_call": {}, "order": {}}
    for n in ast.walk(node):
        if isinstance(n, ast.Return) and isinstance(n.value, ast.Name) and n.value.id not in r["returned"]:
            r["returned"].append(n.value.id)
        if isinstance(n, ast.Call) and isinstance(n.func, ast.Attribute) and n.func.attr == "append" and isinstance(n.func.value, ast.Name) \
                and n.func.value.id not in r["appended"]:
            r["appended"].append(n.func.value.id)
        if isinstance(n, ast.AugAssign) and isinstance(n.op, ast.Add) and isinstance(n.target, ast.Name) and n.target.id not in r["aug_added"]:
            r["aug_added"].append(n.target.id)
        if isinstance(n, ast.Assign) and len(n.targets) == 1 and isinstance(n.targets[0], ast.Name):
            nm = n.targets[0].id
            r["order"].setdefault(nm, n.lineno)
            if isinstance(n.value, ast.BinOp) and isinstance(n.value.op, ast.Add) and nm not in r["aug_added"] and \
                    any(isinstance(x, ast.Name) and x.id == nm for x in (n.value.left, n.value.right)):
                r["aug_added"].append(nm)          # x = x + ... is the same advance as x += ...
            v = n.value
            while isinstance(v, ast.Call):
                fn = v.func.attr if isinstance(v.func, ast.Attribute) else (v.func.id if isinstance(v.func, ast.Name) else None)
                if fn:
                    r["assigned_call"].setdefault(fn, [])
                    if nm not in r["assigned_call"][fn]:
                        r["assigned_call"][fn].append(nm)
                v = v.args[0] if v.args and isinstance(v.args[0], ast.Call) else None
    return r


def bind_props(E, obj):
    """State a contract gives to a symbolic object under the name the class now exposes as a *property* (a representation change:
    `_rx_freq` kept in a list, `clck_src` derived from a base and a counter, ...) is installed through the property's own setter, on top
    of the representation a live object of the class has (template attributes).  Attributes that are plain stay as given."""
    if not isinstance(obj, SObj):
        return obj
    for name in list(obj.attrs):
        raw_ = inspect.getattr_static(obj.cls, name, None)
        if isinstance(raw_, property):
            v = obj.attrs.pop(name)
            if raw_.fset is None:
                raise Unsupported("contract state %s.%s is a read-only property now" % (obj.cls.__name__, name))
            E.call(raw_.fset, [obj, v])
    return obj


def cur_attr(E, obj, name):
    """current value of an attribute of a symbolic object as the CODE sees it (through a property getter if the class has one)"""
    if isinstance(obj, SObj) and name in obj.attrs:
        return obj.attrs[name]
    return E.getattr(obj, name)

"""Glue between property drivers and the PyVC engine: live-module loading, path enumeration,
obligation construction."""
import os, sys, importlib, inspect, types
import z3

from ..common import core
from ..common.core import Obligation, Cover
from .values import *
from .interp import Engine, qualname, func_ast, Path, PathCut
from . import models

_LOADED = {}


def toolkit(name):
    """Import a live trx_toolkit module from $VERIF_REPO (the code that runs)."""
    if core.TOOLKIT not in sys.path:
        sys.path.insert(0, core.TOOLKIT)
    if name not in _LOADED:
        sys.dont_write_bytecode = True
        _LOADED[name] = importlib.import_module(name)
        f = os.path.realpath(_LOADED[name].__file__)
        if not f.startswith(os.path.realpath(core.TOOLKIT)):
            raise RuntimeError("module %s loaded from %s, not from %s" % (name, f, core.TOOLKIT))
    return _LOADED[name]


def raw(cls, name):
    """The plain function object behind cls.name (unwrapping staticmethod/classmethod/property)."""
    r = inspect.getattr_static(cls, name)
    if isinstance(r, (staticmethod, classmethod)):
        return r.__func__
    if isinstance(r, property):
        return r.fget
    return r


def where(func):
    code = func.__code__
    return "%s:%d" % (os.path.relpath(code.co_filename, core.REPO), code.co_firstlineno)


def new_engine():
    return Engine(models)


def run_paths(E, setup, invoke):
    """Explore all paths of `invoke(E, ctx)` from the symbolic state built by `setup(E)`.
    Returns [(Path, ctx, outcome)], outcome = ('return', value) | ('raise', ExcVal)."""
    def runp(E):
        ctx = setup(E)
        try:
            v = invoke(E, ctx)
            out = ("return", v)
        except PyRaise as e:
            out = ("raise", e.exc)
        except PathCut:
            out = ("cut", None)
        return (ctx, out)
    res = []
    for p in E.explore(runp):
        if p.outcome[0] == "cut":
            res.append((p, None, ("cut", None)))
            continue
        ctx, out = p.outcome[1]
        res.append((p, ctx, out))
    return res


def path_obligations(run, prop, func, p, case="", tag=None):
    """Obligations raised inside a path via E.require (callee pre-conditions, loop invariants etc.)."""
    out = []
    fn = qualname(func) if not isinstance(func, str) else func
    for (clause, pc, goal, meta) in p.obls:
        t = dict(tag or {})
        t.update(meta)
        out.append(Obligation(prop, fn, clause, pc, goal, kind=meta.get("kind", "pre"), case=case,
                              where=meta.get("where", "") or (where(func) if not isinstance(func, str) else ""), tag=t))
    return out


def register_fn(run, func, how="contract"):
    code = func.__code__
    run.fn(qualname(func), os.path.relpath(code.co_filename, core.REPO), code.co_firstlineno, how)


def note_engine(run, E):
    for q in sorted(E.inlined):
        run.inlined.add(q)
    for m in sorted(E.used_models):
        run.trust("model:" + m)


def par_cases(run, E, cases, fn):
    """fn(case) -> list of Obligations; cases are explored in parallel worker processes.
    Obligations come back frozen (SMT-LIB text + metadata)."""
    def job(i):
        E.inlined.clear()
        E.used_models.clear()
        p0 = E.stats["paths"]
        obls = fn(cases[i]) or []
        return ([o.freeze() for o in obls], sorted(E.inlined), sorted(E.used_models), E.stats["paths"] - p0)
    for frozen, inl, used, npaths in core.par_map(job, len(cases)):
        for d in frozen:
            run.add(Obligation.thaw(d))
        E.inlined.update(inl)
        E.used_models.update(used)
        E.stats["paths"] += npaths

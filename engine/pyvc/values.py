"""Value model of the PyVC symbolic interpreter (see DESIGN.md 3.2)."""
import z3


class Unsupported(Exception):
    """The engine met a construct it has no semantics for -> obligation undecided (exit 2), never a violation."""


class Infeasible(Exception):
    """Current path condition is unsatisfiable."""


class SInt:
    __slots__ = ("t",)

    def __init__(self, t):
        self.t = t

    def __repr__(self):
        return "SInt(%s)" % self.t


class SBool:
    __slots__ = ("t",)

    def __init__(self, t):
        self.t = t

    def __repr__(self):
        return "SBool(%s)" % self.t


class SOpt:
    """A value that is None when `isnone` holds, else `val`."""
    __slots__ = ("isnone", "val")

    def __init__(self, isnone, val):
        self.isnone, self.val = isnone, val

    def __repr__(self):
        return "SOpt(%s,%s)" % (self.isnone, self.val)


class SSeq:
    """Sequence of integers with (possibly symbolic) length.

    kind in: bytes bytearray memoryview array_b array_B list tuple
    `get(i)` maps an index term (python int or z3 Int) to an element (python int or z3 Int).
    Mutable kinds are mutated in place (object identity = aliasing)."""

    MUTABLE = ("bytearray", "array_b", "array_B", "list")

    def __init__(self, kind, length, get):
        self.kind, self.length, self.get = kind, length, get

    def __repr__(self):
        return "SSeq(%s,len=%s)" % (self.kind, self.length)

    def clone(self, kind=None):
        return SSeq(kind or self.kind, self.length, self.get)


class SObj:
    """Heap object with concrete identity; attributes in a python dict."""
    _n = [0]

    def __init__(self, cls, attrs=None, label=None):
        self.cls = cls
        self.attrs = attrs if attrs is not None else {}
        SObj._n[0] += 1
        self.oid = SObj._n[0]
        self.label = label or "%s#%d" % (cls.__name__, self.oid)
        self.deleted = set()

    def __repr__(self):
        return "<SObj %s>" % self.label


class SRef:
    """Object with symbolic identity `idt` (z3 Int); scalar attributes live in the engine's
    attribute arrays (Burstall model), declared by the contract's schema."""

    def __init__(self, cls, idt, schema):
        self.cls, self.idt, self.schema = cls, idt, schema

    def __repr__(self):
        return "<SRef %s %s>" % (self.cls.__name__, self.idt)


class BoundMethod:
    def __init__(self, selfv, func):
        self.selfv, self.func = selfv, func


class Closure:
    """Nested function / lambda defined inside interpreted code."""

    def __init__(self, node, env, glob, name="<lambda>"):
        self.node, self.env, self.glob, self.name = node, env, glob, name


class ExcVal:
    """A raised exception instance."""

    def __init__(self, cls, args=(), cause=None, implicit=None):
        self.cls, self.args, self.cause, self.implicit = cls, args, cause, implicit

    def __repr__(self):
        return "ExcVal(%s)" % self.cls.__name__


class PyRaise(Exception):
    def __init__(self, exc):
        self.exc = exc


class FmtStr:
    """Result of string formatting / str(): text is opaque, the parts are kept for contracts."""

    def __init__(self, fmt, args=()):
        self.fmt, self.args = fmt, tuple(args)

    def __repr__(self):
        return "FmtStr(%r,%r)" % (self.fmt, self.args)


class SFlt:
    """float value `t * scale` for an integer term t (only what CLCKGen needs: ns -> seconds conversions)"""
    __slots__ = ("t", "scale")

    def __init__(self, t, scale):
        self.t, self.scale = t, scale

    def __repr__(self):
        return "SFlt(%s*%g)" % (self.t, self.scale)


class SQuot:
    """the float a / b of two integers (b a non-zero python int): kept exact, the float rounding is applied by int()"""
    __slots__ = ("a", "b")

    def __init__(self, a, b):
        self.a, self.b = a, b

    def __repr__(self):
        return "SQuot(%s/%s)" % (self.a, self.b)


class SStr:
    """Symbolic string token (z3 String)."""
    __slots__ = ("t",)

    def __init__(self, t):
        self.t = t

    def __repr__(self):
        return "SStr(%s)" % self.t


def is_sym(v):
    return isinstance(v, (SInt, SBool, SOpt, SSeq, SRef, SStr))


def to_z3int(v):
    if isinstance(v, SInt):
        return v.t
    if isinstance(v, bool):
        return z3.IntVal(1 if v else 0)
    if isinstance(v, int):
        return z3.IntVal(v)
    if isinstance(v, SBool):
        return z3.If(v.t, z3.IntVal(1), z3.IntVal(0))
    if z3.is_expr(v):
        return v
    raise Unsupported("not an int: %r" % (v,))


def to_z3bool(v):
    if isinstance(v, SBool):
        return v.t
    if isinstance(v, bool):
        return z3.BoolVal(v)
    if z3.is_expr(v):
        return v
    raise Unsupported("not a bool: %r" % (v,))


def wrap_int(t):
    """z3 term / python int -> engine value (concrete when the term is a numeral)."""
    if isinstance(t, int):
        return t
    t = z3.simplify(t)
    if z3.is_int_value(t):
        return t.as_long()
    return SInt(t)


def wrap_bool(t):
    if isinstance(t, bool):
        return t
    t = z3.simplify(t)
    if z3.is_true(t):
        return True
    if z3.is_false(t):
        return False
    return SBool(t)

"""Trusted library of PyVC: semantics of operators, builtins and the stdlib functions the toolkit uses.

Every entry here is an *assumption* (listed in the evidence as trusted base) and is differential-tested
against CPython by engine/pyvc/selftest.py.
"""
import ast, struct, array, random, logging, threading, builtins, enum, inspect, types, time, re, sys
import z3

from .values import *
from .interp import (BuiltinMethod, SliceV, Generator, SRange, SLock, SFile, Namespace, qualname)

_REG = {}       # id(obj) -> (obj, model)


def register(obj, name=None):
    def deco(fn):
        fn._model_name = name or getattr(obj, "__qualname__", getattr(obj, "__name__", str(obj)))
        _REG[id(obj)] = (obj, fn)
        return fn
    return deco


def lookup(fv):
    try:
        ent = _REG.get(id(fv))
    except Exception:
        return None
    if ent is not None and ent[0] is fv:
        return ent[1]
    # bound builtins are fresh objects at every access (int.from_bytes is not int.from_bytes): match by owner and name
    if isinstance(fv, types.BuiltinFunctionType) and getattr(fv, "__self__", None) is int and fv.__name__ == "from_bytes":
        return m_from_bytes
    return None


# ------------------------------------------------------------------ helpers

def entails(E, cond):
    return not E.feasible(z3.Not(cond))


def zint(v):
    return to_z3int(v)


def is_intlike(v):
    return isinstance(v, (int, SInt, SBool)) and not isinstance(v, float)


def seq_len(s):
    return s.length


def mk_seq(kind, items):
    """Concrete-length SSeq from a python list of (python int | z3 Int)."""
    items = list(items)
    n = len(items)

    def get(i):
        if isinstance(i, int):
            return items[i]
        r = zint(items[-1]) if n else z3.IntVal(0)
        for k in range(n - 2, -1, -1):
            r = z3.If(i == k, zint(items[k]), r)
        return r
    s = SSeq(kind, n, get)
    s.items = items
    return s


def table_fn(table):
    """Exact piecewise-linear representation of a concrete int table (run compression)."""
    vals = [int(x) for x in table]
    runs = []
    i = 0
    n = len(vals)
    while i < n:
        j = i + 1
        slope = None
        if j < n:
            slope = vals[j] - vals[i]
            if slope not in (-1, 0, 1):
                slope = None
            else:
                while j + 1 < n and vals[j + 1] - vals[j] == slope:
                    j += 1
                j += 1
        if slope is None:
            runs.append((i, i + 1, 0, vals[i]))
            i += 1
        else:
            runs.append((i, j, slope, vals[i] - slope * i))
            i = j

    def f(x):
        if isinstance(x, int):
            return vals[x]
        r = None
        for (lo, hi, a, c) in reversed(runs):
            e = (a * x + c) if a else z3.IntVal(c)
            r = e if r is None else z3.If(x < hi, e, r)
        return r
    f.runs = runs
    return f


_TABLES = {}


def table_of(obj):
    k = id(obj)
    if k not in _TABLES:
        _TABLES[k] = (obj, table_fn(list(obj)))
    return _TABLES[k][1]


def raw_byte(kind, v):
    """element -> raw buffer byte 0..255"""
    if kind == "array_b":
        if isinstance(v, int):
            return v % 256
        return z3.If(v < 0, v + 256, v)
    return v


def from_raw(kind, v):
    if kind == "array_b":
        if isinstance(v, int):
            return v - 256 if v >= 128 else v
        return z3.If(v >= 128, v - 256, v)
    return v


def conv_seq(src, kind):
    """Reinterpret the raw bytes of a bytes-like as another kind (buffer protocol)."""
    sk = src.kind
    g = src.get
    if (sk == "array_b") == (kind == "array_b"):
        return SSeq(kind, src.length, g)
    return SSeq(kind, src.length, lambda i: from_raw(kind, raw_byte(sk, g(i))))


BYTESLIKE = ("bytes", "bytearray", "memoryview", "array_b", "array_B")


def as_seq(E, v, what="buffer"):
    """python bytes/bytearray/list/tuple of ints or SSeq -> SSeq view."""
    if isinstance(v, SSeq):
        return v
    if isinstance(v, (bytes, bytearray)):
        return mk_seq("bytes" if isinstance(v, bytes) else "bytearray", list(v))
    if isinstance(v, array.array):
        return mk_seq("array_b" if v.typecode == "b" else "array_B", list(v))
    if isinstance(v, (list, tuple)):
        items = []
        for x in v:
            items.append(E.as_int(x, "element"))
        return mk_seq("list", items)
    if isinstance(v, Generator):
        return as_seq(E, v.items)
    if isinstance(v, SOpt):
        return as_seq(E, E.deopt(v), what)
    if v is None:
        E.raise_(TypeError, "NoneType is not a %s" % what, implicit="none-buffer")
    raise Unsupported("as_seq(%r)" % (v,))


def concat(a, b, kind):
    la, lb = a.length, b.length
    ga, gb = a.get, b.get

    def get(i):
        if isinstance(i, int) and isinstance(la, int):
            return ga(i) if i < la else gb(i - la)
        return z3.If(zint(i) < zint(la), zint(ga(i)), zint(gb(zint(i) - zint(la))))
    if isinstance(la, int) and isinstance(lb, int):
        n = la + lb
    else:
        n = z3.simplify(zint(la) + zint(lb))
    return SSeq(kind, n, get)


def norm_index(E, n, i, exc=IndexError):
    """Python index normalisation with bounds check. n, i: python int or z3."""
    if isinstance(i, int) and isinstance(n, int):
        if i < 0:
            i += n
        if not (0 <= i < n):
            E.raise_(exc, "index out of range", implicit="index")
        return i
    if isinstance(n, int) and not isinstance(i, int):
        lo, hi = E.interval(i)
        if lo is not None and hi is not None and 0 <= lo and hi < n:
            return i
    zi, zn = zint(i), zint(n)
    ok = z3.And(zi >= -zn, zi < zn)
    if not E.branch(ok):
        E.raise_(exc, "index out of range", implicit="index")
    if isinstance(i, int):
        return i if i >= 0 else z3.simplify(zi + zn)
    lo, _hi = E.interval(zi)
    if (lo is not None and lo >= 0) or entails(E, zi >= 0):
        return zi
    return z3.If(zi < 0, zi + zn, zi)


def clamp_slice(E, n, lo, hi):
    """(start, stop) per CPython slice semantics (step 1); n/lo/hi python int, z3 or None."""
    def fix(x, default):
        if x is None:
            return default
        x = E.as_int(x, "slice index")
        if isinstance(x, int) and isinstance(n, int):
            if x < 0:
                x = max(0, x + n)
            return min(x, n)
        zx, zn = zint(x), zint(n)
        if isinstance(x, int):
            if x >= 0:
                if isinstance(n, int):
                    return min(x, n)
                lo, _hi = E.interval(zn)
                if (lo is not None and lo >= x) or entails(E, zn >= x):
                    return x
                return z3.If(zx > zn, zn, zx)
            return z3.If(zx + zn < 0, z3.IntVal(0), zx + zn)
        y = z3.If(zx < 0, z3.If(zx + zn < 0, z3.IntVal(0), zx + zn), zx)
        return z3.If(y > zn, zn, y)
    a = fix(lo, 0)
    b = fix(hi, n)
    return a, b


def slice_seq(E, s, sl, kind=None):
    if sl.step is not None and sl.step != 1:
        step = sl.step
        if isinstance(step, int) and isinstance(s.length, int) and (sl.lo is None or isinstance(sl.lo, int)) \
                and (sl.hi is None or isinstance(sl.hi, int)):
            idxs = list(range(s.length))[slice(sl.lo, sl.hi, step)]
            return mk_seq(kind or s.kind, [s.get(i) for i in idxs])
        raise Unsupported("slice step on symbolic sequence")
    a, b = clamp_slice(E, s.length, sl.lo, sl.hi)
    g = s.get
    if isinstance(a, int) and isinstance(b, int):
        n = max(0, b - a)
        return SSeq(kind or s.kind, n, (lambda i: g(i + a)) if a else g)
    za, zb = zint(a), zint(b)
    n = z3.simplify(z3.If(zb - za < 0, z3.IntVal(0), zb - za))
    if z3.is_int_value(n):
        n = n.as_long()
    if isinstance(a, int) and a == 0:
        return SSeq(kind or s.kind, n, g)
    return SSeq(kind or s.kind, n, lambda i: g(z3.simplify(zint(i) + za)))


def obj_seq(arr, length, wrap, unwrap):
    """list of symbolic-identity objects: z3 array of ids + length; wrap(id term) -> SRef, unwrap(value) -> id term"""
    s = SSeq("list", length, None)
    s.arr, s.wrap, s.unwrap = arr, wrap, unwrap
    s.get = lambda i: s.wrap(z3.Select(s.arr, zint(i)))
    return s


def fresh_seq(E, name, kind, length, lo=None, hi=None):
    """Fresh symbolic integer sequence backed by a z3 array; element range facts are
    instantiated lazily at every access (quantifier-free)."""
    if lo is None:
        lo, hi = {"array_b": (-128, 127)}.get(kind, (0, 255))
    arr = z3.Array(name, z3.IntSort(), z3.IntSort())
    from ..common.core import ranged_array
    ranged_array(name, lo, hi)

    def get(i):
        t = z3.Select(arr, zint(i))
        E.assume(z3.And(t >= lo, t <= hi))
        return t
    s = SSeq(kind, length, get)
    s.arr = arr
    s.range = (lo, hi)
    return s


# ------------------------------------------------------------------ arithmetic

def linear_form(t, coefs, const, mul=1, depth=0):
    """accumulate t * mul into coefs {id: [coef, term]} / const[0]; returns False when t is not linear in atoms"""
    if depth > 60:
        return False
    if z3.is_int_value(t):
        const[0] += mul * t.as_long()
        return True
    if z3.is_app(t):
        k = t.decl().kind()
        if k == z3.Z3_OP_ADD:
            return all(linear_form(c, coefs, const, mul, depth + 1) for c in t.children())
        if k == z3.Z3_OP_SUB:
            ch = t.children()
            return linear_form(ch[0], coefs, const, mul, depth + 1) and all(linear_form(c, coefs, const, -mul, depth + 1) for c in ch[1:])
        if k == z3.Z3_OP_UMINUS:
            return linear_form(t.arg(0), coefs, const, -mul, depth + 1)
        if k == z3.Z3_OP_MUL:
            ch = t.children()
            nums = [c for c in ch if z3.is_int_value(c)]
            rest = [c for c in ch if not z3.is_int_value(c)]
            if len(rest) == 1:
                m = mul
                for c in nums:
                    m *= c.as_long()
                return linear_form(rest[0], coefs, const, m, depth + 1)
            if not rest:
                m = mul
                for c in nums:
                    m *= c.as_long()
                const[0] += m
                return True
    e = coefs.setdefault(t.get_id(), [0, t])
    e[0] += mul
    return True


def exact_div(t, c):
    """t / c as a term when every coefficient of the linear form of t is divisible by c (so the division is exact), else None"""
    coefs, const = {}, [0]
    if not linear_form(t, coefs, const):
        return None
    if const[0] % c or any(v[0] % c for v in coefs.values()):
        return None
    terms = [(v[1] if v[0] // c == 1 else (v[0] // c) * v[1]) for v in coefs.values() if v[0] // c != 0]
    if const[0] // c or not terms:
        terms.append(z3.IntVal(const[0] // c))
    return z3.Sum(terms) if len(terms) > 1 else terms[0]


def floordiv(E, a, b):
    if isinstance(a, int) and isinstance(b, int):
        if b == 0:
            E.raise_(ZeroDivisionError, implicit="div0")
        return a // b
    za, zb = zint(a), zint(b)
    if isinstance(b, int):
        if b == 0:
            E.raise_(ZeroDivisionError, implicit="div0")
        ex = exact_div(z3.simplify(za), b)
        if ex is not None:
            return ex
        return za / zb if b > 0 else (-za) / z3.IntVal(-b)
    if E.branch(zb == 0):
        E.raise_(ZeroDivisionError, implicit="div0")
    if entails(E, zb > 0):
        return za / zb
    return z3.If(zb > 0, za / zb, (-za) / (-zb))


def pymod(E, a, b):
    if isinstance(a, int) and isinstance(b, int):
        if b == 0:
            E.raise_(ZeroDivisionError, implicit="div0")
        return a % b
    za, zb = zint(a), zint(b)
    if isinstance(b, int):
        if b == 0:
            E.raise_(ZeroDivisionError, implicit="div0")
        if b > 0:
            return za % zb
        return za - zb * ((-za) / z3.IntVal(-b))
    if E.branch(zb == 0):
        E.raise_(ZeroDivisionError, implicit="div0")
    if entails(E, zb > 0):
        return za % zb
    return za - zb * z3.If(zb > 0, za / zb, (-za) / (-zb))


def and_const(x, c):
    """x & c for concrete c >= 0, x any z3 Int: sum over runs of one-bits."""
    if c == 0:
        return z3.IntVal(0)
    terms = []
    s = 0
    while c >> s:
        if (c >> s) & 1:
            m = 0
            while (c >> (s + m)) & 1:
                m += 1
            t = x if s == 0 else x / z3.IntVal(1 << s)
            t = t % z3.IntVal(1 << m)
            terms.append(t if s == 0 else t * z3.IntVal(1 << s))
            s += m
        else:
            s += 1
    return z3.Sum(terms) if len(terms) > 1 else terms[0]


def width_of(E, x):
    lo, hi = E.interval(x)
    if lo is not None and hi is not None and lo >= 0:
        for w in (1, 2, 3, 4, 5, 6, 7, 8, 16, 32, 64):
            if hi < (1 << w):
                return w
    for w in (1, 2, 3, 4, 5, 6, 7, 8, 16, 32, 64):
        if entails(E, z3.And(x >= 0, x < (1 << w))):
            return w
    return None


def and_sym(E, x, y):
    from ..common import bits
    wx, wy = width_of(E, x), width_of(E, y)
    if wx is None and wy is None:
        raise Unsupported("bitwise op on unbounded symbolic ints")
    if wx is None or wy is None:
        if not entails(E, z3.And(x >= 0, y >= 0)):
            raise Unsupported("bitwise and with possibly negative operand")
        w = wx or wy
        if wx is None:
            x = x % (1 << w)
        else:
            y = y % (1 << w)
    else:
        w = min(wx, wy)
        if wx > w:
            x = x % (1 << w)
        if wy > w:
            y = y % (1 << w)
    return E.note_bounds(bits.and_bits(x, y, w), 0, (1 << w) - 1)


def sym_width(E, a, b):
    wa = width_of(E, zint(a)) if not isinstance(a, int) else (a.bit_length() if a >= 0 else None)
    wb = width_of(E, zint(b)) if not isinstance(b, int) else (b.bit_length() if b >= 0 else None)
    if wa is None or wb is None:
        return None
    return max(wa, wb)


def low_zeros(t, depth=0):
    """number of guaranteed zero low bits of an integer term (syntactic; 10**6 stands for 'the term is 0')"""
    INF = 10 ** 6
    if isinstance(t, int):
        return INF if t == 0 else (t & -t).bit_length() - 1
    if z3.is_int_value(t):
        return low_zeros(t.as_long())
    if depth > 40 or not z3.is_app(t):
        return 0
    k = t.decl().kind()
    if k == z3.Z3_OP_MUL:
        return min(INF, sum(low_zeros(c, depth + 1) for c in t.children()))
    if k in (z3.Z3_OP_ADD, z3.Z3_OP_SUB, z3.Z3_OP_ITE):
        ch = t.children()[1:] if k == z3.Z3_OP_ITE else t.children()
        return min(low_zeros(c, depth + 1) for c in ch)
    if k == z3.Z3_OP_UMINUS:
        return low_zeros(t.arg(0), depth + 1)
    if k == z3.Z3_OP_MOD and z3.is_int_value(t.arg(1)):
        d = t.arg(1).as_long()
        if d > 0 and d & (d - 1) == 0:
            lz = low_zeros(t.arg(0), depth + 1)
            return INF if lz >= d.bit_length() - 1 else lz
    return 0


def disjoint_bits(E, x, y):
    """x >= 0 is a multiple of 2^k and 0 <= y < 2^k for some k (decided syntactically + by interval analysis)"""
    if isinstance(x, int) or isinstance(y, int):
        return False
    ylo, yhi = E.interval(y)
    xlo, _ = E.interval(x)
    if ylo is None or yhi is None or ylo < 0 or xlo is None or xlo < 0:
        return False
    return low_zeros(x) >= max(yhi, 0).bit_length()


def bit_and(E, a, b):
    if isinstance(a, int) and isinstance(b, int):
        return a & b
    if not isinstance(a, int) and not isinstance(b, int) and (disjoint_bits(E, a, b) or disjoint_bits(E, b, a)):
        return z3.IntVal(0)
    if isinstance(b, int) and b >= 0:
        return and_const(zint(a), b)
    if isinstance(a, int) and a >= 0:
        return and_const(zint(b), a)
    if isinstance(a, int) or isinstance(b, int):
        raise Unsupported("& with negative constant")
    return and_sym(E, a, b)


def int_binop(E, op, a, b):
    """a, b: python int or z3 Int"""
    if isinstance(a, int) and isinstance(b, int) and op not in (ast.FloorDiv, ast.Mod, ast.Div, ast.Pow, ast.LShift, ast.RShift):
        return {ast.Add: a + b, ast.Sub: a - b, ast.Mult: a * b, ast.BitAnd: a & b, ast.BitOr: a | b,
                ast.BitXor: a ^ b}[op]
    if op is ast.Add:
        return zint(a) + zint(b)
    if op is ast.Sub:
        return zint(a) - zint(b)
    if op is ast.Mult:
        return zint(a) * zint(b)
    if op is ast.FloorDiv:
        return floordiv(E, a, b)
    if op is ast.Mod:
        return pymod(E, a, b)
    if op is ast.BitAnd:
        return bit_and(E, a, b)
    if op is ast.BitOr:
        w = sym_width(E, a, b)
        r = zint(a) + zint(b) - zint(bit_and(E, a, b))
        return E.note_bounds(r, 0, (1 << w) - 1) if w is not None else r
    if op is ast.BitXor:
        w = sym_width(E, a, b)
        r = zint(a) + zint(b) - 2 * zint(bit_and(E, a, b))
        return E.note_bounds(r, 0, (1 << w) - 1) if w is not None else r
    if op in (ast.LShift, ast.RShift):
        if not isinstance(b, int):
            # symbolic shift count: enumerate when bounded small
            w = None
            for k in range(0, 65):
                if entails(E, z3.And(b >= 0, b <= k)):
                    w = k
                    break
            if w is None:
                raise Unsupported("symbolic shift count")
            r = None
            for k in range(w, -1, -1):
                e = zint(int_binop(E, op, a, k))
                r = e if r is None else z3.If(b == k, e, r)
            return r
        if b < 0:
            E.raise_(ValueError, "negative shift count", implicit="shift")
        if isinstance(a, int):
            return a << b if op is ast.LShift else a >> b
        return zint(a) * (1 << b) if op is ast.LShift else zint(a) / z3.IntVal(1 << b)
    if op is ast.Pow:
        if isinstance(a, int) and isinstance(b, int) and b >= 0:
            return a ** b
        if isinstance(a, int) and a == 2:
            for k in range(0, 129):
                if entails(E, z3.And(b >= 0, b <= k)):
                    r = None
                    for j in range(k, -1, -1):
                        r = z3.IntVal(1 << j) if r is None else z3.If(b == j, z3.IntVal(1 << j), r)
                    return r
        raise Unsupported("symbolic power")
    if op is ast.Div:
        if isinstance(b, int) and not isinstance(a, int):
            if b == 0:
                E.raise_(ZeroDivisionError, implicit="div0")
            return SQuot(zint(a), b)
        raise Unsupported("true division on symbolic ints")
    raise Unsupported("int op %s" % op.__name__)


def binop(E, op, a, b, inplace=False):
    # concrete fast path
    if not is_sym(a) and not is_sym(b) and not isinstance(a, (SObj, FmtStr, list)) and not isinstance(b, (SObj, FmtStr, list)):
        if isinstance(a, (int, float, str, bytes, tuple)) and isinstance(b, (int, float, str, bytes, tuple)) \
                and not (op is ast.Mod and isinstance(a, str)):
            try:
                return _PYOP[op](a, b)
            except ZeroDivisionError:
                E.raise_(ZeroDivisionError, implicit="div0")
            except TypeError:
                E.raise_(TypeError, "bad operand types", implicit="type")
    # string formatting
    if op is ast.Mod and isinstance(a, str):
        return format_str(E, a, b)
    if op is ast.Add and isinstance(a, (str, FmtStr, SStr)) and isinstance(b, (str, FmtStr, SStr)):
        return str_concat(a, b)
    if op is ast.Mult and isinstance(a, list) and isinstance(b, int):
        return a * b
    if op is ast.Mult and isinstance(a, (bytes,)) :
        n = E.as_int(b)
        if isinstance(n, int):
            return a * n
        if len(a) == 1:
            c = a[0]
            E_n = z3.If(n < 0, z3.IntVal(0), n)
            return SSeq("bytes", z3.simplify(E_n), lambda i: c)
        raise Unsupported("bytes * symbolic")
    # sequences
    if isinstance(a, SSeq) or isinstance(b, SSeq) or isinstance(a, (bytearray,)) or (isinstance(a, list) and op is ast.Add):
        if op is ast.Add:
            if isinstance(a, list) and not isinstance(b, SSeq):
                items = E.iterate(b) if not isinstance(b, list) else b
                if inplace:
                    a.extend(items)
                    return a
                if not isinstance(b, list):
                    E.raise_(TypeError, "can only concatenate list", implicit="type")
                return a + list(items)
            if isinstance(a, list) and isinstance(b, SSeq) and inplace:
                a.extend(E.iterate(b))
                return a
            sa, sb = as_seq(E, a), as_seq(E, b)
            if sa.kind not in BYTESLIKE or sb.kind not in BYTESLIKE:
                raise Unsupported("concat of %s and %s" % (sa.kind, sb.kind))
            sbk = conv_seq(sb, "bytes") if sb.kind.startswith("array") else sb
            if inplace and isinstance(a, SSeq) and a.kind in SSeq.MUTABLE:
                r = concat(a.clone(), sbk, a.kind)
                a.length, a.get = r.length, r.get
                return a
            return concat(sa, sbk, sa.kind)
        raise Unsupported("sequence op %s" % op.__name__)
    if isinstance(a, (list, tuple)) and isinstance(b, (list, tuple)) and op is ast.Add:
        return a + b
    if isinstance(a, SFlt) or isinstance(b, SFlt) or isinstance(a, float) or isinstance(b, float):
        # integer-term times float constant (nanosecond conversions); anything else is outside the model
        for x in (a, b):
            if isinstance(x, SInt) and op in (ast.Mult, ast.Div, ast.FloorDiv, ast.Add, ast.Sub):
                # CPython converts the int operand to a double first: OverflowError beyond the double range
                lim = z3.IntVal((1 << 1024) - (1 << 970))
                if E.branch(z3.Or(x.t >= lim, x.t <= -lim)):
                    E.raise_(OverflowError, "int too large to convert to float", implicit="int2float")
        if op is ast.Mult and isinstance(a, (SInt, SFlt)) and isinstance(b, float):
            return SFlt(a.t, (a.scale if isinstance(a, SFlt) else 1.0) * b)
        if op is ast.Mult and isinstance(b, (SInt, SFlt)) and isinstance(a, float):
            return SFlt(b.t, (b.scale if isinstance(b, SFlt) else 1.0) * a)
        if op in (ast.FloorDiv, ast.Div) and isinstance(a, SFlt) and isinstance(b, float) and b != 0:
            return SFlt(a.t, a.scale / b)
        if op is ast.Div and isinstance(a, SInt) and isinstance(b, float) and b != 0:
            return SFlt(a.t, 1.0 / b)
        raise Unsupported("float arithmetic with symbolic operand")
    x = E.as_int(a)
    y = E.as_int(b)
    r = int_binop(E, op, x, y)
    return r if isinstance(r, SQuot) else wrap_int(r)


_PYOP = {ast.Add: lambda a, b: a + b, ast.Sub: lambda a, b: a - b, ast.Mult: lambda a, b: a * b,
         ast.FloorDiv: lambda a, b: a // b, ast.Mod: lambda a, b: a % b, ast.Div: lambda a, b: a / b,
         ast.BitAnd: lambda a, b: a & b, ast.BitOr: lambda a, b: a | b, ast.BitXor: lambda a, b: a ^ b,
         ast.LShift: lambda a, b: a << b, ast.RShift: lambda a, b: a >> b, ast.Pow: lambda a, b: a ** b}


# ------------------------------------------------------------------ strings

_SPEC = re.compile(r"%(?:\((\w+)\))?([#0\- +]*)(\*|\d+)?(?:\.(\*|\d+))?([diouxXeEfFgGcrsa%])")


def str_of(E, v):
    """str(v): evaluates __str__ of toolkit objects (it can raise); result opaque unless concrete."""
    if isinstance(v, (str, int, float, bool, bytes)) or v is None:
        return str(v)
    if isinstance(v, (SObj, SRef)):
        s = inspect.getattr_static(v.cls, "__str__", None)
        if isinstance(s, types.FunctionType):
            if isinstance(v, SRef):
                from .interp import qualname
                if qualname(s) not in E.summaries:
                    # symbolic-identity objects carry only the attributes of the contract's schema: their text is opaque
                    E.used_models.add("str(symbolic-identity %s): __str__ assumed pure and total" % v.cls.__name__)
                    return FmtStr("obj", (v,))
            return E.call(s, [v])
        return FmtStr("<obj>", ())
    if isinstance(v, SOpt):
        return str_of(E, E.deopt(v))
    if isinstance(v, SInt):
        return FmtStr("int", (v,))
    if isinstance(v, enum.Enum):
        return str(v)
    if isinstance(v, (SStr, FmtStr)):
        return v
    return FmtStr("str", (v,))


def format_str(E, fmt, arg):
    specs = [m for m in _SPEC.finditer(fmt)]
    convs = [m for m in specs if m.group(5) != "%"]
    if isinstance(arg, tuple):
        args = list(arg)
    else:
        args = [arg]
    if len(convs) != len(args):
        if len(convs) == 1 and isinstance(arg, tuple):
            pass
        E.raise_(TypeError, "format arity", implicit="format")
    parts = []
    concrete = True
    for m, a in zip(convs, args):
        c = m.group(5)
        if c in "diouxXeEfFgG":
            if isinstance(a, SOpt):
                a = E.deopt(a)
            if a is None or isinstance(a, (str, bytes, SSeq, SObj, SRef, FmtStr, tuple, list, SStr)):
                E.raise_(TypeError, "%%%s format: a number is required" % c, implicit="format")
            if isinstance(a, enum.Enum):
                E.raise_(TypeError, "%%%s format: a number is required" % c, implicit="format")
            if is_sym(a) or isinstance(a, SFlt):
                concrete = False
            parts.append(a)
        elif c == "c":
            raise Unsupported("%c format")
        else:
            s = str_of(E, a)
            if not isinstance(s, str):
                concrete = False
            parts.append(s)
    if concrete:
        try:
            return fmt % tuple(parts)
        except Exception as ex:
            E.raise_(type(ex), str(ex), implicit="format")
    return FmtStr(fmt, parts)


def str_pieces(v):
    """Canonical form of a structured string: a list of literal str pieces and atoms (IntTok-like tokens, FmtStr('int', (x,)) for a
    formatted integer, opaque objects), adjacent literals merged - the same list whether the text was built with `+`, `%`, str.join,
    an f-string or str.format-free code.  None when some part has no flat form (width/precision specs, %r ...)."""
    out = []

    def lit(t):
        if t == "":
            return
        if out and isinstance(out[-1], str):
            out[-1] += t
        else:
            out.append(t)

    def walk(x):
        if isinstance(x, str):
            lit(x)
            return True
        if isinstance(x, (int,)) and not isinstance(x, bool):
            lit(str(x))
            return True
        if isinstance(x, SInt):
            out.append(FmtStr("int", (x,)))
            return True
        if isinstance(x, FmtStr):
            if x.fmt == "concat":
                return walk(x.args[0]) and walk(x.args[1])
            if x.fmt == "join":
                sep, parts = x.args
                for i, p_ in enumerate(parts):
                    if i and not walk(sep):
                        return False
                    if not walk(p_):
                        return False
                return True
            if x.fmt in ("encode", "f-string"):
                if x.fmt == "encode":
                    return walk(x.args[0])
                return all(walk(p_) for p_ in x.args)
            if x.fmt in ("int", "tok", "obj", "str", "desc_hdr", "<obj>"):
                out.append(x)
                return True
            if "%" in x.fmt:
                # a %-format with plain conversions only
                pos, args = 0, list(x.args)
                for m in _SPEC.finditer(x.fmt):
                    lit(x.fmt[pos:m.start()].replace("%%", "%"))
                    pos = m.end()
                    if m.group(5) == "%":
                        lit("%")
                        continue
                    if m.group(1) or m.group(2) or m.group(3) or m.group(4) or not args:
                        return False
                    a = args.pop(0)
                    if m.group(5) in "diu":
                        if isinstance(a, int) and not isinstance(a, bool):
                            lit(str(a))
                        else:
                            out.append(FmtStr("int", (a,)))
                    elif m.group(5) == "s":
                        if not walk(a):
                            return False
                    else:
                        return False
                lit(x.fmt[pos:].replace("%%", "%"))
                return True
            out.append(x)
            return True
        out.append(x)            # token objects (IntTok, BadTok, ...)
        return True
    return out if walk(v) else None


def str_concat(a, b):
    if isinstance(a, str) and isinstance(b, str):
        return a + b
    return FmtStr("concat", (a, b))


# ------------------------------------------------------------------ comparison

def seq_items_concrete(s):
    return [s.get(i) for i in range(s.length)]


def eq(E, a, b):
    """== ; returns bool / SBool"""
    if hasattr(a, "pyvc_eq"):
        return a.pyvc_eq(E, b)
    if hasattr(b, "pyvc_eq"):
        return b.pyvc_eq(E, a)
    if isinstance(a, SOpt):
        if b is None:
            return wrap_bool(a.isnone)
        a = E.deopt(a)
    if isinstance(b, SOpt):
        if a is None:
            return wrap_bool(b.isnone)
        b = E.deopt(b)
    if a is None or b is None:
        return a is b
    if is_intlike(a) and is_intlike(b):
        if isinstance(a, int) and isinstance(b, int):
            return a == b
        return wrap_bool(zint(a) == zint(b))
    if isinstance(a, (SObj, SRef)) or isinstance(b, (SObj, SRef)):
        for o in (a, b):
            if isinstance(o, (SObj, SRef)) and inspect.getattr_static(o.cls, "__eq__", None) is not object.__eq__:
                raise Unsupported("user-defined __eq__")
        return ident(E, a, b)
    if isinstance(a, SStr) or isinstance(b, SStr):
        if isinstance(a, (str, SStr)) and isinstance(b, (str, SStr)):
            ta = a.t if isinstance(a, SStr) else z3.StringVal(a)
            tb = b.t if isinstance(b, SStr) else z3.StringVal(b)
            return wrap_bool(ta == tb)
        return False
    if isinstance(a, SSeq) or isinstance(b, SSeq):
        if not isinstance(a, (SSeq, bytes, bytearray, list, tuple)) or not isinstance(b, (SSeq, bytes, bytearray, list, tuple)):
            return False
        sa, sb = as_seq(E, a), as_seq(E, b)
        la, lb = sa.length, sb.length
        if isinstance(la, int) and isinstance(lb, int):
            if la != lb:
                return False
            n = la
        elif isinstance(la, int) or isinstance(lb, int):
            n = la if isinstance(la, int) else lb
            if not E.branch(zint(la) == zint(lb)):
                return False
        else:
            # both lengths symbolic: equality as a fresh boolean defined by (lengths equal and all elements equal); the negative
            # direction is skolemised (a witness index), the positive one is a universal fact (also instantiated lazily by z3)
            if sa.kind in BYTESLIKE and sb.kind in BYTESLIKE:
                el = lambda q, i: zint(raw_byte(q.kind, q.get(i)))
            else:
                el = lambda q, i: zint(q.get(i))
            if not E.branch(zint(la) == zint(lb)):
                return False
            if E.branch(z3.Bool(E.fresh("seq_eq"))):
                k = z3.Int(E.fresh("k!eq"))
                E.assume(z3.ForAll([k], z3.Implies(z3.And(k >= 0, k < zint(la)), el(sa, k) == el(sb, k))))
                return True
            w = E.fresh_int("k!neq")
            E.assume(z3.And(w >= 0, w < zint(la), el(sa, w) != el(sb, w)))
            return False
        conj = []
        for i in range(n):
            x, y = raw_byte(sa.kind, sa.get(i)) if sa.kind in BYTESLIKE and sb.kind in BYTESLIKE else sa.get(i), \
                raw_byte(sb.kind, sb.get(i)) if sa.kind in BYTESLIKE and sb.kind in BYTESLIKE else sb.get(i)
            if isinstance(x, int) and isinstance(y, int):
                if x != y:
                    return False
            else:
                conj.append(zint(x) == zint(y))
        if not conj:
            return True
        return wrap_bool(z3.And(conj) if len(conj) > 1 else conj[0])
    if isinstance(a, tuple) and isinstance(b, tuple):
        if len(a) != len(b):
            return False
        r = True
        for x, y in zip(a, b):
            c = eq(E, x, y)
            if c is False:
                return False
            if c is not True:
                r = c if r is True else wrap_bool(z3.And(to_z3bool(r), to_z3bool(c)))
        return r
    if isinstance(a, FmtStr) or isinstance(b, FmtStr):
        raise Unsupported("comparison of formatted strings")
    try:
        return a == b
    except Exception:
        raise Unsupported("eq(%r,%r)" % (a, b))


def ident(E, a, b):
    if isinstance(a, SOpt):
        if b is None:
            return wrap_bool(a.isnone)
        a = E.deopt(a)
    if isinstance(b, SOpt):
        if a is None:
            return wrap_bool(b.isnone)
        b = E.deopt(b)
    if isinstance(a, SRef) or isinstance(b, SRef):
        ia = a.idt if isinstance(a, SRef) else (z3.IntVal(-a.oid) if isinstance(a, SObj) else None)
        ib = b.idt if isinstance(b, SRef) else (z3.IntVal(-b.oid) if isinstance(b, SObj) else None)
        if ia is None or ib is None:
            return False
        return wrap_bool(ia == ib)
    if is_sym(a) or is_sym(b):
        if a is None or b is None:
            return False
        if isinstance(a, SBool) and isinstance(b, bool):
            return wrap_bool(a.t if b else z3.Not(a.t))
        if isinstance(b, SBool) and isinstance(a, bool):
            return wrap_bool(b.t if a else z3.Not(b.t))
        if a is b:
            return True
        raise Unsupported("identity of symbolic values %r / %r" % (a, b))
    return a is b


def contains(E, item, cont):
    if hasattr(cont, "pyvc_contains"):
        return cont.pyvc_contains(E, item)
    if isinstance(cont, range):
        if cont.step != 1:
            raise Unsupported("range step")
        if isinstance(item, SOpt):
            item = E.deopt(item)
        if item is None:
            return False
        if isinstance(item, int):
            return item in cont
        if isinstance(item, (SInt, SBool)):
            t = zint(item)
            return wrap_bool(z3.And(t >= cont.start, t < cont.stop))
        return False
    if isinstance(cont, SRange):
        if isinstance(item, SOpt):
            item = E.deopt(item)
        if item is None:
            return False
        t = zint(E.as_int(item))
        return wrap_bool(z3.And(t >= zint(cont.lo), t < zint(cont.hi)))
    if isinstance(cont, (tuple, list)):
        r = False
        for x in cont:
            c = eq(E, item, x)
            if c is True:
                return True
            if c is not False:
                r = c if r is False else wrap_bool(z3.Or(to_z3bool(r), to_z3bool(c)))
        return r
    if isinstance(cont, dict):
        if isinstance(item, str):
            return item in cont
        raise Unsupported("symbolic dict key")
    if isinstance(cont, str) and isinstance(item, str):
        return item in cont
    if isinstance(cont, SSeq) and getattr(cont, "contains", None):
        return cont.contains(E, item)
    if isinstance(cont, SSeq) and getattr(cont, "unwrap", None) is not None and not isinstance(cont.length, int):
        # membership in a list of symbolic-identity objects: exists j < len. ids[j] == id(item)
        j = z3.Int(E.fresh("mem.j"))
        b = z3.Bool(E.fresh("member"))
        rid = cont.unwrap(item)
        E.assume(b == z3.Exists([j], z3.And(j >= 0, j < zint(cont.length), z3.Select(cont.arr, j) == rid)))
        return wrap_bool(b)
    if isinstance(cont, SSeq) and isinstance(cont.length, int):
        return contains(E, item, [wrap_int(cont.get(i)) for i in range(cont.length)])
    raise Unsupported("contains(%r in %r)" % (item, cont))


def compare(E, op, a, b):
    if op is ast.Is:
        return ident(E, a, b)
    if op is ast.IsNot:
        r = ident(E, a, b)
        return (not r) if isinstance(r, bool) else wrap_bool(z3.Not(r.t))
    if op is ast.In:
        return contains(E, a, b)
    if op is ast.NotIn:
        r = contains(E, a, b)
        return (not r) if isinstance(r, bool) else wrap_bool(z3.Not(r.t))
    if op is ast.Eq:
        return eq(E, a, b)
    if op is ast.NotEq:
        r = eq(E, a, b)
        return (not r) if isinstance(r, bool) else wrap_bool(z3.Not(r.t))
    # ordering
    if isinstance(a, (int, float)) and isinstance(b, (int, float)):
        return {ast.Lt: a < b, ast.LtE: a <= b, ast.Gt: a > b, ast.GtE: a >= b}[op]
    if isinstance(a, float) or isinstance(b, float):
        raise Unsupported("float comparison with symbolic value")
    x = E.as_int(a, "comparison operand")
    y = E.as_int(b, "comparison operand")
    zx, zy = zint(x), zint(y)
    return wrap_bool({ast.Lt: zx < zy, ast.LtE: zx <= zy, ast.Gt: zx > zy, ast.GtE: zx >= zy}[op])


# ------------------------------------------------------------------ subscripts

def getitem(E, obj, idx):
    if isinstance(obj, SOpt):
        obj = E.deopt(obj)
    if hasattr(obj, "pyvc_getitem"):
        return obj.pyvc_getitem(E, idx)
    if obj is None:
        E.raise_(TypeError, "NoneType is not subscriptable", implicit="none-subscript")
    if isinstance(obj, SSeq):
        if isinstance(idx, SliceV):
            kind = obj.kind
            return slice_seq(E, obj, idx, kind)
        i = norm_index(E, obj.length, E.as_int(idx, "index"))
        v = obj.get(i)
        if isinstance(v, (int,)) or z3.is_expr(v):
            return wrap_int(v)
        return v
    if isinstance(obj, (list, tuple, str, bytes, range)):
        if isinstance(idx, SliceV):
            lo, hi, st = idx.lo, idx.hi, idx.step
            if all(x is None or isinstance(x, int) for x in (lo, hi, st)):
                return obj[slice(lo, hi, st)]
            raise Unsupported("symbolic slice of concrete sequence")
        i = E.as_int(idx, "index")
        n = len(obj)
        if isinstance(i, int):
            if not (-n <= i < n):
                E.raise_(IndexError, "index out of range", implicit="index")
            return obj[i]
        # symbolic index into a concrete sequence
        j = norm_index(E, n, i)
        items = list(obj)
        if all(isinstance(x, int) for x in items):
            return wrap_int(table_or_chain(obj, items, j))
        # fork over the index
        k = None
        for c in range(n):
            if E.branch(j == c):
                k = c
                break
        if k is None:
            raise Infeasible()
        return items[k]
    if isinstance(obj, dict):
        if isinstance(idx, str) or isinstance(idx, int):
            if idx not in obj:
                E.raise_(KeyError, idx, implicit="key")
            return obj[idx]
        raise Unsupported("symbolic dict key")
    if isinstance(obj, (SObj, SRef)):
        gi = inspect.getattr_static(obj.cls, "__getitem__", None)
        if isinstance(gi, types.FunctionType):
            return E.call(gi, [obj, idx])
    if isinstance(obj, ExcVal):
        raise Unsupported("subscript of exception")
    raise Unsupported("getitem(%r)" % (obj,))


_CHAIN = {}


def table_or_chain(obj, items, j):
    k = id(obj)
    if k not in _CHAIN or _CHAIN[k][0] is not obj:
        if len(items) > 16:
            from ..common.core import uf_table
            _CHAIN[k] = (obj, uf_table(items))
        else:
            _CHAIN[k] = (obj, table_fn(items))
    return _CHAIN[k][1](j)


def setitem(E, obj, idx, v):
    if isinstance(obj, dict):
        if isinstance(idx, (str, int)):
            obj[idx] = v
            return
        raise Unsupported("symbolic dict key")
    if isinstance(obj, list):
        i = E.as_int(idx)
        if isinstance(i, int):
            if not (-len(obj) <= i < len(obj)):
                E.raise_(IndexError, implicit="index")
            obj[i] = v
            return
        raise Unsupported("symbolic list store")
    if isinstance(obj, SSeq) and obj.kind in SSeq.MUTABLE:
        i = norm_index(E, obj.length, E.as_int(idx))
        x = E.as_int(v)
        check_elem(E, obj.kind, x)
        g = obj.get
        obj.get = lambda k: (x if isinstance(k, int) and isinstance(i, int) and k == i else
                             (g(k) if isinstance(k, int) and isinstance(i, int) else
                              z3.If(zint(k) == zint(i), zint(x), zint(g(k)))))
        return
    if isinstance(obj, (SObj, SRef)):
        si = inspect.getattr_static(obj.cls, "__setitem__", None)
        if isinstance(si, types.FunctionType):
            return E.call(si, [obj, idx, v])
    raise Unsupported("setitem(%r)" % (obj,))


def check_elem(E, kind, x):
    lo, hi, exc = {"bytearray": (0, 255, ValueError), "bytes": (0, 255, ValueError),
                   "array_B": (0, 255, OverflowError), "array_b": (-128, 127, OverflowError)}.get(kind, (None, None, None))
    if lo is None:
        return
    if isinstance(x, int):
        if not (lo <= x <= hi):
            E.raise_(exc, "element out of range", implicit="elem-range")
        return
    if not E.branch(z3.And(x >= lo, x <= hi)):
        E.raise_(exc, "element out of range", implicit="elem-range")


# ------------------------------------------------------------------ methods of engine values

def method(E, obj, name, args, kwargs):
    if hasattr(obj, "pyvc_method"):
        return obj.pyvc_method(E, name, args, kwargs)
    if isinstance(obj, struct.Struct):
        return StructObj.method(E, obj, name, args, kwargs)
    if isinstance(obj, SSeq):
        return seq_method(E, obj, name, args, kwargs)
    if isinstance(obj, list):
        return list_method(E, obj, name, args, kwargs)
    if isinstance(obj, dict):
        if name == "get":
            k = args[0]
            return obj.get(k, args[1] if len(args) > 1 else None)
        if name == "clear":
            obj.clear()
            return None
        if name in ("keys", "values", "items"):
            return list(getattr(obj, name)())
        raise Unsupported("dict.%s" % name)
    if isinstance(obj, (str, FmtStr, SStr)):
        return str_method(E, obj, name, args, kwargs)
    if isinstance(obj, bytes):
        if name == "join":
            if hasattr(args[0], "pyvc_join"):
                return args[0].pyvc_join(E, obj)
            parts = [as_seq(E, p) for p in E.iterate(args[0])]
            if obj != b"":
                raise Unsupported("bytes.join with separator")
            r = mk_seq("bytes", [])
            for p in parts:
                if p.kind not in BYTESLIKE:
                    E.raise_(TypeError, "join item", implicit="type")
                r = concat(r, conv_seq(p, "bytes") if p.kind.startswith("array") else p, "bytes")
            return r
        if name == "hex":
            return obj.hex()
        return seq_method(E, as_seq(E, obj), name, args, kwargs)
    if isinstance(obj, SLock):
        if name == "acquire":
            return ctx_enter(E, obj)
        if name == "release":
            return ctx_exit(E, obj)
    if isinstance(obj, SFile):
        return file_method(E, obj, name, args, kwargs)
    if isinstance(obj, (int, SInt)) and name == "to_bytes":
        return int_to_bytes(E, obj, *args, **kwargs)
    if isinstance(obj, tuple):
        if name == "index" or name == "count":
            return getattr(obj, name)(*args)
    raise Unsupported("method %s of %r" % (name, obj))


def list_method(E, obj, name, args, kwargs):
    if name == "append":
        obj.append(args[0])
        return None
    if name == "extend":
        obj.extend(E.iterate(args[0]))
        return None
    if name == "clear":
        obj.clear()
        return None
    if name == "insert":
        i = args[0]
        if not isinstance(i, int):
            raise Unsupported("symbolic insert position")
        obj.insert(i, args[1])
        return None
    if name == "pop":
        if not obj:
            E.raise_(IndexError, "pop from empty list", implicit="index")
        return obj.pop(*args)
    if name == "remove":
        for i, x in enumerate(obj):
            c = eq(E, x, args[0])
            if E.truth(c):
                del obj[i]
                return None
        E.raise_(ValueError, "list.remove(x): x not in list", implicit="remove")
    if name == "copy":
        return list(obj)
    if name == "index":
        for i, x in enumerate(obj):
            if E.truth(eq(E, x, args[0])):
                return i
        E.raise_(ValueError, "not in list", implicit="index")
    raise Unsupported("list.%s" % name)


def seq_method(E, s, name, args, kwargs):
    if name == "append" and getattr(s, "unwrap", None) is not None:
        rid = s.unwrap(args[0])
        s.arr = z3.Store(s.arr, zint(s.length), rid)
        s.length = z3.simplify(zint(s.length) + 1) if not isinstance(s.length, int) else s.length + 1
        return None
    if name == "clear" and getattr(s, "unwrap", None) is not None:
        s.length = 0
        return None
    if name == "append":
        x = E.as_int(args[0], "element")
        if s.kind not in SSeq.MUTABLE:
            E.raise_(AttributeError, "append", implicit="attr")
        check_elem(E, s.kind, x)
        r = concat(s.clone(), mk_seq(s.kind, [x]), s.kind)
        s.length, s.get = r.length, r.get
        return None
    if name == "extend":
        if s.kind not in SSeq.MUTABLE:
            E.raise_(AttributeError, "extend", implicit="attr")
        o = as_seq(E, args[0])
        if s.kind == "bytearray":
            if o.kind in BYTESLIKE:
                o = conv_seq(o, "bytes") if o.kind.startswith("array") else o
            else:
                # list of ints: range check on every element
                if isinstance(o.length, int):
                    for i in range(o.length):
                        check_elem(E, "bytearray", o.get(i))
                else:
                    raise Unsupported("extend with symbolic-length list")
        r = concat(s.clone(), o, s.kind)
        s.length, s.get = r.length, r.get
        return None
    if name == "translate":
        tab = args[0]
        if s.kind not in ("bytes", "bytearray"):
            E.raise_(AttributeError, "translate", implicit="attr")
        if isinstance(tab, SSeq):
            raise Unsupported("symbolic translation table")
        tl = list(as_concrete_bytes(tab))
        if len(tl) != 256:
            E.raise_(ValueError, "translation table must be 256 characters long", implicit="translate")
        f = table_of_list(tab, tl)
        g = s.get
        return SSeq(s.kind, s.length, lambda i: f(g(i)))
    if name == "tobytes":
        return conv_seq(s, "bytes")
    if name == "hex":
        return FmtStr("hex", (s,))
    if name == "clear":
        s.length, s.get = 0, (lambda i: 0)
        return None
    if name == "decode":
        raise Unsupported("bytes.decode on symbolic data")
    if name == "copy":
        return s.clone()
    raise Unsupported("%s.%s" % (s.kind, name))


def as_concrete_bytes(tab):
    if isinstance(tab, array.array):
        return tab.tobytes()
    if isinstance(tab, (bytes, bytearray)):
        return bytes(tab)
    raise Unsupported("translation table %r" % (tab,))


_TL = {}


def table_of_list(obj, tl):
    k = id(obj)
    if k not in _TL or _TL[k][0] is not obj:
        _TL[k] = (obj, table_fn(tl))
    return _TL[k][1]


def str_method(E, s, name, args, kwargs):
    if isinstance(s, str) and all(isinstance(a, (str, int)) or a is None for a in args):
        try:
            return getattr(s, name)(*args, **kwargs)
        except Exception as ex:
            E.raise_(type(ex), str(ex), implicit="str")
    if name == "format" and isinstance(s, str) and not kwargs:
        # "...{}...{}".format(a, b): auto-numbered or explicitly numbered plain fields only
        import string as _string
        parts, auto = [], 0
        try:
            fields = list(_string.Formatter().parse(s))
        except ValueError as ex:
            E.raise_(ValueError, str(ex), implicit="format")
        for lit, field, spec, conv in fields:
            if lit:
                parts.append(lit)
            if field is None:
                continue
            if spec or conv not in (None, "s"):
                raise Unsupported("str.format with a format spec / conversion")
            if field == "":
                idx, auto = auto, auto + 1
            elif field.isdigit():
                idx = int(field)
            else:
                raise Unsupported("str.format with a named / attribute field")
            if idx >= len(args):
                E.raise_(IndexError, "Replacement index %d out of range for positional args tuple" % idx, implicit="format")
            parts.append(str_of(E, args[idx]))
        if all(isinstance(x, str) for x in parts):
            return "".join(parts)
        return FmtStr("f-string", parts)
    if name in ("strip", "rstrip", "lstrip") and isinstance(s, FmtStr):
        return FmtStr(name, (s,) + tuple(args))
    if name == "encode":
        return FmtStr("encode", (s,))
    if name == "join" and isinstance(s, str):
        parts = E.iterate(args[0])
        for p in parts:
            if not isinstance(p, (str, FmtStr, SStr)):
                E.raise_(TypeError, "join item is not str", implicit="type")
        if all(isinstance(p, str) for p in parts):
            return s.join(parts)
        return FmtStr("join", (s, tuple(parts)))
    raise Unsupported("str.%s on %r" % (name, s))


# ------------------------------------------------------------------ context managers

def ctx_enter(E, cm):
    if isinstance(cm, SLock):
        if cm.held:
            raise Unsupported("re-acquiring a held lock (deadlock)")
        cm.held = True
        E.ghost.setdefault("lock_events", []).append(("acquire", cm.name))
        return True
    raise Unsupported("with %r" % (cm,))


def ctx_exit(E, cm):
    if isinstance(cm, SLock):
        cm.held = False
        E.ghost.setdefault("lock_events", []).append(("release", cm.name))
        return None
    raise Unsupported("with-exit %r" % (cm,))


# ------------------------------------------------------------------ symbolic-identity objects

def sref_get(E, ref, name):
    kind = ref.schema[name]
    arr = E.sheap.get(name)
    if arr is None and kind in ("int", "bool") and name in getattr(E, "lazy_attrs", ()):
        arr = E.sheap[name] = z3.Array(E.fresh("lazy_" + name), z3.IntSort(), z3.BoolSort() if kind == "bool" else z3.IntSort())
    if arr is None:
        raise Unsupported("attribute array %s not initialised" % name)
    if callable(kind):
        return kind(E, ref, "get", None)
    t = z3.Select(arr, ref.idt)
    if kind == "int":
        return wrap_int(t)
    if kind == "bool":
        return wrap_bool(t)
    if kind == "optint":
        return SOpt(z3.Select(E.sheap[name + "?none"], ref.idt), SInt(t))
    raise Unsupported("schema kind %r" % (kind,))


def sref_set(E, ref, name, v):
    kind = ref.schema[name]
    if name not in E.sheap and kind in ("int", "bool") and name in getattr(E, "lazy_attrs", ()):
        E.sheap[name] = z3.Array(E.fresh("lazy_" + name), z3.IntSort(), z3.BoolSort() if kind == "bool" else z3.IntSort())
    if callable(kind):
        return kind(E, ref, "set", v)
    E.ghost.setdefault("writes", []).append((name, ref.idt))
    if kind == "int":
        E.sheap[name] = z3.Store(E.sheap[name], ref.idt, zint(E.as_int(v)))
        return
    if kind == "bool":
        if isinstance(v, (SInt, int)) and not isinstance(v, bool):
            raise Unsupported("non-bool stored into bool attribute %s" % name)
        E.sheap[name] = z3.Store(E.sheap[name], ref.idt, to_z3bool(v))
        return
    if kind == "optint":
        if v is None:
            E.sheap[name + "?none"] = z3.Store(E.sheap[name + "?none"], ref.idt, z3.BoolVal(True))
            return
        if isinstance(v, SOpt):
            E.sheap[name + "?none"] = z3.Store(E.sheap[name + "?none"], ref.idt, v.isnone)
            E.sheap[name] = z3.Store(E.sheap[name], ref.idt, zint(v.val))
            return
        E.sheap[name + "?none"] = z3.Store(E.sheap[name + "?none"], ref.idt, z3.BoolVal(False))
        E.sheap[name] = z3.Store(E.sheap[name], ref.idt, zint(E.as_int(v)))
        return
    raise Unsupported("schema kind %r" % (kind,))


# ------------------------------------------------------------------ builtins

@register(len)
def m_len(E, v):
    if isinstance(v, SOpt):
        v = E.deopt(v)
    if hasattr(v, "pyvc_len"):
        return v.pyvc_len(E)
    if isinstance(v, SSeq):
        return wrap_int(v.length) if not isinstance(v.length, int) else v.length
    if isinstance(v, (list, tuple, str, bytes, dict, bytearray, range)):
        return len(v)
    if v is None or isinstance(v, (int, SInt, SBool)):
        E.raise_(TypeError, "object has no len()", implicit="len")
    if isinstance(v, (SObj, SRef)):
        f = inspect.getattr_static(v.cls, "__len__", None)
        if isinstance(f, types.FunctionType):
            return E.call(f, [v])
        E.raise_(TypeError, "object has no len()", implicit="len")
    if isinstance(v, SStr):
        return wrap_int(z3.Length(v.t))
    raise Unsupported("len(%r)" % (v,))


@register(range)
def m_range(E, *a):
    vals = [E.as_int(x, "range argument") for x in a]
    if all(isinstance(x, int) for x in vals):
        return range(*vals)
    if len(vals) == 1:
        return SRange(0, vals[0])
    if len(vals) == 2:
        return SRange(vals[0], vals[1])
    raise Unsupported("symbolic range step")


@register(isinstance)
def m_isinstance(E, v, cls):
    if isinstance(v, SOpt):
        v = E.deopt(v)
    t = type_of(E, v)
    cl = cls if isinstance(cls, tuple) else (cls,)
    return any(issubclass(t, c) for c in cl)


def type_of(E, v):
    if isinstance(v, (SObj, SRef)):
        return v.cls
    if isinstance(v, SInt):
        return int
    if isinstance(v, SBool):
        return bool
    if isinstance(v, SSeq):
        return {"bytes": bytes, "bytearray": bytearray, "memoryview": memoryview, "array_b": array.array,
                "array_B": array.array, "list": list, "tuple": tuple}[v.kind]
    if isinstance(v, (FmtStr, SStr)):
        return str
    if isinstance(v, SOpt):
        return type_of(E, E.deopt(v))
    if isinstance(v, ExcVal):
        return v.cls
    return type(v)


@register(type)
def m_type(E, v, *rest):
    if rest:
        raise Unsupported("3-arg type()")
    return type_of(E, v)


@register(int)
def m_int(E, v=0, base=None):
    if isinstance(v, SOpt):
        v = E.deopt(v)
    if hasattr(v, "pyvc_int"):
        return v.pyvc_int(E)
    if isinstance(v, SQuot):
        # int(a / b): the quotient is a correctly rounded double, then truncated toward zero.  For |a| < 2^52 the truncation of the
        # rounded quotient equals the truncation of the exact one; beyond that the double may be off by up to |a| * 2^-52 (over-approximated)
        a, b = v.a, v.b
        absa = z3.If(a < 0, -a, a)
        absb = abs(b)
        exact = absa / absb
        trunc = z3.If((a >= 0) == (b > 0), exact, -exact)
        q = E.fresh_int("fdiv")
        slack = absa / (1 << 52) + 1
        E.assume(z3.If(absa < (1 << 52), q == trunc, z3.And(q >= trunc - slack, q <= trunc + slack)))
        return SInt(q)
    if isinstance(v, bool):
        return int(v)
    if isinstance(v, (int, SInt)):
        return v
    if isinstance(v, SBool):
        return wrap_int(zint(v))
    if isinstance(v, float):
        return int(v)
    if isinstance(v, str):
        try:
            return int(v) if base is None else int(v, base)
        except ValueError:
            E.raise_(ValueError, "invalid literal for int()", implicit="int")
    if isinstance(v, SStr):
        h = getattr(E, "int_of_str", None)
        if h is None:
            raise Unsupported("int() of symbolic string without a token model")
        return h(E, v)
    if v is None or isinstance(v, (SSeq, SObj, tuple, list)):
        E.raise_(TypeError, "int() argument", implicit="int")
    raise Unsupported("int(%r)" % (v,))


@register(str)
def m_str(E, v=""):
    return str_of(E, v)


@register(bool)
def m_bool(E, v=False):
    if isinstance(v, SBool):
        return v
    return E.truth(v)


@register(list)
def m_list(E, v=()):
    if isinstance(v, SSeq) and not isinstance(v.length, int):
        return SSeq("list", v.length, v.get)
    return list(E.iterate(v))


@register(tuple)
def m_tuple(E, v=()):
    return tuple(E.iterate(v))


@register(bytearray)
def m_bytearray(E, v=None):
    if v is None:
        return mk_seq("bytearray", [])
    if isinstance(v, SOpt):
        v = E.deopt(v)
    if is_intlike(v):
        n = E.as_int(v)
        if isinstance(n, int):
            if n < 0:
                E.raise_(ValueError, "negative count", implicit="bytearray")
            return mk_seq("bytearray", [0] * n)
        if not E.branch(n >= 0):
            E.raise_(ValueError, "negative count", implicit="bytearray")
        return SSeq("bytearray", n, lambda i: 0)
    if isinstance(v, (list, tuple, Generator)) or (isinstance(v, SSeq) and v.kind in ("list", "tuple")):
        s = as_seq(E, v)
        if isinstance(s.length, int):
            for i in range(s.length):
                check_elem(E, "bytearray", s.get(i))
        else:
            raise Unsupported("bytearray(list of symbolic length)")
        return SSeq("bytearray", s.length, s.get)
    s = as_seq(E, v)
    return conv_seq(s, "bytearray")


@register(bytes)
def m_bytes(E, v=None):
    r = m_bytearray(E, v)
    r.kind = "bytes"
    return r


@register(memoryview)
def m_memoryview(E, v):
    s = as_seq(E, v)
    if s.kind not in BYTESLIKE:
        E.raise_(TypeError, "memoryview: a bytes-like object is required", implicit="type")
    r = SSeq("memoryview", s.length, s.get)
    r.fmt = s.kind if s.kind.startswith("array") else "B"
    if s.kind == "array_b":
        # memoryview of array('b') keeps signed items
        r.kind = "memoryview"
        r.signed = True
    return r


@register(array.array)
def m_array(E, typecode, init=None):
    if typecode not in ("b", "B"):
        raise Unsupported("array typecode %r" % typecode)
    kind = "array_" + typecode
    if init is None:
        return mk_seq(kind, [])
    if isinstance(init, (list, tuple, Generator)) or (isinstance(init, SSeq) and init.kind in ("list", "tuple")):
        s = as_seq(E, init)
        if not isinstance(s.length, int):
            raise Unsupported("array from symbolic-length list")
        for i in range(s.length):
            check_elem(E, kind, s.get(i))
        return SSeq(kind, s.length, s.get)
    s = as_seq(E, init)
    if s.kind in ("bytes", "bytearray"):
        # array(typecode, bytes) == frombytes
        return conv_seq(s, kind)
    if s.kind == "memoryview" or s.kind.startswith("array"):
        # iterated element-wise (values, not raw bytes): range check per element
        if getattr(s, "signed", False) or s.kind == "array_b":
            src_lo, src_hi = -128, 127
        else:
            src_lo, src_hi = 0, 255
        lo, hi = (-128, 127) if typecode == "b" else (0, 255)
        if src_lo < lo or src_hi > hi:
            if isinstance(s.length, int):
                for i in range(s.length):
                    check_elem(E, kind, s.get(i))
            else:
                raise Unsupported("array(%r) from %s of symbolic length with wider element range" % (typecode, s.kind))
        return SSeq(kind, s.length, s.get)
    raise Unsupported("array from %s" % s.kind)


@register(min)
def m_min(E, *a):
    if len(a) == 1:
        a = E.iterate(a[0])
    vals = [E.as_int(x) for x in a]
    if all(isinstance(x, int) for x in vals):
        return min(vals)
    r = zint(vals[0])
    for x in vals[1:]:
        r = z3.If(zint(x) < r, zint(x), r)
    return wrap_int(r)


@register(max)
def m_max(E, *a):
    if len(a) == 1:
        a = E.iterate(a[0])
    vals = [E.as_int(x) for x in a]
    if all(isinstance(x, int) for x in vals):
        return max(vals)
    r = zint(vals[0])
    for x in vals[1:]:
        r = z3.If(zint(x) > r, zint(x), r)
    return wrap_int(r)


@register(sum)
def m_sum(E, it, start=0):
    vals = [E.as_int(x) for x in E.iterate(it)]
    r = start
    for x in vals:
        r = int_binop(E, ast.Add, r, x)
    return wrap_int(r) if not isinstance(r, int) else r


@register(reversed)
def m_reversed(E, it):
    """reversed(xs) over a concrete-length sequence, evaluated eagerly"""
    if isinstance(it, (list, tuple, str, bytes, range)):
        return list(reversed(it))
    if isinstance(it, SSeq) and isinstance(it.length, int):
        return [it.get(it.length - 1 - i) for i in range(it.length)]
    raise Unsupported("reversed() of a symbolic-length sequence")


@register(divmod)
def m_divmod(E, a, b):
    return (binop(E, ast.FloorDiv, a, b), binop(E, ast.Mod, a, b))


@register(map)
def m_map(E, fn, *its):
    """map(f, xs...) evaluated eagerly over concrete-length iterables (f is called in order; laziness is not modelled)"""
    cols = [list(E.iterate(it)) for it in its]
    return [E.call(fn, list(row)) for row in zip(*cols)]


@register(abs)
def m_abs(E, v):
    x = E.as_int(v)
    if isinstance(x, int):
        return abs(x)
    return wrap_int(z3.If(x < 0, -x, x))


@register(zip)
def m_zip(E, *its):
    ls = [E.iterate(i) for i in its]
    return [tuple(t) for t in zip(*ls)]


@register(enumerate)
def m_enumerate(E, it, start=0):
    return list(enumerate(E.iterate(it), start))


@register(filter)
def m_filter(E, f, it):
    return [x for x in E.iterate(it) if E.truth(E.call(f, [x]))]


@register(print)
def m_print(E, *a, **k):
    return None


@register(getattr)
def m_getattr(E, o, n, *default):
    if not isinstance(n, str):
        raise Unsupported("getattr with symbolic name")
    try:
        return E.getattr(o, n)
    except PyRaise as e:
        if default and issubclass(e.exc.cls, AttributeError):
            return default[0]
        raise


@register(hasattr)
def m_hasattr(E, o, n):
    try:
        E.getattr(o, n)
        return True
    except PyRaise as e:
        if issubclass(e.exc.cls, AttributeError):
            return False
        raise


# ---- struct

_FMT = {">L": (4, False, "big"), ">I": (4, False, "big"), ">h": (2, True, "big"), ">H": (2, False, "big"),
        "B": (1, False, "big"), "b": (1, True, "big"), "<h": (2, True, "little"), "<H": (2, False, "little"),
        "<L": (4, False, "little"), ">l": (4, True, "big"), "!H": (2, False, "big"), "!L": (4, False, "big")}


def enc_int(x, n, signed, order):
    """list of n byte terms for value x (assumed in range)"""
    zx = zint(x)
    if signed:
        zx = z3.If(zx < 0, zx + (1 << (8 * n)), zx)
    if isinstance(x, int):
        bs = list(x.to_bytes(n, "big", signed=signed))
    else:
        bs = [z3.simplify((zx / z3.IntVal(1 << (8 * (n - 1 - i)))) % 256) if i < n - 1 else z3.simplify(zx % 256) for i in range(n)]
        if n == 1:
            bs = [z3.simplify(zx)]
    return bs if order == "big" else bs[::-1]


def dec_int(bs, signed, order):
    n = len(bs)
    if order == "little":
        bs = bs[::-1]
    if all(isinstance(b, int) for b in bs):
        return int.from_bytes(bytes(bs), "big", signed=signed)
    v = z3.Sum([zint(b) * (1 << (8 * (n - 1 - i))) for i, b in enumerate(bs)]) if n > 1 else zint(bs[0])
    if signed:
        v = z3.If(v >= (1 << (8 * n - 1)), v - (1 << (8 * n)), v)
    return v


_CODES = {"b": (1, True), "B": (1, False), "h": (2, True), "H": (2, False), "i": (4, True), "I": (4, False),
          "l": (4, True), "L": (4, False), "q": (8, True), "Q": (8, False)}


def parse_fmt(fmt):
    """(byte order, [(size, signed)] per item) of a struct format with an explicit byte order (no padding), or of a single-octet code"""
    if isinstance(fmt, bytes):
        fmt = fmt.decode()
    if not isinstance(fmt, str):
        raise Unsupported("struct format %r" % (fmt,))
    f = fmt.replace(" ", "")
    order = "big"
    if f[:1] in "><!=":
        order = "little" if f[0] == "<" else ("big" if f[0] in ">!" else sys.byteorder)
        f = f[1:]
    elif f[:1] == "@" or any(c not in "bB0123456789x" for c in f):
        raise Unsupported("struct format %r (native alignment)" % fmt)
    items, cnt = [], ""
    for c in f:
        if c.isdigit():
            cnt += c
            continue
        if c not in _CODES:
            raise Unsupported("struct format %r" % fmt)
        items += [_CODES[c]] * (int(cnt) if cnt else 1)
        cnt = ""
    if cnt:
        raise Unsupported("struct format %r" % fmt)
    return order, items


@register(struct.pack)
def m_pack(E, fmt, *vals):
    order, items = parse_fmt(fmt)
    if len(vals) != len(items):
        E.raise_(struct.error, "pack expected %d items for packing (got %d)" % (len(items), len(vals)), implicit="struct")
    out = []
    for (n, signed), v in zip(items, vals):
        if isinstance(v, SOpt):
            v = E.deopt(v)
        if v is None or not is_intlike(v):
            E.raise_(struct.error, "required argument is not an integer", implicit="struct")
        x = E.as_int(v)
        lo, hi = (-(1 << (8 * n - 1)), (1 << (8 * n - 1)) - 1) if signed else (0, (1 << (8 * n)) - 1)
        if isinstance(x, int):
            if not (lo <= x <= hi):
                E.raise_(struct.error, "argument out of range", implicit="struct")
        elif not E.branch(z3.And(x >= lo, x <= hi)):
            E.raise_(struct.error, "argument out of range", implicit="struct")
        out += enc_int(x, n, signed, order)
    return mk_seq("bytes", out)


def _unpack_at(E, fmt, buf, off, exact):
    order, items = parse_fmt(fmt)
    total = sum(n for n, _s in items)
    s = as_seq(E, buf)
    if s.kind not in BYTESLIKE:
        E.raise_(TypeError, "a bytes-like object is required", implicit="struct")
    need = (zint(s.length) == total) if exact else (zint(s.length) - zint(off) >= total)
    if isinstance(s.length, int) and isinstance(off, int):
        ok = (s.length == total) if exact else (s.length - off >= total and off >= 0)
        if not ok:
            E.raise_(struct.error, "unpack requires a buffer of %d bytes" % total, implicit="struct")
    elif not E.branch(need if exact else z3.And(need, zint(off) >= 0)):
        E.raise_(struct.error, "unpack requires a buffer of %d bytes" % total, implicit="struct")
    res, pos = [], off
    for n, signed in items:
        bs = [raw_byte(s.kind, s.get(pos + i if isinstance(pos, int) else z3.simplify(zint(pos) + i))) for i in range(n)]
        res.append(wrap_int(dec_int(bs, signed, order)))
        pos = pos + n if isinstance(pos, int) else zint(pos) + n
    return tuple(res)


@register(struct.unpack)
def m_unpack(E, fmt, buf):
    return _unpack_at(E, fmt, buf, 0, True)


@register(struct.unpack_from)
def m_unpack_from(E, fmt, buf, offset=0):
    off = E.as_int(offset)
    return _unpack_at(E, fmt, buf, off, False)


class StructObj:
    """a precompiled struct.Struct object living in the repository's module namespace"""

    @staticmethod
    def method(E, st, name, args, kwargs):
        if name == "pack":
            return m_pack(E, st.format, *args)
        if name == "unpack":
            return m_unpack(E, st.format, *args)
        if name == "unpack_from":
            return m_unpack_from(E, st.format, *args, **kwargs)
        raise Unsupported("struct.Struct.%s" % name)


@register(struct.calcsize)
def m_calcsize(E, fmt):
    return struct.calcsize(fmt)


def int_to_bytes(E, v, length=1, byteorder="big", *, signed=False):
    x = E.as_int(v)
    n = E.as_int(length)
    if not isinstance(n, int):
        raise Unsupported("to_bytes with symbolic length")
    if n < 0:
        E.raise_(ValueError, "length argument must be non-negative", implicit="to_bytes")
    if not isinstance(x, int):
        # x.to_bytes(n, ...) of a value obtained by int.from_bytes(b, ...) with the same parameters is b again
        dec = getattr(E, "int_decoded", {}).get(z3.simplify(zint(x)).get_id())
        if dec is not None and dec[2:] == (n, bool(signed), byteorder):
            return mk_seq("bytes", list(dec[1]))
    lo, hi = (-(1 << (8 * n - 1)) if n else 0, ((1 << (8 * n - 1)) - 1) if n else 0) if signed else (0, (1 << (8 * n)) - 1)
    if isinstance(x, int):
        try:
            return mk_seq("bytes", list(x.to_bytes(n, byteorder, signed=signed)))
        except OverflowError:
            E.raise_(OverflowError, "int too big to convert", implicit="to_bytes")
    if not E.branch(z3.And(x >= lo, x <= hi)):
        E.raise_(OverflowError, "int too big to convert", implicit="to_bytes")
    if n == 0:
        return mk_seq("bytes", [])
    r = mk_seq("bytes", enc_int(x, n, signed, byteorder))
    r.int_source = (x, n, signed, byteorder)      # int.from_bytes(x.to_bytes(n, ...), ...) == x for in-range x (range checked above)
    return r


@register(int.from_bytes)
def m_from_bytes(E, data, byteorder="big", *, signed=False):
    s = as_seq(E, data)
    if not isinstance(s.length, int):
        raise Unsupported("int.from_bytes of symbolic-length buffer")
    if s.length == 0:
        return 0
    src = getattr(s, "int_source", None)
    if src is not None and src[1] == s.length and src[2] == bool(signed) and src[3] == byteorder:
        return wrap_int(src[0])
    bs = [raw_byte(s.kind, s.get(i)) for i in range(s.length)]
    r = wrap_int(dec_int(bs, signed, byteorder))
    if isinstance(r, SInt):
        if not hasattr(E, "int_decoded"):
            E.int_decoded = {}
        E.int_decoded[r.t.get_id()] = (r.t, tuple(bs), s.length, bool(signed), byteorder)
    return r


# ---- random

@register(random.randint)
def m_randint(E, a, b):
    x, y = E.as_int(a), E.as_int(b)
    if isinstance(x, int) and isinstance(y, int):
        if x > y:
            E.raise_(ValueError, "empty range for randrange()", implicit="randint")
    elif not E.branch(zint(x) <= zint(y)):
        E.raise_(ValueError, "empty range for randrange()", implicit="randint")
    r = E.fresh_int("rand")
    E.assume(z3.And(r >= zint(x), r <= zint(y)))
    E.ghost.setdefault("rand", []).append(r)
    return SInt(r)


@register(random.choice)
def m_choice(E, seq):
    items = E.iterate(seq)
    if not items:
        E.raise_(IndexError, "Cannot choose from an empty sequence", implicit="choice")
    return items[E.choose(len(items), "choice")]


# ---- logging: arguments are already evaluated (formatting can raise); the call itself is pure

def _log(level):
    def f(E, msg=None, *args, **kw):
        E.ghost.setdefault("log", []).append((level, msg, args))
        return None
    f._model_name = "logging.%s" % level
    return f


for _lv in ("debug", "info", "warning", "warn", "error", "critical", "exception"):
    if hasattr(logging, _lv):
        _REG[id(getattr(logging, _lv))] = (getattr(logging, _lv), _log(_lv))


@register(threading.Lock)
def m_lock(E):
    return SLock(E.fresh("lock"))


@register(time.sleep)
def m_sleep(E, t):
    """time.sleep(t): ValueError for a negative length, OverflowError beyond the platform's time_t range (int64 nanoseconds); the
    thresholds on the integer term are exact up to one unit of the float rounding"""
    import math
    if isinstance(t, SFlt) and t.scale > 0:
        if E.branch(t.t < 0):
            E.raise_(ValueError, "sleep length must be non-negative", implicit="sleep")
        lim = int(math.ceil(9223372036.854775807 / t.scale))
        if E.branch(t.t >= lim):
            E.raise_(OverflowError, "timestamp out of range for platform time_t", implicit="sleep")
    elif isinstance(t, (int, float)):
        if t < 0:
            E.raise_(ValueError, "sleep length must be non-negative", implicit="sleep")
        if t >= 9223372036.854775807:
            E.raise_(OverflowError, "timestamp out of range for platform time_t", implicit="sleep")
    elif isinstance(t, SInt):
        if E.branch(t.t < 0):
            E.raise_(ValueError, "sleep length must be non-negative", implicit="sleep")
        if E.branch(t.t >= 9223372037):
            E.raise_(OverflowError, "timestamp out of range for platform time_t", implicit="sleep")
    else:
        raise Unsupported("time.sleep(%r)" % (t,))
    E.ghost.setdefault("sleep", []).append(t)
    return None


class SetList:
    """A python list known to hold pairwise distinct symbolic-identity objects, abstracted to
    (membership array over ids, length).  Supports: in, append, remove, len, truth."""

    def __init__(self, member, length, ident):
        self.member, self.length, self.ident = member, length, ident     # ident(value) -> id term

    def pyvc_contains(self, E, item):
        return wrap_bool(z3.Select(self.member, self.ident(item)))

    def pyvc_len(self, E):
        return wrap_int(self.length)

    def pyvc_truth(self, E):
        return E.branch(self.length > 0)

    def pyvc_method(self, E, name, args, kwargs):
        if name == "append":
            i = self.ident(args[0])
            E.require("append_keeps_list_duplicate_free", z3.Not(z3.Select(self.member, i)), kind="inv")
            self.member = z3.Store(self.member, i, z3.BoolVal(True))
            self.length = self.length + 1
            return None
        if name == "remove":
            i = self.ident(args[0])
            if not E.branch(z3.Select(self.member, i)):
                E.raise_(ValueError, "list.remove(x): x not in list", implicit="remove")
            self.member = z3.Store(self.member, i, z3.BoolVal(False))
            self.length = self.length - 1
            return None
        raise Unsupported("SetList.%s" % name)


def file_method(E, f, name, args, kwargs):
    """Ghost file (assumed model of a binary file object opened 'a+b'): content = (z3 array, length term), position.
       read(n) returns content[pos : pos+n] cut at EOF and advances; seek(o, 0|1); write appends at the end."""
    c = f.content
    if name == "read":
        if not args:
            raise Unsupported("read() without size")
        n = E.as_int(args[0])
        zn, pos, ln = zint(n), zint(f.pos), zint(c.length)
        if isinstance(n, int) and n < 0:
            raise Unsupported("read(-1)")
        if not isinstance(n, int) and not E.branch(zn >= 0):
            raise Unsupported("read(negative)")
        avail = z3.If(pos <= ln, ln - pos, z3.IntVal(0))
        got = z3.simplify(z3.If(zn <= avail, zn, avail))
        g = c.get
        r = SSeq("bytes", got, lambda i, pos=pos: g(z3.simplify(pos + zint(i))))
        f.pos = z3.simplify(pos + got)
        return r
    if name == "seek":
        off = zint(E.as_int(args[0]))
        wh = args[1] if len(args) > 1 else 0
        if wh == 0:
            if not E.branch(off >= 0):
                E.raise_(ValueError, "negative seek position", implicit="seek")
            f.pos = off
        elif wh == 1:
            np_ = z3.simplify(zint(f.pos) + off)
            if not E.branch(np_ >= 0):
                E.raise_(OSError, "invalid argument", implicit="seek")
            f.pos = np_
        else:
            raise Unsupported("seek whence %r" % (wh,))
        return wrap_int(f.pos)
    if name == "write":
        d = as_seq(E, args[0])
        if d.kind not in BYTESLIKE:
            E.raise_(TypeError, "a bytes-like object is required", implicit="write")
        d = conv_seq(d, "bytes") if d.kind.startswith("array") else d
        r = concat(c.clone(), d, "bytes")
        c.length, c.get = r.length, r.get
        f.pos = c.length
        f.writes = getattr(f, "writes", 0) + 1
        return wrap_int(d.length) if not isinstance(d.length, int) else d.length
    if name in ("close", "flush"):
        return None
    if name == "tell":
        return wrap_int(f.pos)
    raise Unsupported("file.%s" % name)

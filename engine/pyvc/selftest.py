"""Differential self-test of the PyVC engine against CPython (DESIGN section 7.1).

The symbolic interpreter is run on CONCRETE inputs (so every model is exercised on its concrete path and, for the operator
encodings, the z3 term is evaluated under the concrete assignment) and must agree with the real interpreter on return value
and exception class.  Any disagreement means the engine or a trusted model is wrong: the thorough tier reports it as a checker
failure (exit 3), never as a property verdict.

  python3-vt -m engine.pyvc.selftest [seed] [n]
"""
import sys, random, struct, array, ast
import z3
from .values import *
from . import models
from .harness import toolkit, new_engine, raw


def conc(v):
    """engine value -> plain python value"""
    if isinstance(v, SSeq):
        if not isinstance(v.length, int):
            raise ValueError("symbolic length")
        out = []
        for i in range(v.length):
            x = v.get(i)
            if z3.is_expr(x):
                x = z3.simplify(x)
                x = x.as_long()
            out.append(x)
        return (v.kind, out)
    if isinstance(v, SInt):
        return z3.simplify(v.t).as_long()
    if isinstance(v, SBool):
        return z3.is_true(z3.simplify(v.t))
    if isinstance(v, tuple):
        return tuple(conc(x) for x in v)
    if isinstance(v, list):
        return [conc(x) for x in v]
    return v


def native_kind(x):
    if isinstance(x, bytes):
        return ("bytes", list(x))
    if isinstance(x, bytearray):
        return ("bytearray", list(x))
    if isinstance(x, memoryview):
        return ("memoryview", list(x))
    if isinstance(x, array.array):
        return ("array_" + x.typecode, list(x))
    if isinstance(x, tuple):
        return tuple(native_kind(y) for y in x)
    if isinstance(x, list):
        return [native_kind(y) for y in x]
    return x


def outcome(fn):
    try:
        return ("ret", fn())
    except PyRaise as e:
        return ("exc", e.exc.cls.__name__)
    except Exception as e:      # native
        return ("exc", type(e).__name__)


def to_engine(x):
    if isinstance(x, (bytes, bytearray)):
        return models.mk_seq("bytes" if isinstance(x, bytes) else "bytearray", list(x))
    if isinstance(x, array.array):
        return models.mk_seq("array_" + x.typecode, list(x))
    return x


def sym_eval(E, op, a, b):
    """evaluate the engine's symbolic encoding of `a op b` under the concrete assignment"""
    x, y = z3.Int("st.x"), z3.Int("st.y")
    E.reset([])
    E.assume(z3.And(x == a, y == b))
    r = models.int_binop(E, op, x, y)
    if isinstance(r, int):
        return r
    return z3.simplify(z3.substitute(r, (x, z3.IntVal(a)), (y, z3.IntVal(b)))).as_long()


def run(seed=0, n=200):
    rnd = random.Random(seed)
    bad = []
    E = new_engine()
    checks = 0
    # ---- operator encodings
    ops = {ast.Add: lambda a, b: a + b, ast.Sub: lambda a, b: a - b, ast.Mult: lambda a, b: a * b, ast.FloorDiv: lambda a, b: a // b,
           ast.Mod: lambda a, b: a % b, ast.BitAnd: lambda a, b: a & b, ast.BitOr: lambda a, b: a | b, ast.BitXor: lambda a, b: a ^ b}
    for _ in range(n):
        a, b = rnd.choice([rnd.randrange(0, 256), rnd.randrange(0, 1 << 16), rnd.randrange(-300, 300)]), rnd.choice([rnd.randrange(1, 64), rnd.randrange(-40, 40), rnd.randrange(0, 1 << 12)])
        for op, f in ops.items():
            if op in (ast.BitAnd, ast.BitOr, ast.BitXor) and (a < 0 or b < 0):
                continue
            checks += 1
            try:
                want = f(a, b)
            except ZeroDivisionError:
                want = "ZeroDivisionError"
            try:
                got = sym_eval(E, op, a, b)
            except PyRaise as e:
                got = e.exc.cls.__name__
            except Unsupported:
                continue
            if got != want:
                bad.append(("op", op.__name__, a, b, got, want))
        # constant-operand forms (masks, shifts)
        for op, f, c in ((ast.BitAnd, lambda v, c: v & c, rnd.choice([7, 0x0f, 0x70, 128, 0b1100, 0b1110, 255, 63])),
                         (ast.RShift, lambda v, c: v >> c, rnd.randrange(0, 9)), (ast.LShift, lambda v, c: v << c, rnd.randrange(0, 9)),
                         (ast.BitOr, lambda v, c: v | c, rnd.choice([8, 0x30, 64])), (ast.Mod, lambda v, c: v % c, rnd.choice([26, 51, 1326, 2715648, -7])),
                         (ast.FloorDiv, lambda v, c: v // c, rnd.choice([51, 1326, -3, 1000]))):
            v = rnd.choice([rnd.randrange(0, 256), rnd.randrange(-5000, 5000), rnd.randrange(0, 2715648)])
            if op in (ast.BitOr,) and v < 0:
                continue
            checks += 1
            x = z3.Int("st.x")
            E.reset([])
            E.assume(x == v)
            try:
                r = models.int_binop(E, op, x, c)
                got = r if isinstance(r, int) else z3.simplify(z3.substitute(r, (x, z3.IntVal(v)))).as_long()
            except Unsupported:
                continue
            if got != f(v, c):
                bad.append(("opc", op.__name__, v, c, got, f(v, c)))
    # ---- sequence models: slicing, concat, translate, struct, conversions
    for _ in range(n):
        data = bytes(rnd.randrange(256) for _ in range(rnd.randrange(0, 12)))
        lo, hi = rnd.choice([None, rnd.randrange(-14, 14)]), rnd.choice([None, rnd.randrange(-14, 14)])
        E.reset([])
        from .interp import SliceV
        checks += 1
        got = conc(models.getitem(E, models.mk_seq("bytes", list(data)), SliceV(lo, hi, None)))
        if got != ("bytes", list(data[lo:hi])):
            bad.append(("slice", list(data), lo, hi, got))
        i = rnd.randrange(-14, 14)
        g = outcome(lambda: conc(models.getitem(E, models.mk_seq("bytes", list(data)), i)))
        w = outcome(lambda: data[i])
        checks += 1
        if g != w:
            bad.append(("index", list(data), i, g, w))
        for fmt in (">L", ">h", ">H", "B", "b"):
            v = rnd.choice([rnd.randrange(-70000, 70000), rnd.randrange(0, 1 << 33), rnd.randrange(-130, 260)])
            g = outcome(lambda: conc(E.call(struct.pack, [fmt, v])))
            w = outcome(lambda: native_kind(struct.pack(fmt, v)))
            checks += 1
            if g != w:
                bad.append(("pack", fmt, v, g, w))
            buf = bytes(rnd.randrange(256) for _ in range(rnd.choice([struct.calcsize(fmt), struct.calcsize(fmt), rnd.randrange(0, 6)])))
            g = outcome(lambda: conc(E.call(struct.unpack, [fmt, to_engine(buf)])))
            w = outcome(lambda: struct.unpack(fmt, buf))
            checks += 1
            if g != w:
                bad.append(("unpack", fmt, list(buf), g, w))
        for nbytes in (1, 2, 3, 4, 8):
            for signed in (False, True):
                for order in ("big", "little"):
                    v = rnd.choice([rnd.randrange(-(1 << 15), 1 << 16), rnd.randrange(-(1 << 40), 1 << 40), rnd.randrange(-200, 300)])
                    g = outcome(lambda: conc(models.int_to_bytes(E, v, nbytes, order, signed=signed)))
                    w = outcome(lambda: native_kind(v.to_bytes(nbytes, order, signed=signed)))
                    checks += 1
                    if g != w:
                        bad.append(("to_bytes", v, nbytes, order, signed, g, w))
    # ---- models added for refactored code: multi-item struct formats, precompiled Struct objects, divmod, map, float conversion, sleep
    import time as _time
    for _ in range(n):
        fmt = rnd.choice([">BL", ">Bh", ">BhBh", "<HB", ">cH"[:1] + "HH", "!LH", ">bB", "BB", ">Q", "<q"])
        order, items = models.parse_fmt(fmt)
        vals = []
        for (sz, sg) in items:
            lo, hi = (-(1 << (8 * sz - 1)), (1 << (8 * sz - 1)) - 1) if sg else (0, (1 << (8 * sz)) - 1)
            vals.append(rnd.choice([lo, hi, rnd.randrange(lo, hi + 1), hi + 1 if rnd.random() < 0.15 else rnd.randrange(lo, hi + 1)]))
        E.reset([])
        g = outcome(lambda: conc(E.call(struct.pack, [fmt] + vals)))
        w = outcome(lambda: native_kind(struct.pack(fmt, *vals)))
        checks += 1
        if g != w:
            bad.append(("pack*", fmt, vals, g, w))
        st = struct.Struct(fmt)
        g = outcome(lambda: conc(models.method(E, st, "pack", list(vals), {})))
        checks += 1
        if g != w:
            bad.append(("Struct.pack", fmt, vals, g, w))
        size = struct.calcsize(fmt)
        buf = bytes(rnd.randrange(256) for _ in range(rnd.choice([size, size, size + rnd.randrange(0, 3), max(0, size - 1)])))
        g = outcome(lambda: conc(E.call(struct.unpack, [fmt, to_engine(buf)])))
        w = outcome(lambda: struct.unpack(fmt, buf))
        checks += 1
        if g != w:
            bad.append(("unpack*", fmt, list(buf), g, w))
        off = rnd.randrange(0, 3)
        g = outcome(lambda: conc(E.call(struct.unpack_from, [fmt, to_engine(buf), off])))
        w = outcome(lambda: struct.unpack_from(fmt, buf, off))
        checks += 1
        if g != w:
            bad.append(("unpack_from", fmt, list(buf), off, g, w))
        a, b = rnd.randrange(-5000, 5000), rnd.choice([rnd.randrange(1, 200), -rnd.randrange(1, 50), 148, 0 if rnd.random() < 0.1 else 26])
        x = z3.Int("st.dm")
        E.reset([])
        E.assume(x == a)

        def dm_():
            q, r = models.m_divmod(E, SInt(x), b)
            f = lambda t: t if isinstance(t, int) else z3.simplify(z3.substitute(models.zint(t), (x, z3.IntVal(a)))).as_long()
            return (f(q), f(r))
        g, w = outcome(dm_), outcome(lambda: divmod(a, b))
        checks += 1
        if g != w:
            bad.append(("divmod", a, b, g, w))
        # int * float / int / float with a huge int: OverflowError exactly when CPython raises it
        big = rnd.choice([10 ** 400, -(10 ** 400), (1 << 1024) - (1 << 970), (1 << 1024) - (1 << 970) - 1, 12345, -7])
        y = z3.Int("st.big")
        for op, f in ((ast.Mult, lambda v: v * 1e-9), (ast.Div, lambda v: v / 1000.0)):
            E.reset([])
            E.assume(y == big)
            g = outcome(lambda: "float" if models.binop(E, op, SInt(y), 1e-9 if op is ast.Mult else 1000.0) is not None else None)
            w = outcome(lambda: "float" if f(big) is not None else None)
            checks += 1
            if g != w:
                bad.append(("int-float", op.__name__, big, g, w))
        # time.sleep argument range (never sleeps: only arguments CPython refuses are executed natively)
        t = rnd.choice([-1, -0.5, 1e10, 9.3e9, 2 ** 70])
        E.reset([])
        g = outcome(lambda: models.m_sleep(E, t))
        w = outcome(lambda: _time.sleep(t))
        checks += 1
        if g != w:
            bad.append(("sleep", t, g, w))
    # ---- truthiness of objects: __bool__ before __len__, else true (classes defined here, concrete attribute values)
    class _Plain:
        pass

    class _Len:
        def __len__(self):
            return 0 if self.k is None else len(self.k)

    class _Bool(_Len):
        def __bool__(self):
            return self.flag

    def _probe(o):
        return "yes" if o else "no"
    for cls_, attrs in ((_Plain, {}), (_Len, {"k": None}), (_Len, {"k": []}), (_Len, {"k": [1]}), (_Bool, {"k": None, "flag": True}), (_Bool, {"k": [1, 2], "flag": False})):
        live = cls_()
        live.__dict__.update(attrs)
        E.reset([])
        g = outcome(lambda: E.call(_probe, [SObj(cls_, dict(attrs))]))
        w = outcome(lambda: _probe(live))
        checks += 1
        if g != w:
            bad.append(("truthiness", cls_.__name__, attrs, g, w))
    # ---- whole functions of the toolkit on concrete objects
    dm = toolkit("data_msg")
    gs = toolkit("gsm_shared")
    from contracts.py import msgs as M
    for _ in range(n):
        cls = rnd.choice(("tx", "rx"))
        m = dm.TxMsg() if cls == "tx" else dm.RxMsg()
        m.ver = rnd.choice((0, 1, 1, 0, 2))
        m.rand_hdr() if m.ver in (0, 1) else None
        if m.ver not in (0, 1):
            m.fn, m.tn = 5, 1
        if rnd.random() < 0.3:
            setattr(m, rnd.choice(["fn", "tn"] + (["pwr"] if cls == "tx" else ["rssi", "toa256"])), rnd.choice([None, -1, 8, 300, 2715648, 40000]))
        if cls == "rx" and m.ver == 1 and rnd.random() < 0.3:
            m.nope_ind, m.burst = True, None
        else:
            try:
                m.rand_burst()
            except Exception:
                m.burst = None
        legacy = rnd.random() < 0.5
        fields = {"cls": cls, "ver": m.ver, "mod": getattr(getattr(m, "mod_type", None), "name", "None"), "burst": list(m.burst) if m.burst is not None else None,
                  "nope": getattr(m, "nope_ind", False)}
        for f in (M.OPT_FIELDS_TX if cls == "tx" else M.OPT_FIELDS_RX):
            fields[f] = getattr(m, f)

        def eng_obj():
            a = {"ver": m.ver, "burst": to_engine(m.burst) if m.burst is not None else None}
            for f in (M.OPT_FIELDS_TX if cls == "tx" else M.OPT_FIELDS_RX):
                a[f] = getattr(m, f)
            if cls == "rx":
                a["nope_ind"], a["mod_type"] = m.nope_ind, m.mod_type
            return SObj(type(m), a)
        E.reset([])
        E.summaries = {}
        g = outcome(lambda: conc(E.call(raw(dm.Msg, "gen_msg"), [eng_obj(), legacy])))
        w = outcome(lambda: native_kind(m.gen_msg(legacy)))
        checks += 1
        if g != w:
            bad.append(("gen_msg", fields, legacy, g if g[0] == "exc" else "ret", w if w[0] == "exc" else "ret"))
        # parse_msg on the encoding or on random octets
        data = bytes(m.gen_msg(legacy)) if w[0] == "ret" and rnd.random() < 0.7 else bytes(rnd.randrange(256) for _ in range(rnd.randrange(0, 30)))
        if rnd.random() < 0.3 and data:
            k = rnd.randrange(len(data))
            data = data[:k] + bytes([data[k] ^ (1 << rnd.randrange(8))]) + data[k + 1:]

        def eng_parse():
            o = E.call(type(m), [])
            E.call(raw(dm.Msg, "parse_msg"), [o, to_engine(bytearray(data))])
            b = o.attrs.get("burst")
            return (conc(o.attrs["ver"]), conc(o.attrs["fn"]), conc(o.attrs["tn"]), conc(b) if b is not None else None)

        def nat_parse():
            o = type(m)()
            o.parse_msg(bytearray(data))
            return (o.ver, o.fn, o.tn, native_kind(o.burst) if o.burst is not None else None)
        E.reset([])
        g, w = outcome(eng_parse), outcome(nat_parse)
        checks += 1
        if g != w:
            bad.append(("parse_msg", cls, list(data)[:16], str(g)[:80], str(w)[:80]))
        # hopping
        nn = rnd.randrange(1, 65)
        hsn, maio, fn = rnd.randrange(64), rnd.randrange(64), rnd.randrange(2715648)
        ma = [(1000 + i, 2000 + i) for i in range(nn)]
        hp = gs.HoppingParams(hsn, maio, ma)
        E.reset([])
        g = outcome(lambda: conc(E.call(raw(gs.HoppingParams, "resolve"), [SObj(gs.HoppingParams, {"hsn": hsn, "maio": maio, "ma": ma, "_pnm": hp._pnm}), fn])))
        w = outcome(lambda: hp.resolve(fn))
        checks += 1
        if g != w:
            bad.append(("resolve", hsn, maio, nn, fn, g, w))
        # training sequence detection on generated bursts
        rb = toolkit("rand_burst_gen").RandBurstGen()
        burst = rnd.choice([rb.gen_nb, rb.gen_sb, rb.gen_ab, rb.gen_fb])()
        E.reset([])
        g = outcome(lambda: E.call(raw(gs.TrainingSeqGMSK, "pick"), [gs.TrainingSeqGMSK, to_engine(bytearray(burst))]))
        w = outcome(lambda: gs.TrainingSeqGMSK.pick(bytearray(burst)))
        checks += 1
        if g != w:
            bad.append(("pick", list(burst)[:20], g, w))
    return checks, bad


if __name__ == "__main__":
    seed = int(sys.argv[1]) if len(sys.argv) > 1 else 0
    n = int(sys.argv[2]) if len(sys.argv) > 2 else 100
    checks, bad = run(seed, n)
    print("engine selftest: %d comparisons, %d disagreements" % (checks, len(bad)))
    for b in bad[:20]:
        print("  DISAGREE", b)
    sys.exit(3 if bad else 0)

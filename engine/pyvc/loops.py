"""Loop contracts (inductive invariants) for PyVC.

A LoopSpec replaces the unrolling of one `for`/`while` loop (keyed by function qualname and loop ordinal) by the
standard three obligations:  invariant holds on entry;  from an arbitrary iteration satisfying the invariant the body
re-establishes it;  after the loop the invariant (at the exit index) is all that is known.  The path that checks
preservation is cut after the check (outcome 'cut'); exploration continues on the exit path.

The spec supplies python callables over the engine state:
  havoc(E, fr, i)   install fresh symbolic values for everything the loop may modify (locals in fr.locals, heap, ghost)
  inv(E, fr, i)     z3 Bool: the invariant at loop index i (number of completed iterations)
  facts(E, fr, i)   optional extra assumptions that are instances of the pre-condition at index i (e.g. distinctness)
"""
import ast
import z3
from .values import *
from .interp import _Break, _Continue, PathCut


class LoopSpec:
    def __init__(self, name, havoc, inv, facts=None, elem=None, ghost_step=None, init=None, elem_post=None, all_ok=None, result=None):
        self.name, self.havoc, self.inv, self.facts, self.elem, self.ghost_step, self.init = name, havoc, inv, facts, elem, ghost_step, init
        # list comprehensions `[g(x) for x in xs]` over a symbolic-length iterable (a map: no loop-carried state)
        self.elem_post, self.all_ok, self.result = elem_post, all_ok, result

    def run_comp(self, E, node, fr):
        """Contract of a single-generator list comprehension without conditions: (a) for an ARBITRARY element the element expression is
        evaluated once - its exceptions propagate as the comprehension's, its value must satisfy elem_post; (b) otherwise every element
        expression returned normally (all_ok is assumed) and the comprehension's value is result(E, iterable)."""
        if len(node.generators) != 1 or node.generators[0].ifs:
            raise Unsupported("comprehension contract: one generator, no conditions")
        gen = node.generators[0]
        it = E.eval(gen.iter, fr)
        n = self._length(E, it)
        zn = n if not isinstance(n, int) else z3.IntVal(n)
        if E.choose(2, "comp") == 0:
            i = E.fresh_int("i")
            E.assume(z3.And(i >= 0, i < zn))
            x = self.elem(E, it, i) if self.elem else it.elem(E, i)
            env = E.comp_env(fr) if hasattr(E, "comp_env") else fr
            E.assign(gen.target, x, env)
            v = E.eval(node.elt, env)
            if self.elem_post:
                self.elem_post(E, i, v)
            raise PathCut()
        if self.all_ok:
            self.all_ok(E, it)
        return self.result(E, it)

    def _length(self, E, it):
        from .interp import SRange
        if isinstance(it, SRange):
            return z3.simplify(to_z3int(it.hi) - to_z3int(it.lo))
        if isinstance(it, SSeq):
            return it.length
        if isinstance(it, (list, tuple)):
            return len(it)
        if hasattr(it, "elem") and hasattr(it, "length"):
            return it.length
        raise Unsupported("loop contract on iterable %r" % (it,))

    def run_for(self, E, node, fr, it):
        if isinstance(it, (list, tuple)):
            # concrete iterable: complete unrolling needs no contract
            for x in it:
                E.assign(node.target, x, fr)
                try:
                    E.exec_block(node.body, fr)
                except _Break:
                    return
                except _Continue:
                    continue
            E.exec_block(node.orelse, fr)
            return
        n = self._length(E, it)
        zn = n if not isinstance(n, int) else z3.IntVal(n)
        zn = z3.If(zn < 0, z3.IntVal(0), zn) if not isinstance(n, int) else zn
        if self.init:
            self.init(E, fr)
        E.require("%s.inv_on_entry" % self.name, self.inv(E, fr, z3.IntVal(0)), kind="inv")
        if E.choose(2, "loop") == 0:
            i = E.fresh_int("i")
            E.assume(z3.And(i >= 0, i < zn))
            self.havoc(E, fr, i)
            E.assume(self.inv(E, fr, i))
            if self.facts:
                for f in self.facts(E, fr, i):
                    E.assume(f)
            if self.elem:
                x = self.elem(E, it, i)
            elif hasattr(it, "elem"):
                x = it.elem(E, i)
            elif hasattr(it, "lo") and hasattr(it, "hi"):
                x = z3.simplify(to_z3int(it.lo) + i)
            else:
                x = it.get(i) if isinstance(it, SSeq) else None
            if x is None:
                raise Unsupported("loop element")
            if isinstance(x, int) or z3.is_expr(x):
                x = wrap_int(x)
            E.assign(node.target, x, fr)
            try:
                E.exec_block(node.body, fr)
            except _Continue:
                pass
            except _Break:
                raise Unsupported("break inside a loop with a contract")
            if self.ghost_step:
                self.ghost_step(E, fr, i)
            E.require("%s.inv_preserved" % self.name, self.inv(E, fr, i + 1), kind="inv")
            raise PathCut()
        self.havoc(E, fr, zn)
        E.assume(self.inv(E, fr, zn))
        if node.orelse:
            E.exec_block(node.orelse, fr)

    def run_while(self, E, node, fr):
        """while loops: index i counts completed iterations; the spec's inv must imply what is needed at exit."""
        if self.init:
            self.init(E, fr)          # ghost state initialised from the program state at loop entry
        E.require("%s.inv_on_entry" % self.name, self.inv(E, fr, z3.IntVal(0)), kind="inv")
        i = E.fresh_int("i")
        E.assume(i >= 0)
        self.havoc(E, fr, i)
        E.assume(self.inv(E, fr, i))
        if self.facts:
            for f in self.facts(E, fr, i):
                E.assume(f)
        if E.truth(E.eval(node.test, fr)):
            try:
                E.exec_block(node.body, fr)
            except _Continue:
                pass
            except _Break:
                return
            if self.ghost_step:
                self.ghost_step(E, fr, i)
            E.require("%s.inv_preserved" % self.name, self.inv(E, fr, i + 1), kind="inv")
            raise PathCut()
        if node.orelse:
            E.exec_block(node.orelse, fr)

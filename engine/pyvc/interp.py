"""PyVC: path-wise symbolic interpreter over the `ast` of the *live* trx_toolkit functions.

Every run parses the functions found in the modules imported from $VERIF_REPO; nothing is
copied.  Paths are explored by re-execution with a decision prefix; implicit CPython exceptions
are ordinary paths.  See DESIGN.md section 3.
"""
import ast, struct, inspect, textwrap, types, sys, os, builtins, enum
import z3

from .values import *

MAX_UNROLL = 2048
MAX_SYM_UNROLL = 48


_MISSING = object()


def _plain_data(v, depth=0):
    if v is None or isinstance(v, (bool, int, float, str, bytes)):
        return True
    if depth > 3:
        return False
    if isinstance(v, (list, tuple, set, frozenset)):
        return all(_plain_data(x, depth + 1) for x in v)
    if isinstance(v, dict):
        return all(_plain_data(k, depth + 1) and _plain_data(x, depth + 1) for k, x in v.items())
    return False


class _Return(Exception):
    def __init__(self, v):
        self.v = v


class _Break(Exception):
    pass


class _Continue(Exception):
    pass


class PathCut(Exception):
    """The current path ends here (after checking a loop invariant's preservation)."""


_SRC_CACHE = {}


def func_ast(func):
    """(FunctionDef node, file, first line) of a live function; cached per code object."""
    code = func.__code__
    key = (code.co_filename, code.co_firstlineno, code.co_name)
    if key not in _SRC_CACHE:
        src = inspect.getsource(func)
        tree = ast.parse(textwrap.dedent(src))
        node = tree.body[0]
        if not isinstance(node, (ast.FunctionDef, ast.Lambda)):
            # e.g. assignment `x = lambda ...` : find the lambda
            lam = [n for n in ast.walk(tree) if isinstance(n, ast.Lambda)]
            if not lam:
                raise Unsupported("no function source for %r" % (func,))
            node = lam[0]
        ast.increment_lineno(tree, code.co_firstlineno - 1)
        n = 0
        for sub in ast.walk(node):
            pass
        # loop ordinals in source order
        loops = [s for s in ast.walk(node) if isinstance(s, (ast.For, ast.While))]
        loops.sort(key=lambda s: (s.lineno, s.col_offset))
        for i, s in enumerate(loops):
            s._ordinal = i + 1
        comps = [s for s in ast.walk(node) if isinstance(s, ast.ListComp)]
        comps.sort(key=lambda s: (s.lineno, s.col_offset))
        for i, s in enumerate(comps):
            s._cordinal = i + 1
        _SRC_CACHE[key] = (node, code.co_filename, code.co_firstlineno)
    return _SRC_CACHE[key]


def lambda_ast(func):
    """AST of a live lambda: locate by line and argument names."""
    code = func.__code__
    key = (code.co_filename, code.co_firstlineno, "<lambda>", code.co_varnames[:code.co_argcount], code.co_code)
    if key not in _SRC_CACHE:
        lines, start = inspect.findsource(func)
        # parse the statement containing that line (may span several lines)
        modtree = _module_ast(code.co_filename)
        cands = [n for n in ast.walk(modtree) if isinstance(n, ast.Lambda) and n.lineno == code.co_firstlineno
                 and tuple(a.arg for a in n.args.args) == tuple(code.co_varnames[:code.co_argcount])]
        if len(cands) > 1:
            # disambiguate by compiled code equality
            sel = []
            for c in cands:
                try:
                    cc = compile(ast.Expression(c), code.co_filename, "eval").co_consts[0]
                    if cc.co_code == code.co_code and cc.co_names == code.co_names:
                        sel.append(c)
                except Exception:
                    pass
            if sel:
                cands = sel[:1]
        if len(cands) != 1:
            raise Unsupported("cannot locate lambda at %s:%d" % (code.co_filename, code.co_firstlineno))
        _SRC_CACHE[key] = (cands[0], code.co_filename, code.co_firstlineno)
    return _SRC_CACHE[key]


_MOD_AST = {}


def _module_ast(filename):
    if filename not in _MOD_AST:
        _MOD_AST[filename] = ast.parse(open(filename).read())
    return _MOD_AST[filename]


def qualname(func):
    mod = getattr(func, "__module__", "?")
    return "%s.%s" % (mod, getattr(func, "__qualname__", getattr(func, "__name__", "?")))


class Frame:
    def __init__(self, func, locs, glob, closure_env=None):
        self.func, self.locals, self.glob, self.closure_env = func, locs, glob, closure_env


class Engine:
    def __init__(self, models):
        self.models = models              # models module (lookup, method)
        self.solver = z3.Solver()
        self.solver.set("timeout", 5000)
        self.summaries = {}               # qualname -> callable(E, func, args, kwargs) -> value
        self.loop_specs = {}              # (qualname, ordinal) -> LoopSpec
        self.template_factory = None      # cls -> dict of instance attributes of a live object built by the real constructor (or None)
        self.template_cache = {}
        self.lazy_attrs = set()
        self.attr_hooks = {}              # attribute name -> hook(E, obj, name, 'get'|'set', value) (ownership / interference passes)
        self.inlined = set()
        self.used_models = set()
        self.stats = {"paths": 0, "branches": 0, "feas_checks": 0}
        self.use_pool = os.environ.get("VERIF_POOL", "0") == "1"
        self.reset([])

    # -------------------------------------------------------------- path state
    def reset(self, prefix):
        self.pc = []
        self.solver.reset()
        self.solver.set("timeout", 5000)
        self.bounds = {}
        self.mpool = []                   # models of the current path condition (feasibility cache)
        self.tbounds = {}                 # term id -> (term, (lo, hi)) facts recorded by operator models
        self.decisions = list(prefix)
        self.dpos = 0
        self.new_prefixes = []
        self.counter = {}
        self.path_obls = []               # (clause, pc snapshot, goal, meta)
        self.ghost = {}                   # ghost state of the path (logs etc.)
        self.sheap = {}                   # attr -> z3 array (symbolic-identity objects)
        self.stack = []
        SObj._n[0] = 0

    def fresh(self, base):
        n = self.counter.get(base, 0)
        self.counter[base] = n + 1
        return "%s!%d" % (base, n)

    def fresh_int(self, base):
        return z3.Int(self.fresh(base))

    def assume(self, cond):
        if cond is True:
            return
        if isinstance(cond, SBool):
            cond = cond.t
        if isinstance(cond, bool):
            if not cond:
                raise Infeasible()
            return
        self.pc.append(cond)
        self.solver.add(cond)
        self._learn_bounds(cond)
        if self.mpool:
            self.mpool = [m for m in self.mpool if z3.is_true(m.eval(cond, model_completion=True))]

    # cheap interval facts about symbols, gleaned from assumed comparisons (used before asking the solver)
    def _learn_bounds(self, cond):
        todo = [cond]
        while todo:
            c = todo.pop()
            if z3.is_and(c):
                todo.extend(c.children())
                continue
            if not z3.is_app(c) or c.num_args() != 2:
                continue
            k = c.decl().kind()
            a, b = c.arg(0), c.arg(1)
            flip = {z3.Z3_OP_LE: z3.Z3_OP_GE, z3.Z3_OP_GE: z3.Z3_OP_LE, z3.Z3_OP_LT: z3.Z3_OP_GT, z3.Z3_OP_GT: z3.Z3_OP_LT,
                    z3.Z3_OP_EQ: z3.Z3_OP_EQ}
            if k not in flip:
                continue
            if z3.is_int_value(a) and not z3.is_int_value(b):
                a, b, k = b, a, flip[k]
            if not (z3.is_int_value(b) and z3.is_const(a) and a.decl().kind() == z3.Z3_OP_UNINTERPRETED and z3.is_int(a)):
                continue
            v = b.as_long()
            lo, hi = self.bounds.get(a.get_id(), (None, None))
            if k in (z3.Z3_OP_LE, z3.Z3_OP_LT, z3.Z3_OP_EQ):
                u = v if k != z3.Z3_OP_LT else v - 1
                hi = u if hi is None else min(hi, u)
            if k in (z3.Z3_OP_GE, z3.Z3_OP_GT, z3.Z3_OP_EQ):
                l = v if k != z3.Z3_OP_GT else v + 1
                lo = l if lo is None else max(lo, l)
            self.bounds[a.get_id()] = (lo, hi)

    def interval(self, t, depth=0):
        """(lo, hi) with None = unbounded; sound over-approximation of the term's value under the path condition."""
        if isinstance(t, int):
            return (t, t)
        if z3.is_int_value(t):
            return (t.as_long(), t.as_long())
        if depth > 40 or not z3.is_app(t):
            return (None, None)
        tb = self.tbounds.get(t.get_id())
        if tb is not None:
            return tb[1]
        k = t.decl().kind()
        if k == z3.Z3_OP_UNINTERPRETED and t.num_args() == 0:
            return self.bounds.get(t.get_id(), (None, None))
        ch = [self.interval(c, depth + 1) for c in t.children()] if k in (z3.Z3_OP_ADD, z3.Z3_OP_SUB, z3.Z3_OP_MUL, z3.Z3_OP_UMINUS) else None

        def add(x, y):
            return None if x is None or y is None else x + y
        if k == z3.Z3_OP_ADD:
            lo, hi = 0, 0
            for (l, h) in ch:
                lo, hi = add(lo, l), add(hi, h)
            return (lo, hi)
        if k == z3.Z3_OP_UMINUS:
            l, h = ch[0]
            return (None if h is None else -h, None if l is None else -l)
        if k == z3.Z3_OP_SUB:
            lo, hi = ch[0]
            for (l, h) in ch[1:]:
                lo, hi = add(lo, None if h is None else -h), add(hi, None if l is None else -l)
            return (lo, hi)
        if k == z3.Z3_OP_MUL and len(ch) == 2:
            (a, b), (c, d) = ch
            if None in (a, b, c, d):
                return (None, None)
            ps = [a * c, a * d, b * c, b * d]
            return (min(ps), max(ps))
        if k == z3.Z3_OP_MOD:
            d = t.arg(1)
            if z3.is_int_value(d) and d.as_long() > 0:
                l, h = self.interval(t.arg(0), depth + 1)
                if l is not None and h is not None and l >= 0 and h < d.as_long():
                    return (l, h)
                return (0, d.as_long() - 1)
            return (None, None)
        if k == z3.Z3_OP_IDIV:
            d = t.arg(1)
            if z3.is_int_value(d) and d.as_long() > 0:
                l, h = self.interval(t.arg(0), depth + 1)
                dv = d.as_long()
                return (None if l is None else l // dv, None if h is None else h // dv)
            return (None, None)
        if k == z3.Z3_OP_ITE:
            (a, b), (c, d) = self.interval(t.arg(1), depth + 1), self.interval(t.arg(2), depth + 1)
            return (None if a is None or c is None else min(a, c), None if b is None or d is None else max(b, d))
        if k == z3.Z3_OP_SELECT:
            a = t.arg(0)
            from ..common.core import RANGED
            if z3.is_const(a) and a.decl().name() in RANGED:
                return RANGED[a.decl().name()]
            return (None, None)
        if k == z3.Z3_OP_UNINTERPRETED and t.num_args() == 1:
            from ..common.core import UF_TABLES
            nm = t.decl().name()
            if nm in UF_TABLES:
                # a table application is only meaningful inside the table (the index check precedes it)
                vals = UF_TABLES[nm][1]
                il, ih = self.interval(t.arg(0), depth + 1)
                if il is not None and ih is not None and 0 <= il and ih < len(vals):
                    return (min(vals[il:ih + 1]), max(vals[il:ih + 1]))
            return (None, None)
        return (None, None)

    def note_bounds(self, t, lo, hi):
        if z3.is_expr(t):
            self.tbounds[t.get_id()] = (t, (lo, hi))
        return t

    def feasible(self, cond):
        """Is PC and cond satisfiable?  Answered from the pool of models of the current PC when possible."""
        for m in (self.mpool if self.use_pool else ()):
            if z3.is_true(m.eval(cond, model_completion=True)):
                self.stats["pool_hits"] = self.stats.get("pool_hits", 0) + 1
                return True
        self.stats["feas_checks"] += 1
        self.solver.push()
        self.solver.add(cond)
        r = self.solver.check()
        if r == z3.sat and self.use_pool:
            try:
                self.mpool.append(self.solver.model())
                if len(self.mpool) > 6:
                    self.mpool.pop(0)
            except z3.Z3Exception:
                pass
        self.solver.pop()
        return r != z3.unsat

    def branch(self, cond):
        """Decide a symbolic condition; forks the exploration when both sides are feasible."""
        if isinstance(cond, SBool):
            cond = cond.t
        if isinstance(cond, bool):
            return cond
        cond = z3.simplify(cond)
        if z3.is_true(cond):
            return True
        if z3.is_false(cond):
            return False
        self.stats["branches"] += 1
        if self.dpos < len(self.decisions):
            d = self.decisions[self.dpos]
            self.dpos += 1
        else:
            ft = self.feasible(cond)
            # the path condition is satisfiable, so when cond is infeasible its negation is feasible
            ff = self.feasible(z3.Not(cond)) if ft else True
            if ft and ff:
                self.new_prefixes.append(self.decisions + [False])
                d = True
            elif ft:
                d = True
            elif ff:
                d = False
            else:
                raise Infeasible()
            self.decisions.append(d)
            self.dpos += 1
        self.assume(cond if d else z3.Not(cond))
        return d

    def choose(self, n, label="choice"):
        """Non-deterministic concrete choice in range(n) (case split inside a path)."""
        for k in range(n - 1):
            b = z3.Bool(self.fresh(label))
            if self.branch(b):
                return k
        return n - 1

    def require(self, clause, goal, **meta):
        """Obligation raised inside a path (callee pre-condition, memory/arith side condition)."""
        if isinstance(goal, SBool):
            goal = goal.t
        if isinstance(goal, bool):
            goal = z3.BoolVal(goal)
        self.path_obls.append((clause, list(self.pc), goal, meta))
        self.assume(goal)

    def raise_(self, cls, *args, implicit=None):
        raise PyRaise(ExcVal(cls, args, implicit=implicit))

    # -------------------------------------------------------------- exploration
    def explore(self, run, max_paths=20000):
        """run(E) is executed once per path. Yields Path records."""
        work = [[]]
        paths = []
        while work:
            prefix = work.pop()
            self.reset(prefix)
            try:
                try:
                    v = run(self)
                    outcome = ("return", v)
                except PyRaise as e:
                    outcome = ("raise", e.exc)
                except PathCut:
                    outcome = ("cut", None)
            except Infeasible:
                work.extend(self.new_prefixes)
                continue
            work.extend(self.new_prefixes)
            self.stats["paths"] += 1
            pth = Path(list(self.pc), outcome, list(self.path_obls), dict(self.ghost), list(self.decisions))
            pth.sheap = dict(self.sheap)
            paths.append(pth)
            if len(paths) > max_paths:
                raise Unsupported("path explosion (> %d paths)" % max_paths)
        return paths

    # -------------------------------------------------------------- calling
    def call(self, fv, args, kwargs=None):
        kwargs = kwargs or {}
        if isinstance(fv, BoundMethod):
            return self.call(fv.func, [fv.selfv] + list(args), kwargs)
        if isinstance(fv, Closure):
            return self.call_closure(fv, args, kwargs)
        if isinstance(fv, BuiltinMethod):
            self.used_models.add("%s.%s" % (type(fv.obj).__name__ if not isinstance(fv.obj, SSeq) else fv.obj.kind, fv.name))
            return self.models.method(self, fv.obj, fv.name, list(args), kwargs)
        if isinstance(fv, (staticmethod, classmethod)):
            return self.call(fv.__func__, args, kwargs)
        if callable(fv) and getattr(fv, "_engine_callable", False):
            return fv(self, *args, **kwargs)
        if isinstance(fv, types.FunctionType) and self.summaries and qualname(fv) in self.summaries and qualname(fv) not in self.stack:
            return self.summaries[qualname(fv)](self, fv, list(args), kwargs)
        m = self.models.lookup(fv)
        if m is not None:
            self.used_models.add(getattr(m, "_model_name", getattr(fv, "__name__", str(fv))))
            return m(self, *args, **kwargs)
        if isinstance(fv, types.MethodType):
            return self.call(fv.__func__, [fv.__self__] + list(args), kwargs)
        if isinstance(fv, types.FunctionType):
            qn = qualname(fv)
            if qn in self.summaries and qn not in self.stack:
                return self.summaries[qn](self, fv, list(args), kwargs)
            return self.inline(fv, list(args), kwargs)
        if isinstance(fv, type):
            return self.instantiate(fv, list(args), kwargs)
        if callable(fv) and getattr(fv, "_engine_callable", False):
            return fv(self, *args, **kwargs)
        raise Unsupported("call of %r" % (fv,))

    def instantiate(self, cls, args, kwargs):
        if issubclass(cls, BaseException):
            return ExcVal(cls, tuple(args))
        if issubclass(cls, enum.Enum):
            raise Unsupported("enum construction")
        obj = SObj(cls)
        init = inspect.getattr_static(cls, "__init__", None)
        if isinstance(init, types.FunctionType):
            self.call(init, [obj] + args, kwargs)
        elif args or kwargs:
            raise Unsupported("constructor args for %r" % cls)
        return obj

    def bind_args(self, node_args, func_defaults, kw_defaults, args, kwargs, fname):
        locs = {}
        params = [a.arg for a in node_args.posonlyargs + node_args.args]
        defaults = list(func_defaults or ())
        nreq = len(params) - len(defaults)
        args = list(args)
        kwargs = dict(kwargs)
        for i, p in enumerate(params):
            if i < len(args):
                locs[p] = args[i]
            elif p in kwargs:
                locs[p] = kwargs.pop(p)
            elif i >= nreq:
                locs[p] = defaults[i - nreq]
            else:
                self.raise_(TypeError, "missing argument %s of %s" % (p, fname))
        extra = args[len(params):]
        if node_args.vararg:
            locs[node_args.vararg.arg] = tuple(extra)
        elif extra:
            self.raise_(TypeError, "too many arguments for %s" % fname)
        for a in node_args.kwonlyargs:
            if a.arg in kwargs:
                locs[a.arg] = kwargs.pop(a.arg)
            elif kw_defaults and a.arg in kw_defaults:
                locs[a.arg] = kw_defaults[a.arg]
            else:
                self.raise_(TypeError, "missing kw-only argument")
        if node_args.kwarg:
            locs[node_args.kwarg.arg] = kwargs
        elif kwargs:
            self.raise_(TypeError, "unexpected keyword %s for %s" % (list(kwargs), fname))
        return locs

    def inline(self, func, args, kwargs):
        if func.__name__ == "<lambda>":
            node, fname, line = lambda_ast(func)
        else:
            node, fname, line = func_ast(func)
        qn = qualname(func)
        self.inlined.add(qn)
        if len(self.stack) > 60:
            raise Unsupported("recursion depth")
        locs = self.bind_args(node.args, func.__defaults__, func.__kwdefaults__, args, kwargs, qn)
        cenv = None
        if func.__closure__:
            cenv = {}
            for name, cell in zip(func.__code__.co_freevars, func.__closure__):
                try:
                    cenv[name] = cell.cell_contents
                except ValueError:
                    pass
        fr = Frame(func, locs, func.__globals__, cenv)
        fr.qualname = qn
        self.stack.append(qn)
        try:
            if isinstance(node, ast.Lambda):
                return self.eval(node.body, fr)
            try:
                self.exec_block(node.body, fr)
            except _Return as r:
                return r.v
            return None
        finally:
            self.stack.pop()

    def call_closure(self, c, args, kwargs):
        node = c.node
        defaults = [self.eval(d, c.env) for d in node.args.defaults] if node.args.defaults else []
        locs = self.bind_args(node.args, defaults, None, args, kwargs, c.name)
        fr = Frame(c.env.func, locs, c.glob, c.env)
        fr.qualname = getattr(c.env, "qualname", "?") + ".<locals>." + c.name
        if isinstance(node, ast.Lambda):
            return self.eval(node.body, fr)
        try:
            self.exec_block(node.body, fr)
        except _Return as r:
            return r.v
        return None

    # -------------------------------------------------------------- names
    def lookup(self, name, fr):
        f = fr
        while f is not None:
            if isinstance(f, Frame):
                if name in f.locals:
                    return f.locals[name]
                nxt = f.closure_env
                if isinstance(nxt, dict):
                    if name in nxt:
                        return nxt[name]
                    nxt = None
                f = nxt
            else:
                break
        if name in fr.glob:
            return fr.glob[name]
        if hasattr(builtins, name):
            return getattr(builtins, name)
        self.raise_(NameError, name)

    # -------------------------------------------------------------- truth / ints
    def truth(self, v):
        if isinstance(v, bool):
            return v
        if v is None:
            return False
        if isinstance(v, SBool):
            return self.branch(v.t)
        if isinstance(v, SInt):
            return self.branch(v.t != 0)
        if isinstance(v, SOpt):
            if self.branch(v.isnone):
                return False
            return self.truth(v.val)
        if isinstance(v, SSeq):
            if isinstance(v.length, int):
                return v.length > 0
            return self.branch(v.length > 0)
        if isinstance(v, (SObj, SRef)):
            # CPython: __bool__ first, else __len__() != 0, else every object is true
            for nm in ("__bool__", "__len__"):
                fn = inspect.getattr_static(v.cls, nm, None)
                if fn is None:
                    continue
                if not isinstance(fn, types.FunctionType):
                    raise Unsupported("truthiness via %s" % nm)
                r = self.call(fn, [v], {})
                if nm == "__bool__" and not isinstance(r, (bool, SBool)):
                    raise Unsupported("__bool__ returned a non-bool")
                if nm == "__len__" and not isinstance(r, (int, SInt)) or isinstance(r, bool) and nm == "__len__":
                    raise Unsupported("__len__ returned a non-int")
                return self.truth(r)
            return True
        if isinstance(v, (int, str, bytes, tuple, list, dict, range)):
            return bool(v)
        if isinstance(v, FmtStr):
            raise Unsupported("truth of formatted string")
        if isinstance(v, SStr):
            return self.branch(z3.Length(v.t) > 0)
        if isinstance(v, (type, types.FunctionType, types.ModuleType, enum.Enum, ExcVal, BoundMethod, Closure)):
            return True
        if self.is_live_instance(v):
            if inspect.getattr_static(type(v), "__bool__", None) is None and inspect.getattr_static(type(v), "__len__", None) is None:
                return True
        if hasattr(v, "pyvc_truth"):
            return v.pyvc_truth(self)
        raise Unsupported("truth of %r" % (v,))

    def as_int(self, v, what="operand"):
        """Engine value -> python int or z3 Int; raises TypeError path for None."""
        if isinstance(v, bool):
            return int(v)
        if isinstance(v, int):
            return v
        if isinstance(v, SInt):
            return v.t
        if isinstance(v, SBool):
            return z3.If(v.t, z3.IntVal(1), z3.IntVal(0))
        if isinstance(v, SOpt):
            if self.branch(v.isnone):
                self.raise_(TypeError, "NoneType %s" % what, implicit="none-arith")
            return self.as_int(v.val, what)
        if v is None:
            self.raise_(TypeError, "NoneType %s" % what, implicit="none-arith")
        if isinstance(v, (SSeq, SObj, SRef, str, bytes, tuple, list, FmtStr, SStr)):
            self.raise_(TypeError, "bad %s type" % what, implicit="type")
        raise Unsupported("as_int(%r)" % (v,))

    def deopt(self, v):
        """SOpt -> None or its value (forks)."""
        if isinstance(v, SOpt):
            if self.branch(v.isnone):
                return None
            return v.val
        return v

    # -------------------------------------------------------------- statements
    def exec_block(self, stmts, fr):
        for s in stmts:
            self.exec(s, fr)

    def exec(self, s, fr):
        m = getattr(self, "st_" + type(s).__name__, None)
        if m is None:
            raise Unsupported("statement %s at line %d" % (type(s).__name__, s.lineno))
        return m(s, fr)

    def st_Expr(self, s, fr):
        self.eval(s.value, fr)

    def st_Pass(self, s, fr):
        pass

    def st_Return(self, s, fr):
        raise _Return(self.eval(s.value, fr) if s.value is not None else None)

    def st_Break(self, s, fr):
        raise _Break()

    def st_Continue(self, s, fr):
        raise _Continue()

    def st_Assert(self, s, fr):
        if not self.truth(self.eval(s.test, fr)):
            self.raise_(AssertionError)

    def st_Import(self, s, fr):
        for a in s.names:
            fr.locals[a.asname or a.name.split(".")[0]] = __import__(a.name)

    def st_Global(self, s, fr):
        raise Unsupported("global statement")

    def st_FunctionDef(self, s, fr):
        fr.locals[s.name] = Closure(s, fr, fr.glob, s.name)

    def st_Assign(self, s, fr):
        v = self.eval(s.value, fr)
        for t in s.targets:
            self.assign(t, v, fr)

    def st_AnnAssign(self, s, fr):
        if s.value is not None:
            self.assign(s.target, self.eval(s.value, fr), fr)

    def st_AugAssign(self, s, fr):
        t = s.target
        if isinstance(t, ast.Name):
            cur = self.lookup(t.id, fr)
            new = self.binop(type(s.op), cur, self.eval(s.value, fr), inplace=True)
            fr.locals[t.id] = new
        elif isinstance(t, ast.Attribute):
            obj = self.eval(t.value, fr)
            cur = self.getattr(obj, t.attr)
            new = self.binop(type(s.op), cur, self.eval(s.value, fr), inplace=True)
            self.setattr(obj, t.attr, new)
        elif isinstance(t, ast.Subscript):
            obj = self.eval(t.value, fr)
            idx = self.eval(t.slice, fr)
            cur = self.getitem(obj, idx)
            new = self.binop(type(s.op), cur, self.eval(s.value, fr), inplace=True)
            self.setitem(obj, idx, new)
        else:
            raise Unsupported("augassign target")

    def st_Delete(self, s, fr):
        for t in s.targets:
            if isinstance(t, ast.Name):
                fr.locals.pop(t.id, None)
            elif isinstance(t, ast.Attribute):
                obj = self.eval(t.value, fr)
                self.delattr(obj, t.attr)
            elif isinstance(t, ast.Subscript):
                obj = self.eval(t.value, fr)
                idx = self.eval(t.slice, fr)
                if isinstance(obj, dict) and isinstance(idx, str):
                    if idx not in obj:
                        self.raise_(KeyError, idx)
                    del obj[idx]
                elif isinstance(obj, SSeq) and isinstance(idx, SliceV) and obj.kind in ("bytearray", "list", "array_b", "array_B") \
                        and (idx.step is None or idx.step == 1) and isinstance(t.value, (ast.Name, ast.Attribute)):
                    # del seq[a:b] on a mutable sequence: the variable / attribute is rebound to head + tail (aliases are not tracked)
                    head = self.models.slice_seq(self, obj, SliceV(None, idx.lo if idx.lo is not None else 0, None))
                    tail = self.models.slice_seq(self, obj, SliceV(idx.hi, None, None)) if idx.hi is not None else None
                    new = head if tail is None else self.models.concat(head, tail, obj.kind)
                    self.used_models.add("del sequence[a:b] (rebinding; aliases not tracked)")
                    self.assign(t.value, new, fr)
                else:
                    raise Unsupported("del subscript")
            else:
                raise Unsupported("del target")

    def st_If(self, s, fr):
        if self.truth(self.eval(s.test, fr)):
            self.exec_block(s.body, fr)
        else:
            self.exec_block(s.orelse, fr)

    def st_Raise(self, s, fr):
        if s.exc is None:
            cur = getattr(fr, "handling", None)
            if cur is None:
                self.raise_(RuntimeError, "no active exception")
            raise PyRaise(cur)
        v = self.eval(s.exc, fr)
        if isinstance(v, type) and issubclass(v, BaseException):
            v = ExcVal(v, ())
        if not isinstance(v, ExcVal):
            raise Unsupported("raise of %r" % (v,))
        if s.cause is not None:
            v.cause = self.eval(s.cause, fr)
        raise PyRaise(v)

    def st_Try(self, s, fr):
        try:
            try:
                self.exec_block(s.body, fr)
            except PyRaise as e:
                for h in s.handlers:
                    if h.type is None:
                        match = True
                    else:
                        ht = self.eval(h.type, fr)
                        hts = ht if isinstance(ht, tuple) else (ht,)
                        match = any(isinstance(c, type) and issubclass(e.exc.cls, c) for c in hts)
                    if match:
                        if h.name:
                            fr.locals[h.name] = e.exc
                        old = getattr(fr, "handling", None)
                        fr.handling = e.exc
                        try:
                            self.exec_block(h.body, fr)
                        finally:
                            fr.handling = old
                        break
                else:
                    raise
            else:
                self.exec_block(s.orelse, fr)
        finally:
            if s.finalbody:
                self.exec_block(s.finalbody, fr)

    def st_With(self, s, fr):
        entered = []
        for item in s.items:
            cm = self.eval(item.context_expr, fr)
            r = self.models.ctx_enter(self, cm)
            entered.append(cm)
            if item.optional_vars is not None:
                self.assign(item.optional_vars, r, fr)
        try:
            self.exec_block(s.body, fr)
        finally:
            for cm in reversed(entered):
                self.models.ctx_exit(self, cm)

    def st_While(self, s, fr):
        spec = self.loop_specs.get((getattr(fr, "qualname", None), getattr(s, "_ordinal", None)))
        if spec is not None:
            return spec.run_while(self, s, fr)
        n = sym = 0
        while True:
            b0 = self.stats["branches"]
            if not self.truth(self.eval(s.test, fr)):
                break
            n += 1
            # an iteration whose test had to be decided by the solver: a loop over a symbolic bound; unrolling it is quadratic in the depth
            # (every deeper path is re-executed from the start) and never complete - it needs a loop contract
            sym += 1 if self.stats["branches"] > b0 else 0
            if n > MAX_UNROLL or sym > MAX_SYM_UNROLL:
                raise Unsupported("while loop without invariant exceeds %d iterations%s (line %d)" % (
                    n - 1, " over a symbolic bound" if sym > MAX_SYM_UNROLL else "", s.lineno))
            try:
                self.exec_block(s.body, fr)
            except _Break:
                return
            except _Continue:
                continue
        self.exec_block(s.orelse, fr)

    def st_For(self, s, fr):
        it = self.eval(s.iter, fr)
        spec = self.loop_specs.get((getattr(fr, "qualname", None), getattr(s, "_ordinal", None)))
        if spec is not None:
            return spec.run_for(self, s, fr, it)
        items = self.iterate(it, s.lineno)
        for x in items:
            self.assign(s.target, x, fr)
            try:
                self.exec_block(s.body, fr)
            except _Break:
                return
            except _Continue:
                continue
        self.exec_block(s.orelse, fr)

    def iterate(self, it, lineno=0):
        """Concrete iteration (complete unrolling) of an iterable."""
        if isinstance(it, (list, tuple, range, str, bytes, bytearray)):
            return list(it)
        if isinstance(it, dict):
            return list(it.keys())
        if isinstance(it, SSeq):
            if isinstance(it.length, int):
                return [wrap_int(it.get(i)) for i in range(it.length)]
            raise Unsupported("loop over symbolic-length sequence needs an invariant (line %d)" % lineno)
        if isinstance(it, type) and issubclass(it, enum.Enum):
            return list(it)
        if isinstance(it, Generator):
            return it.items
        if isinstance(it, SRange):
            raise Unsupported("loop over symbolic range needs an invariant (line %d)" % lineno)
        if isinstance(it, SObj):
            gi = inspect.getattr_static(it.cls, "__getitem__", None)
            if gi is not None:
                raise Unsupported("iteration via __getitem__")
        raise Unsupported("iteration over %r (line %d)" % (it, lineno))

    def assign(self, t, v, fr):
        if isinstance(t, ast.Name):
            fr.locals[t.id] = v
        elif isinstance(t, ast.Attribute):
            self.setattr(self.eval(t.value, fr), t.attr, v)
        elif isinstance(t, ast.Subscript):
            self.setitem(self.eval(t.value, fr), self.eval(t.slice, fr), v)
        elif isinstance(t, (ast.Tuple, ast.List)):
            items = self.iterate(v)
            star = [i for i, e in enumerate(t.elts) if isinstance(e, ast.Starred)]
            if star:
                raise Unsupported("starred assignment")
            if len(items) != len(t.elts):
                self.raise_(ValueError, "unpack arity", implicit="unpack")
            for e, x in zip(t.elts, items):
                self.assign(e, x, fr)
        else:
            raise Unsupported("assign target %s" % type(t).__name__)

    # -------------------------------------------------------------- attributes
    def getattr(self, obj, name):
        if isinstance(obj, SOpt):
            obj = self.deopt(obj)
        if isinstance(obj, SObj):
            h = self.attr_hooks.get(name)
            if h is not None:
                r = h(self, obj, name, "get", None)
                if r is not NotImplemented:
                    return r
            if name in obj.attrs:
                return obj.attrs[name]
            if name not in obj.deleted:
                v = self.template_attr(obj.cls, name)
                if v is not _MISSING:
                    obj.attrs[name] = v
                    return v
            return self.class_attr(obj, obj.cls, name)
        if isinstance(obj, SRef):
            if name in obj.schema:
                return self.models.sref_get(self, obj, name)
            if self.sref_lazy_attr(obj, name):
                return self.models.sref_get(self, obj, name)
            return self.class_attr(obj, obj.cls, name)
        if obj is None:
            self.raise_(AttributeError, "NoneType.%s" % name, implicit="none-attr")
        if isinstance(obj, (SSeq, list, dict, str, bytes, FmtStr, SStr, tuple, SLock, SFile)):
            return BuiltinMethod(obj, name)
        if isinstance(obj, ExcVal):
            if name == "args":
                return obj.args
            raise Unsupported("exception attr %s" % name)
        if isinstance(obj, type):
            try:
                raw = inspect.getattr_static(obj, name)
            except AttributeError:
                self.raise_(AttributeError, name)
            if isinstance(raw, staticmethod):
                return raw.__func__
            if isinstance(raw, classmethod):
                return BoundMethod(obj, raw.__func__)
            if isinstance(raw, (types.FunctionType, property)):
                return raw
            return getattr(obj, name)
        if isinstance(obj, enum.Enum):
            raw = inspect.getattr_static(type(obj), name, None)
            if isinstance(raw, types.FunctionType):
                return BoundMethod(obj, raw)
            if isinstance(raw, classmethod):
                return BoundMethod(type(obj), raw.__func__)
            return getattr(obj, name)
        if isinstance(obj, types.ModuleType):
            return getattr(obj, name)
        if isinstance(obj, (int, float)):
            return BuiltinMethod(obj, name)
        if isinstance(obj, struct.Struct):
            if name in ("size", "format"):
                return getattr(obj, name)
            return BuiltinMethod(obj, name)
        if isinstance(obj, SInt):
            return BuiltinMethod(obj, name)
        if isinstance(obj, Namespace):
            return obj.get(self, name)
        if hasattr(obj, "pyvc_method"):
            return BuiltinMethod(obj, name)
        if self.is_live_instance(obj):
            return self.live_getattr(obj, name)
        raise Unsupported("getattr(%r, %s)" % (obj, name))

    def template_attr(self, cls, name):
        """An instance attribute the contract's symbolic object does not model, but a live object built by the real constructor has:
        its initial value stands in as a type representative (plain data only), so that code reading or updating it (statistics
        counters, cached values) runs instead of producing a spurious AttributeError.  Recorded in E.used_models."""
        if inspect.getattr_static(cls, name, _MISSING) is not _MISSING:
            return _MISSING
        if cls not in self.template_cache:
            d = None
            if self.template_factory is not None:
                try:
                    d = self.template_factory(cls)
                except Exception:
                    d = None
            self.template_cache[cls] = d
        d = self.template_cache[cls]
        if not d or name not in d:
            return _MISSING
        v = d[name]
        if not _plain_data(v):
            raise Unsupported("attribute %s.%s is not modelled by the contract and holds a %s" % (cls.__name__, name, type(v).__name__))
        self.used_models.add("unmodelled-attribute:%s.%s (initial value of the real constructor as type representative)" % (cls.__name__, name))
        import copy
        return copy.deepcopy(v)

    def sref_lazy_attr(self, ref, name):
        """scalar attribute outside the contract's schema on a symbolic-identity object: a fresh attribute array (any value of the type)"""
        if inspect.getattr_static(ref.cls, name, _MISSING) is not _MISSING and not isinstance(inspect.getattr_static(ref.cls, name), (int, bool)):
            return False
        v = inspect.getattr_static(ref.cls, name, _MISSING)
        if v is _MISSING:
            try:
                v = self.template_attr(ref.cls, name)
            except Unsupported:
                return False
        if v is _MISSING or not isinstance(v, (int, bool)):
            return False
        kind = "bool" if isinstance(v, bool) else "int"
        ref.schema[name] = kind
        self.lazy_attrs.add(name)
        if name not in self.sheap:
            self.sheap[name] = z3.Array(self.fresh("lazy_" + name), z3.IntSort(), z3.BoolSort() if kind == "bool" else z3.IntSort())
        return True

    def is_live_instance(self, obj):
        """a real Python object built by the real interpreter from the repository's classes (e.g. codec Field objects in a STRUCT)"""
        cls = type(obj)
        mod = getattr(cls, "__module__", "")
        return (mod in getattr(self, "live_modules", ())) and not isinstance(obj, type)

    def live_getattr(self, obj, name):
        try:
            d = object.__getattribute__(obj, "__dict__")
        except AttributeError:
            d = {}
        if name in d:
            return d[name]
        try:
            raw = inspect.getattr_static(type(obj), name)
        except AttributeError:
            self.raise_(AttributeError, "%s.%s" % (type(obj).__name__, name), implicit="attr")
        if isinstance(raw, property):
            return self.call(raw.fget, [obj])
        if isinstance(raw, types.FunctionType):
            return BoundMethod(obj, raw)
        if isinstance(raw, staticmethod):
            return raw.__func__
        if isinstance(raw, classmethod):
            return BoundMethod(type(obj), raw.__func__)
        return raw

    def class_attr(self, obj, cls, name):
        try:
            raw = inspect.getattr_static(cls, name)
        except AttributeError:
            self.raise_(AttributeError, "%s.%s" % (cls.__name__, name), implicit="attr")
        if isinstance(raw, property):
            return self.call(raw.fget, [obj])
        if isinstance(raw, types.FunctionType):
            return BoundMethod(obj, raw)
        if isinstance(raw, staticmethod):
            return raw.__func__
        if isinstance(raw, classmethod):
            return BoundMethod(cls, raw.__func__)
        if isinstance(raw, (types.MemberDescriptorType, types.GetSetDescriptorType)):
            self.raise_(AttributeError, name)
        return raw

    def setattr(self, obj, name, v):
        if isinstance(obj, SObj):
            h = self.attr_hooks.get(name)
            if h is not None:
                r = h(self, obj, name, "set", v)
                if r is not NotImplemented:
                    return r
            raw = inspect.getattr_static(obj.cls, name, None)
            if isinstance(raw, property):
                if raw.fset is None:
                    self.raise_(AttributeError, "can't set %s" % name)
                return self.call(raw.fset, [obj, v])
            obj.attrs[name] = v
            obj.deleted.discard(name)
            return
        if isinstance(obj, SRef):
            if name in obj.schema or self.sref_lazy_attr(obj, name):
                return self.models.sref_set(self, obj, name, v)
            raise Unsupported("write of undeclared attribute %s on symbolic object" % name)
        if isinstance(obj, Namespace):
            return obj.set(self, name, v)
        if obj is None:
            self.raise_(AttributeError, "NoneType.%s" % name, implicit="none-attr")
        raise Unsupported("setattr on %r" % (obj,))

    def delattr(self, obj, name):
        if isinstance(obj, SObj):
            if name in obj.attrs:
                del obj.attrs[name]
                obj.deleted.add(name)
                return
            self.raise_(AttributeError, name, implicit="del-attr")
        raise Unsupported("delattr on %r" % (obj,))

    # -------------------------------------------------------------- expressions
    def eval(self, e, fr):
        m = getattr(self, "ex_" + type(e).__name__, None)
        if m is None:
            raise Unsupported("expression %s at line %d" % (type(e).__name__, getattr(e, "lineno", 0)))
        return m(e, fr)

    def ex_Constant(self, e, fr):
        return e.value

    def ex_Name(self, e, fr):
        return self.lookup(e.id, fr)

    def ex_Attribute(self, e, fr):
        return self.getattr(self.eval(e.value, fr), e.attr)

    def ex_Tuple(self, e, fr):
        out = []
        parts = []
        for x in e.elts:
            if isinstance(x, ast.Starred):
                v = self.eval(x.value, fr)
                if isinstance(v, SSeq) and not isinstance(v.length, int):
                    parts.append(("seq", v))
                    continue
                items = self.iterate(v)
                out.extend(items)
                parts.extend(("item", it) for it in items)
            else:
                v = self.eval(x, fr)
                out.append(v)
                parts.append(("item", v))
        if any(k == "seq" for k, _ in parts):
            return ConcatList(parts)
        return tuple(out)

    def ex_List(self, e, fr):
        r = self.ex_Tuple(e, fr)
        return r if isinstance(r, ConcatList) else list(r)

    def ex_Dict(self, e, fr):
        d = {}
        for k, v in zip(e.keys, e.values):
            if k is None:
                raise Unsupported("dict unpacking")
            d[self.eval(k, fr)] = self.eval(v, fr)
        return d

    def ex_JoinedStr(self, e, fr):
        parts = []
        for v in e.values:
            if isinstance(v, ast.Constant):
                parts.append(v.value)
            else:
                if v.format_spec is not None or v.conversion not in (-1, 115):
                    raise Unsupported("f-string conversion / format spec")
                parts.append(self.models.str_of(self, self.eval(v.value, fr)))
        if all(isinstance(x, str) for x in parts):
            return "".join(parts)
        return FmtStr("f-string", parts)

    def ex_Lambda(self, e, fr):
        return Closure(e, fr, fr.glob)

    def ex_IfExp(self, e, fr):
        if self.truth(self.eval(e.test, fr)):
            return self.eval(e.body, fr)
        return self.eval(e.orelse, fr)

    def ex_BoolOp(self, e, fr):
        v = None
        for i, x in enumerate(e.values):
            v = self.eval(x, fr)
            last = i == len(e.values) - 1
            if last:
                return v
            t = self.truth(v)
            if isinstance(e.op, ast.And) and not t:
                return v if not is_sym(v) else False
            if isinstance(e.op, ast.Or) and t:
                return v if not is_sym(v) else (True if isinstance(v, SBool) else v)
        return v

    def ex_UnaryOp(self, e, fr):
        v = self.eval(e.operand, fr)
        if isinstance(e.op, ast.Not):
            if isinstance(v, SBool):
                return wrap_bool(z3.Not(v.t))
            return not self.truth(v)
        if isinstance(v, (int, float)) and not isinstance(v, bool):
            return {ast.USub: lambda x: -x, ast.UAdd: lambda x: +x, ast.Invert: lambda x: ~x}[type(e.op)](v)
        t = self.as_int(v)
        if isinstance(e.op, ast.USub):
            return wrap_int(-to_z3int(t))
        if isinstance(e.op, ast.UAdd):
            return wrap_int(to_z3int(t))
        if isinstance(e.op, ast.Invert):
            return wrap_int(-to_z3int(t) - 1)
        raise Unsupported("unary op")

    def ex_BinOp(self, e, fr):
        return self.binop(type(e.op), self.eval(e.left, fr), self.eval(e.right, fr))

    def binop(self, op, a, b, inplace=False):
        return self.models.binop(self, op, a, b, inplace)

    def ex_Compare(self, e, fr):
        left = self.eval(e.left, fr)
        res = None
        for op, rx in zip(e.ops, e.comparators):
            right = self.eval(rx, fr)
            r = self.models.compare(self, type(op), left, right)
            if res is None:
                res = r
            else:
                if isinstance(res, bool) and isinstance(r, bool):
                    res = res and r
                else:
                    res = wrap_bool(z3.And(to_z3bool(res), to_z3bool(r)))
            if res is False:
                return False
            left = right
        return res

    def ex_Call(self, e, fr):
        fv = self.eval(e.func, fr)
        args = []
        for a in e.args:
            if isinstance(a, ast.Starred):
                args.extend(self.iterate(self.eval(a.value, fr)))
            else:
                args.append(self.eval(a, fr))
        kwargs = {}
        for k in e.keywords:
            if k.arg is None:
                d = self.eval(k.value, fr)
                if not isinstance(d, dict):
                    raise Unsupported("**kwargs of non-dict")
                kwargs.update(d)
            else:
                kwargs[k.arg] = self.eval(k.value, fr)
        return self.call(fv, args, kwargs)

    def ex_Subscript(self, e, fr):
        obj = self.eval(e.value, fr)
        idx = self.eval(e.slice, fr)
        return self.getitem(obj, idx)

    def ex_Slice(self, e, fr):
        return SliceV(self.eval(e.lower, fr) if e.lower is not None else None,
                      self.eval(e.upper, fr) if e.upper is not None else None,
                      self.eval(e.step, fr) if e.step is not None else None)

    def getitem(self, obj, idx):
        return self.models.getitem(self, obj, idx)

    def setitem(self, obj, idx, v):
        return self.models.setitem(self, obj, idx, v)

    def _comp(self, gens, fr, emit):
        def rec(i, env):
            if i == len(gens):
                emit(env)
                return
            g = gens[i]
            for x in self.iterate(self.eval(g.iter, env), getattr(g.iter, "lineno", 0)):
                self.assign(g.target, x, env)
                if all(self.truth(self.eval(c, env)) for c in g.ifs):
                    rec(i + 1, env)
        env = Frame(fr.func, {}, fr.glob, fr)
        env.qualname = getattr(fr, "qualname", None)
        rec(0, env)

    def comp_env(self, fr):
        env = Frame(fr.func, {}, fr.glob, fr)
        env.qualname = getattr(fr, "qualname", None)
        return env

    def ex_ListComp(self, e, fr):
        spec = self.loop_specs.get((getattr(fr, "qualname", None), "comp", getattr(e, "_cordinal", None))) \
            or self.loop_specs.get((getattr(fr, "qualname", None), "comp@%d" % e.lineno))
        if spec is not None:
            return spec.run_comp(self, e, fr)
        out = []
        self._comp(e.generators, fr, lambda env: out.append(self.eval(e.elt, env)))
        return out

    def ex_GeneratorExp(self, e, fr):
        out = []
        self._comp(e.generators, fr, lambda env: out.append(self.eval(e.elt, env)))
        return Generator(out)

    def ex_DictComp(self, e, fr):
        out = {}

        def emit(env):
            out[self.eval(e.key, env)] = self.eval(e.value, env)
        self._comp(e.generators, fr, emit)
        return out

    def ex_Starred(self, e, fr):
        raise Unsupported("starred expression")


class Path:
    def __init__(self, pc, outcome, obls, ghost, decisions):
        self.pc, self.outcome, self.obls, self.ghost, self.decisions = pc, outcome, obls, ghost, decisions

    @property
    def raised(self):
        return self.outcome[1].cls if self.outcome[0] == "raise" else None

    @property
    def value(self):
        return self.outcome[1] if self.outcome[0] == "return" else None


class BuiltinMethod:
    def __init__(self, obj, name):
        self.obj, self.name = obj, name


class SliceV:
    def __init__(self, lo, hi, step):
        self.lo, self.hi, self.step = lo, hi, step


class Generator:
    def __init__(self, items):
        self.items = items


class ConcatList(SSeq):
    """[a, b, *symbolic_seq, ...]: list display containing a sequence of symbolic length (iterable only under a loop contract)"""

    def __init__(self, parts):
        n = 0
        for k, v in parts:
            n = n + (1 if k == "item" else to_z3int(v.length))
        SSeq.__init__(self, "list", z3.simplify(n) if not isinstance(n, int) else n, None)
        self.parts = parts

    def elem(self, E, i):
        """element at symbolic index i (forks over the parts)"""
        off = 0
        for k, v in self.parts:
            if k == "item":
                if E.branch(i == off):
                    return v
                off = off + 1
            else:
                ln = to_z3int(v.length)
                if E.branch(z3.And(i >= off, i < off + ln)):
                    return v.get(z3.simplify(i - off))
                off = off + ln
        raise Infeasible()


class SRange:
    """range() with symbolic bounds."""

    def __init__(self, lo, hi):
        self.lo, self.hi = lo, hi


class SLock:
    def __init__(self, name="lock"):
        self.name, self.held = name, False


class SFile:
    """Ghost file: content sequence + position (see models.file_*)."""

    def __init__(self, content, pos=0):
        self.content, self.pos = content, pos


class Namespace:
    """Engine-provided object with custom get/set (used by contract harnesses)."""

    def __init__(self, getter, setter=None):
        self._g, self._s = getter, setter

    def get(self, E, name):
        return self._g(E, name)

    def set(self, E, name, v):
        if self._s is None:
            raise Unsupported("namespace write")
        return self._s(E, name, v)

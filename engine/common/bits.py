"""Bitwise operations on bounded non-negative integers as integer arithmetic (shared, trusted definitions
used by the engines' operator models and by the spec functions)."""
import z3


def bit(x, i):
    return (x if i == 0 else x / z3.IntVal(1 << i)) % 2


def and_bits(x, y, w):
    """x & y for 0 <= x, y < 2^w"""
    terms = [z3.If(bit(x, i) + bit(y, i) == 2, z3.IntVal(1 << i), z3.IntVal(0)) for i in range(w)]
    return z3.Sum(terms) if w > 1 else terms[0]


def xor_bits(x, y, w):
    return x + y - 2 * and_bits(x, y, w)


def or_bits(x, y, w):
    return x + y - and_bits(x, y, w)

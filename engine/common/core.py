"""Common verdict pipeline: obligations, solver pool, evidence, known findings.

An *obligation* is a named proof goal `PC => goal` produced by one of the VC
generators (PyVC for Python, CVC for C).  It is discharged when `PC and not goal`
is unsat.  Queries are serialised to SMT-LIB2 text so that they can be decided in
worker processes (z3 python API) and, when z3 says `unknown`, by the cvc5 CLI.

Exit codes of a check: 0 held / 1 violation / 2 undecided / 3 checker crash.
"""
import json, os, sys, time, subprocess, tempfile, traceback, hashlib
import multiprocessing as mp

import z3

VERIF = os.path.dirname(os.path.dirname(os.path.dirname(os.path.abspath(__file__))))
REPO = os.environ.get("VERIF_REPO", "/repo")
TOOLKIT = os.path.join(REPO, "src/target/trx_toolkit")

OUT = os.environ.get("VERIF_OUT", VERIF)      # where evidence/ and replay/ are written (mutation runs redirect it)

QUICK_BUDGET_S = 30
THOROUGH_BUDGET_S = 180
QUICK_TOTAL_S = 900          # wall budget of one discharge phase; obligations not reached by then stay `unknown` (exit 2)
THOROUGH_TOTAL_S = 3600


RANGED = {}     # array name -> (lo, hi): axiom  forall i. lo <= arr[i] <= hi, instantiated at every Select in a query


def ranged_array(name, lo, hi):
    RANGED[name] = (lo, hi)


UF_TABLES = {}   # function name -> (decl, values)


def uf_table(values):
    """A concrete integer table as an uninterpreted function plus ground axioms f(k) = v_k (added to every
    query in which f occurs).  The symbol is named by the table's content, so two equal tables share it."""
    vals = [int(v) for v in values]
    name = "tbl%d_%s" % (len(vals), hashlib.sha1(repr(vals).encode()).hexdigest()[:10])
    if name not in UF_TABLES:
        UF_TABLES[name] = (z3.Function(name, z3.IntSort(), z3.IntSort()), vals)
    f = UF_TABLES[name][0]

    def get(i):
        if isinstance(i, int):
            return vals[i]
        return f(i)
    return get


_RI_CACHE = {}     # term id -> (term kept alive, [instances in that term])


def _instances_of(t):
    """instances of range / table axioms contributed by the sub-terms of t (memoised per term)"""
    k = t.get_id()
    hit = _RI_CACHE.get(k)
    if hit is not None:
        return hit[1]
    out = []
    seen_local = set()
    todo = [t]
    while todo:
        u = todo.pop()
        ku = u.get_id()
        if ku in seen_local:
            continue
        seen_local.add(ku)
        sub = _RI_CACHE.get(ku) if ku != k else None
        if sub is not None:
            out.extend(sub[1])
            continue
        if z3.is_app(u):
            if u.num_args() == 1 and u.decl().name() in UF_TABLES:
                out.append(("uf", u.decl().name()))
            if z3.is_select(u):
                a = u.arg(0)
                if z3.is_const(a) and a.decl().name() in RANGED:
                    out.append(("sel", u))
            todo.extend(u.children())
        elif z3.is_quantifier(u):
            todo.append(u.body())
    _RI_CACHE[k] = (t, out)
    return out


def range_instances(terms):
    """Instances of the element-range axioms for every `Select(arr, i)` over a registered array, and the ground axioms of every
    uninterpreted table function, occurring in `terms`."""
    out, seen = [], set()
    for t in terms:
        for kind, x in _instances_of(t):
            if kind == "uf":
                if ("uf", x) in seen:
                    continue
                seen.add(("uf", x))
                f, vals = UF_TABLES[x]
                out.extend(f(z3.IntVal(k)) == v for k, v in enumerate(vals))
            else:
                kx = x.get_id()
                if kx in seen:
                    continue
                seen.add(kx)
                lo, hi = RANGED[x.arg(0).decl().name()]
                out.append(z3.And(x >= lo, x <= hi))
    return out


class Obligation:
    """One proof goal.  `assumptions` (list of z3 Bool) => `goal` (z3 Bool)."""

    def __init__(self, prop, func, clause, assumptions, goal, *, kind="post",
                 case="", where="", inputs=None, note="", bounded=None, tag=None):
        self.prop = prop
        self.func = func          # function under contract, e.g. data_msg.RxMsg.validate
        self.clause = clause      # contract clause, e.g. raises_iff
        self.kind = kind          # post | pre | inv | frame | noexc | mem | ub | lemma | table | cover
        self.case = case          # case split label
        self.where = where        # file:line of the function
        self.assumptions = list(assumptions)
        self.goal = goal
        self.inputs = inputs or {}   # name -> z3 term (or nested) describing the symbolic inputs, for replay
        self.note = note
        self.bounded = bounded    # None or int K  (bounded stand-in, never counted as proved)
        self.tag = tag            # free payload for the property driver (e.g. path outcome)
        # filled by the pipeline
        try:
            self.range_facts = range_instances(self.assumptions + [self.goal])
        except Exception:
            self.range_facts = []
        self.status = None        # proved | failed | unknown | error
        self.backend = None
        self.time_s = 0.0
        self.reason = ""
        self.smt2 = None

    @property
    def name(self):
        n = "%s/%s/%s" % (self.prop, self.func, self.clause)
        if self.case:
            n += "[%s]" % self.case
        return n

    def query_smt2(self):
        if self.smt2 is None:
            s = z3.Solver()
            for a in self.assumptions:
                s.add(a)
            s.add(z3.Not(self.goal))
            for a in self.range_facts:
                s.add(a)
            self.smt2 = s.to_smt2()
        return self.smt2

    def freeze(self):
        """Picklable form (used to build obligations in worker processes)."""
        return {"cover": isinstance(self, Cover), "prop": self.prop, "func": self.func, "clause": self.clause, "kind": self.kind,
                "case": self.case, "where": self.where, "note": self.note, "bounded": self.bounded, "tag": self.tag,
                "smt2": self.query_smt2(), "goal_str": str(self.goal)[:1500]}

    @staticmethod
    def thaw(d):
        o = (Cover if d["cover"] else Obligation).__new__(Cover if d["cover"] else Obligation)
        o.prop, o.func, o.clause, o.kind, o.case, o.where = d["prop"], d["func"], d["clause"], d["kind"], d["case"], d["where"]
        o.note, o.bounded, o.tag, o.smt2 = d["note"], d["bounded"], d["tag"], d["smt2"]
        o.assumptions, o.goal, o.inputs, o.range_facts = None, d["goal_str"], {}, []
        o.status, o.backend, o.time_s, o.reason = None, None, 0.0, ""
        return o


class Cover(Obligation):
    """Vacuity guard: `assumptions` must be satisfiable (expects sat)."""

    def __init__(self, prop, func, clause, assumptions, **kw):
        kw.setdefault("kind", "cover")
        Obligation.__init__(self, prop, func, clause, assumptions, z3.BoolVal(False), **kw)

    def query_smt2(self):
        if self.smt2 is None:
            s = z3.Solver()
            for a in self.assumptions:
                s.add(a)
            self.smt2 = s.to_smt2()
        return self.smt2


# ---------------------------------------------------------------- solver pool

def _solve_z3(smt2, timeout_ms):
    import z3 as _z3
    global _WCTX, _WN
    t0 = time.time()
    try:
        _WN += 1
        if _WCTX is None or _WN % 16 == 0:
            _WCTX = _z3.Context()
        ctx = _WCTX
        s = _z3.Solver(ctx=ctx)
        s.set("timeout", int(timeout_ms))
        s.from_string(smt2)
        r = s.check()
        st = str(r)
        reason = s.reason_unknown() if st == "unknown" else ""
    except Exception as e:  # parse error etc.
        st, reason = "error", "z3: %r" % (e,)
    return st, time.time() - t0, reason


_WCTX, _WN = None, 0


def _solve_cvc5(smt2, timeout_ms):
    t0 = time.time()
    txt = smt2.replace("(check-sat)", "")
    if "bv2int" in txt:
        txt = txt.replace("bv2int", "bv2nat")
    hdr = "(set-logic ALL)\n"
    with tempfile.NamedTemporaryFile("w", suffix=".smt2", delete=False) as f:
        f.write(hdr + txt + "\n(check-sat)\n")
        path = f.name
    try:
        p = subprocess.run(["/usr/bin/cvc5", "--lang=smt2", "--tlimit=%d" % int(timeout_ms),
                            "--strings-exp", path], capture_output=True, text=True,
                           timeout=timeout_ms / 1000.0 + 10)
        out = (p.stdout or "").strip().splitlines()
        st = out[0].strip() if out else "unknown"
        if st not in ("sat", "unsat", "unknown"):
            st, reason = "unknown", "cvc5: " + (p.stdout + p.stderr)[:300]
        else:
            reason = ""
    except subprocess.TimeoutExpired:
        st, reason = "unknown", "cvc5 timeout"
    except Exception as e:
        st, reason = "unknown", "cvc5: %r" % (e,)
    finally:
        try:
            os.unlink(path)
        except OSError:
            pass
    return st, time.time() - t0, reason


def _work(job):
    idx, smt2, timeout_ms, use_cvc5 = job
    st, t, reason = _solve_z3(smt2, timeout_ms)
    backend = "z3-%s" % z3.get_version_string()
    if st in ("unknown", "error") and use_cvc5:
        st2, t2, r2 = _solve_cvc5(smt2, timeout_ms)
        if st2 in ("sat", "unsat"):
            return idx, st2, t + t2, "cvc5-1.0.3 (z3: %s)" % reason, "cvc5-1.0.3"
        reason = "%s; %s" % (reason, r2)
        t += t2
    return idx, st, t, reason, backend


_POOL = None


def pool():
    global _POOL
    if _POOL is None:
        n = int(os.environ.get("VERIF_JOBS", "0")) or min(16, os.cpu_count() or 4)
        _POOL = mp.get_context("fork").Pool(n)
    return _POOL


_PAR_FN = None


def _par_job(i):
    try:
        return ("ok", _PAR_FN(i))
    except BaseException as e:      # noqa
        import traceback
        return ("err", "%s: %s\n%s" % (type(e).__name__, e, traceback.format_exc()[-1500:]), type(e).__name__)


def par_map(fn, n):
    """Run fn(0..n-1) in forked worker processes (they inherit the loaded modules); results must be picklable."""
    global _PAR_FN
    jobs = int(os.environ.get("VERIF_JOBS", "0")) or min(16, os.cpu_count() or 4)
    if n <= 1 or jobs <= 1:
        return [fn(i) for i in range(n)]
    _PAR_FN = fn
    with mp.get_context("fork").Pool(min(jobs, n)) as p:
        res = p.map(_par_job, range(n), chunksize=1)
    _PAR_FN = None
    out = []
    for r in res:
        if r[0] == "err":
            if r[2] == "Unsupported":
                from ..pyvc.values import Unsupported
                raise Unsupported(r[1].splitlines()[0])
            raise RuntimeError("worker failed: " + r[1])
        out.append(r[1])
    return out


def discharge(obls, budget_s, progress=None):
    """Decide every obligation; fills status/backend/time."""
    jobs = []
    for i, o in enumerate(obls):
        try:
            jobs.append((i, o.query_smt2(), int(budget_s * 1000), True))
        except Exception as e:
            o.status, o.reason = "error", "serialise: %r" % (e,)
    if not jobs:
        return
    p = pool()
    t_start = time.time()
    total = THOROUGH_TOTAL_S if budget_s > QUICK_BUDGET_S else QUICK_TOTAL_S
    it = p.imap_unordered(_work, jobs, chunksize=1)
    while True:
        try:
            idx, st, t, reason, backend = it.next(timeout=max(1.0, total - (time.time() - t_start)))
        except StopIteration:
            break
        except mp.TimeoutError:
            for o in obls:
                if o.status is None:
                    o.status, o.reason = "unknown", "global solver budget of %d s exhausted" % total
            global _POOL
            p.terminate()
            _POOL = None
            break
        o = obls[idx]
        o.time_s, o.backend, o.reason = t, backend, reason
        if isinstance(o, Cover):
            o.status = {"sat": "proved", "unsat": "failed"}.get(st, "unknown")
        else:
            o.status = {"unsat": "proved", "sat": "failed"}.get(st, "unknown" if st == "unknown" else "error")


def model_of(obl, budget_s=60):
    """Re-solve a failed obligation in-process and return a z3 model (or None)."""
    s = z3.Solver()
    s.set("timeout", int(budget_s * 1000))
    s.from_string(obl.query_smt2())
    if s.check() == z3.sat:
        return s.model()
    return None


def model_of_excluding(obl, extra, budget_s=60):
    """Model of the failed obligation with `extra` constraints conjoined; returns (status, model)."""
    s = z3.Solver()
    s.set("timeout", int(budget_s * 1000))
    s.from_string(obl.query_smt2())
    for e in extra:
        s.add(e)
    r = s.check()
    return str(r), (s.model() if r == z3.sat else None)


def has_quantifier(t, _seen=None):
    seen = _seen if _seen is not None else set()
    todo = [t]
    while todo:
        u = todo.pop()
        k = u.get_id()
        if k in seen:
            continue
        seen.add(k)
        if z3.is_quantifier(u):
            return True
        if z3.is_app(u):
            todo.extend(u.children())
    return False


def relaxed_model(obl, budget_s=30):
    """For an obligation the solvers left `unknown` (typically: quantified hypotheses, for which a solver cannot certify `sat`):
    look for a counter-model with the quantified assumptions DROPPED.  Such a model is only a candidate - it counts for nothing
    unless the native replay confirms it on the real code."""
    try:
        asserts = z3.parse_smt2_string(obl.query_smt2())
    except z3.Z3Exception:
        return None
    s = z3.Solver()
    s.set("timeout", int(budget_s * 1000))
    dropped = 0
    for a in asserts:
        if has_quantifier(a):
            dropped += 1
        else:
            s.add(a)
    if not dropped:
        return None
    if s.check() == z3.sat:
        return s.model()
    return None


def mval(model, term):
    """Concrete python value of a z3 term under a model (ints / bools)."""
    v = model.eval(term, model_completion=True)
    if z3.is_int_value(v):
        return v.as_long()
    if z3.is_true(v):
        return True
    if z3.is_false(v):
        return False
    if z3.is_bv_value(v):
        return v.as_long()
    if z3.is_string_value(v):
        return v.as_string()
    return str(v)


# ---------------------------------------------------------------- known findings

def load_known_findings():
    path = os.path.join(VERIF, "known_findings.jsonl")
    out = []
    if os.path.exists(path):
        for line in open(path):
            line = line.strip()
            if not line or line.startswith("#") or line.startswith("fixed:"):
                continue
            try:
                out.append(json.loads(line))
            except ValueError:
                pass
    return out


# ---------------------------------------------------------------- run / evidence

class WallClock(Exception):
    """raised by the wall-clock watchdog (engine.cli); never swallowed by section guards"""


class Run:
    """Collects everything a property check produces and writes evidence."""

    def __init__(self, prop, tier, seed):
        self.prop, self.tier, self.seed = prop, tier, seed
        self.t0 = time.time()
        self.obls = []
        self.functions = {}        # qualname -> {file, line, how}
        self.assumptions = []
        self.trusted = []
        self.inlined = set()
        self.samples = []
        self.violations = []       # dicts
        self.known = []
        self.undecided = []
        self.notes = []
        self.extra = {}
        self.bounded_notes = []
        self.out_of_reach = []     # sections whose contracts could not be bound to the current code shape (bounded stand-in takes over)
        self.oracle = None         # result of the property's bounded native oracle, when it ran

    def budget(self):
        return THOROUGH_BUDGET_S if self.tier == "thorough" else QUICK_BUDGET_S

    def add(self, *obls):
        self.obls.extend(obls)

    def fn(self, qualname, file, line, how="contract"):
        self.functions[qualname] = {"file": file, "line": line, "how": how}

    def assume(self, text):
        if text not in self.assumptions:
            self.assumptions.append(text)

    def trust(self, text):
        if text not in self.trusted:
            self.trusted.append(text)

    def write_evidence(self, level="proof", checker_cmd=None):
        proved = [o for o in self.obls if o.status == "proved" and o.bounded is None and not isinstance(o, Cover)]
        bounded = [o for o in self.obls if o.status == "proved" and o.bounded is not None]
        covers = [o for o in self.obls if isinstance(o, Cover)]
        goals = [o for o in self.obls if not isinstance(o, Cover)]
        by_backend = {}
        for o in self.obls:
            if o.backend:
                by_backend[o.backend] = by_backend.get(o.backend, 0) + 1
        per_fn = {}
        for o in goals:
            d = per_fn.setdefault(o.func, {"obligations": 0, "discharged": 0, "bounded": 0, "solver_s": 0.0})
            d["obligations"] += 1
            d["solver_s"] = round(d["solver_s"] + o.time_s, 3)
            if o.status == "proved":
                if o.bounded is None:
                    d["discharged"] += 1
                else:
                    d["bounded"] += 1
        clauses = {}
        for o in goals:
            c = clauses.setdefault("%s/%s" % (o.func, o.clause), {"paths": 0, "proved": 0, "kind": o.kind})
            c["paths"] += 1
            c["proved"] += 1 if o.status == "proved" else 0
        samples = list(self.samples)
        for o in goals[:3]:
            samples.append({"obligation": o.name, "kind": o.kind, "status": o.status,
                            "backend": o.backend, "time_s": round(o.time_s, 4),
                            "smt2_head": (o.smt2 or "")[:400]})
        ev = {
            "property_id": self.prop,
            "tier": self.tier,
            "seed": self.seed,
            "level": level,
            "coverage": {
                "obligations": len([o for o in goals if o.bounded is None]) if level == "proof" else len(goals),
                "discharged": len(proved) if level == "proof" else len(proved) + len(bounded),
                "bounded_obligations": len([o for o in goals if o.bounded is not None]),
                "bounded_only": len(bounded),
                "cover_queries": len(covers),
                "cover_ok": len([o for o in covers if o.status == "proved"]),
                "checker_cmd": checker_cmd or "./check %s --tier %s" % (self.prop, self.tier),
                "trusted_base": self.trusted,
                "functions_under_contract": self.functions,
                "per_function": per_fn,
                "clauses": clauses,
                "backends": by_backend,
                "solver_time_s": round(sum(o.time_s for o in self.obls), 3),
                "inlined_callees": sorted(self.inlined),
                "bounded_notes": self.bounded_notes,
                "samples": samples,
                "known_findings": self.known,
                "undecided": [{"obligation": o.name, "reason": o.reason} for o in self.undecided],
                "notes": self.notes,
            },
            "assumptions": self.assumptions,
            "wall_s": round(time.time() - self.t0, 3),
            "violations": len(self.violations),
        }
        if self.out_of_reach:
            ev["coverage"]["out_of_reach"] = self.out_of_reach
        if self.oracle is not None:
            orc = self.oracle
            ev["coverage"]["bounded_native_oracle"] = {"cases": orc.get("cases"), "failures": len(orc.get("failures") or []), "bound": orc.get("bound"),
                                                      "seconds": orc.get("seconds"), "why": orc.get("why")}
        if level == "exploration":
            orc = self.oracle or {}
            ev["coverage"].update({
                "evaluations": int(orc.get("cases") or 0),
                "distinct_nontrivial": int(orc.get("distinct") or (1 if orc.get("cases") else 0)),
                "rule": "bounded native stand-in (contracts out of reach for this code shape); the oracles count executed cases, they do not measure how many "
                        "are distinct, so distinct_nontrivial is the conservative 1 unless the oracle reports `distinct`; cases are generated as follows: "
                        + str(orc.get("bound") or ""),
                "explanation": "the deductive check could not bind its contracts to (part of) the current code, see out_of_reach; the statement-level "
                               "native oracle of this property ran instead - a bounded exploration, NOT a proof; obligations/discharged count only "
                               "the sections that still bound",
                "exhaustive": False})
            ev["coverage"]["samples"] = (orc.get("samples") or [])[:3] + ev["coverage"]["samples"]
        ev["coverage"].update(self.extra)
        d = os.path.join(OUT, "evidence")
        os.makedirs(d, exist_ok=True)
        tmp = os.path.join(d, ".%s.json.tmp" % self.prop)
        with open(tmp, "w") as f:
            json.dump(ev, f, indent=1, default=str)
        os.replace(tmp, os.path.join(d, "%s.json" % self.prop))
        return ev


def write_replay(prop, obl_name, payload):
    d = os.path.join(OUT, "replay", prop)
    os.makedirs(d, exist_ok=True)
    h = hashlib.sha1(obl_name.encode()).hexdigest()[:8]
    safe = "".join(c if c.isalnum() or c in "._-" else "_" for c in obl_name)[:80]
    path = os.path.join(d, "%s-%s.json" % (safe, h))
    with open(path, "w") as f:
        json.dump(payload, f, indent=1, default=str)
    return os.path.relpath(path, OUT)

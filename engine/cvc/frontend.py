"""CVC front end: clang -ast-dump=json on the REAL file of $VERIF_REPO, every run.

Three build modes (DESIGN 4.1):
  fw       firmware files, parsed for arm-none-eabi with the firmware's own include dirs + /verif/shim/fw
  host     bundled libosmocore sources, parsed for the host
  extract  functions cut verbatim from a file whose includes are not available, behind a prelude from /verif/shim
"""
import os, re, json, subprocess, hashlib

from ..common import core
from ..pyvc.values import Unsupported
from .ctype import TypeTable, ARM, HOST, TRecord, TArray, TInt

SHIM = os.path.join(core.VERIF, "shim")
_RES = None


def resource_dir():
    global _RES
    if _RES is None:
        _RES = subprocess.run(["clang", "-print-resource-dir"], capture_output=True, text=True, check=True).stdout.strip()
    return _RES


def repo(*p):
    return os.path.join(core.REPO, *p)


def l1ctl_include():
    inc = repo("include")
    if not os.path.exists(os.path.join(inc, "l1ctl_proto.h")):
        inc = "/repo/include"       # scratch copies made for negative controls carry src/ only
    return inc


def flags(mode):
    if mode == "fw":
        return ["--target=arm-none-eabi", "-mcpu=arm7tdmi", "-nostdinc", "-ffreestanding",
                "-isystem", os.path.join(resource_dir(), "include"),
                "-I", repo("src/target/firmware/include"), "-I", l1ctl_include(),
                "-I", repo("src/shared/libosmocore/include"), "-I", os.path.join(SHIM, "fw")]
    if mode == "host":
        return ["-I", repo("src/shared/libosmocore/include"), "-I", os.path.join(SHIM, "host", "a", "b")]
    raise ValueError(mode)


class Field:
    def __init__(self, node, tt, index=0):
        # anonymous struct/union members are named by their position ("@3")
        self.node, self.name, self._tt = node, node.get("name") or "@%d" % index, tt
        self.anonymous = not node.get("name")
        self.bitfield = bool(node.get("isBitfield"))
        self._ct = None

    @property
    def ctype(self):
        if self._ct is None:
            self._ct = self._tt.parse(self.node["type"]["qualType"])
        return self._ct


class Record:
    def __init__(self, node, tt):
        self.id, self.tag, self.name = node["id"], node.get("tagUsed", "struct"), node.get("name", "")
        self.fields = [Field(c, tt, i) for i, c in enumerate(x for x in node.get("inner", []) if x.get("kind") == "FieldDecl")]
        self.packed = any(c.get("kind") == "PackedAttr" for c in node.get("inner", []))
        self.node = node

    def field(self, name):
        for f in self.fields:
            if f.name == name:
                return f
        raise Unsupported("no field %s in %s %s" % (name, self.tag, self.name))

    def find(self, name):
        """path of field names reaching `name`, looking through anonymous struct/union members (C11 6.7.2.1p13)"""
        for f in self.fields:
            if f.name == name:
                return [f.name]
        for f in self.fields:
            if f.anonymous:
                from .ctype import TRecord as _TR
                t = f.ctype
                if isinstance(t, _TR):
                    sub = t.rec.find(name)
                    if sub:
                        return [f.name] + sub
        return None


class TU:
    """Indexed translation unit."""

    def __init__(self, ast, target, relfile, mode, cmd, extraction=None, source_text=None):
        self.ast, self.target, self.relfile, self.mode, self.cmd = ast, target, relfile, mode, cmd
        self.extraction = extraction
        self.source_text = source_text      # text given to clang on stdin (extract mode)
        self.tt = TypeTable(target)
        self.functions = {}      # name -> FunctionDecl with body
        self.protos = {}         # name -> any FunctionDecl
        self.decl = {}           # id -> node (VarDecl, FunctionDecl, FieldDecl, EnumConstantDecl, ParmVarDecl)
        self.globals = {}        # name -> VarDecl (file scope)
        self.enumval = {}        # id -> int
        self.field_parent = {}   # FieldDecl id -> Record
        self.field_by_id = {}    # FieldDecl id -> Field
        self.func_ids = {}       # function name -> small positive int (code of a function pointer value)
        self.enum_by_name = {}   # enumerator name -> value
        self._index(ast, top=True)

    def _index(self, node, top=False, parent_rec=None):
        last_anon = None
        for c in node.get("inner", []):
            k = c.get("kind")
            if k is None:
                continue
            if "id" in c and k.endswith("Decl"):
                self.decl[c["id"]] = c
            if k == "TypedefDecl":
                self.tt.typedefs[c["name"]] = c["type"]["qualType"]
                self._index(c)
            elif k == "RecordDecl":
                if c.get("completeDefinition"):
                    r = Record(c, self.tt)
                    if r.name:
                        self.tt.records["%s %s" % (r.tag, r.name)] = r
                    else:
                        last_anon = r
                    for f in r.fields:
                        self.field_parent[f.node["id"]] = r
                        self.field_by_id[f.node["id"]] = f
                    self._index(c, parent_rec=c)
            elif k == "FieldDecl":
                q = c["type"]["qualType"]
                if last_anon is not None and ("(unnamed" in q or "(anonymous" in q):
                    m = re.search(r"\((?:unnamed|anonymous)[^)]* at ([^)]*)\)", q)
                    if m:
                        self.tt.anon[m.group(1)] = last_anon
            elif k == "EnumDecl":
                nxt = 0
                vals = []
                for e in c.get("inner", []):
                    if e.get("kind") != "EnumConstantDecl":
                        continue
                    self.decl[e["id"]] = e
                    v = None
                    exprs = [x for x in e.get("inner", []) if x.get("kind") and not x["kind"].endswith("Comment")
                             and not x["kind"].endswith("Attr")]
                    if exprs:
                        v = const_value(exprs[0], self)
                    elif nxt is not None:
                        v = nxt
                    # v None: value not computable by the front end; any use raises Unsupported (see Engine.ex_DeclRefExpr)
                    self.enumval[e["id"]] = v
                    self.enum_by_name[e.get("name")] = v
                    if v is not None:
                        vals.append(v)
                    nxt = v + 1 if v is not None else None
                if c.get("name"):
                    # value range over-approximated by a 32-bit container (short enums only narrow it)
                    self.tt.enums["enum " + c["name"]] = TInt(32, any(v < 0 for v in vals), "enum " + c["name"], is_enum=True)
            elif k == "FunctionDecl":
                self.protos.setdefault(c["name"], c)
                if c["name"] not in self.func_ids:
                    self.func_ids[c["name"]] = len(self.func_ids) + 1
                if any(x.get("kind") == "CompoundStmt" for x in c.get("inner", [])):
                    self.functions[c["name"]] = c
                    self._index_body(c)
                for x in c.get("inner", []):
                    if x.get("kind") == "ParmVarDecl":
                        self.decl[x["id"]] = x
            elif k == "VarDecl":
                q = c["type"]["qualType"]
                if last_anon is not None and ("(unnamed" in q or "(anonymous" in q):
                    m = re.search(r"\((?:unnamed|anonymous)[^)]* at ([^)]*)\)", q)
                    if m:
                        self.tt.anon[m.group(1)] = last_anon
                if top:
                    # a later definition (with init) wins over an extern declaration
                    old = self.globals.get(c["name"])
                    if old is None or "init" in c or old.get("storageClass") == "extern":
                        self.globals[c["name"]] = c
                self._index_body(c)
            else:
                self._index(c)

    def _index_body(self, node):
        """index declarations nested in function bodies (locals, local records/enums)"""
        stack = list(node.get("inner", []))
        while stack:
            c = stack.pop()
            k = c.get("kind")
            if k is None:
                continue
            if k in ("VarDecl", "ParmVarDecl") and "id" in c:
                self.decl[c["id"]] = c
            if k in ("RecordDecl", "EnumDecl", "TypedefDecl"):
                self._index({"inner": [c]})
                continue
            stack.extend(c.get("inner", []))

    # ------------------------------------------------------------------
    def function(self, name):
        if name not in self.functions:
            raise Unsupported("function %s has no body in %s" % (name, self.relfile))
        return self.functions[name]

    def func_by_decl_id(self, did):
        n = self.decl.get(did)
        return n["name"] if n is not None and n.get("kind") == "FunctionDecl" else None

    def where(self, name):
        f = self.function(name)
        line = f.get("loc", {}).get("line") or f.get("range", {}).get("begin", {}).get("line") or \
            f.get("loc", {}).get("spellingLoc", {}).get("line") or 0
        if self.extraction and name in self.extraction["functions"]:
            line = self.extraction["functions"][name]["first_line"]
        return "%s:%s" % (self.relfile, line)

    def type_of(self, node):
        t = node["type"]
        return self.tt.parse(t.get("desugaredQualType") or t["qualType"]) if _plain(t) else self.tt.parse(t["qualType"])

    def loops_of(self, fname):
        """loop statements of a function in source order -> ordinal (1-based) by node id"""
        f = self.function(fname)
        out = []

        def walk(n):
            k = n.get("kind")
            if k in ("ForStmt", "WhileStmt"):
                out.append(n)
            elif k == "DoStmt" and const_value(n["inner"][1], self) != 0:
                out.append(n)         # `do { ... } while (0)` (statement-macro idiom) is not a loop
            for c in n.get("inner", []):
                walk(c)
        walk(f)
        return {n["id"]: i + 1 for i, n in enumerate(out)}


def _plain(t):
    # desugaredQualType of an anonymous record repeats the location string; both parse the same way
    return "desugaredQualType" in t


def const_value(node, tu=None):
    """integer value of a constant expression node, or None"""
    k = node.get("kind")
    if k == "ConstantExpr" and "value" in node:
        return int(node["value"])
    if k == "IntegerLiteral":
        return int(node["value"])
    if k == "CharacterLiteral":
        return int(node["value"])
    if k in ("ParenExpr", "ImplicitCastExpr", "ConstantExpr", "CStyleCastExpr"):
        return const_value(node["inner"][0], tu)
    if k == "UnaryOperator" and node.get("opcode") in ("-", "+", "~"):
        v = const_value(node["inner"][0], tu)
        if v is None:
            return None
        return {"-": -v, "+": v, "~": ~v}[node["opcode"]]
    if k == "BinaryOperator":
        a, b = const_value(node["inner"][0], tu), const_value(node["inner"][1], tu)
        if a is None or b is None:
            return None
        op = node["opcode"]
        if op == "+":
            return a + b
        if op == "-":
            return a - b
        if op == "*":
            return a * b
        if op == "<<":
            return a << b if 0 <= b < 128 else None
        if op == ">>":
            return a >> b if 0 <= b < 128 else None
        if op == "|":
            return a | b
        if op == "&":
            return a & b
        if op == "^":
            return a ^ b
        return None
    if k == "DeclRefExpr" and tu is not None:
        rid = node.get("referencedDecl", {}).get("id")
        return tu.enumval.get(rid)
    return None


_CACHE = {}


def _run_clang(args, stdin_text=None, cwd=None):
    p = subprocess.run(["clang", "-fsyntax-only", "-Xclang", "-ast-dump=json"] + args, input=stdin_text,
                       capture_output=True, text=True, cwd=cwd)
    if p.returncode != 0:
        raise Unsupported("clang failed on the real source: %s" % (p.stderr.strip()[-1500:],))
    return json.loads(p.stdout), p.stderr


def parse_file(relfile, mode, extra=()):
    """Parse a real file of the repository (no copy).  extra: further clang flags (-D..., -I <repo-relative dir> as ("-I", dir))"""
    key = (core.REPO, relfile, mode, tuple(extra))
    if key in _CACHE:
        return _CACHE[key]
    path = repo(relfile)
    if not os.path.exists(path):
        raise Unsupported("source file %s missing" % path)
    xf = []
    it = iter(extra)
    for f in it:
        if f == "-I":
            xf += ["-I", repo(next(it))]
        else:
            xf.append(f)
    args = flags(mode) + xf + [path]
    ast, _ = _run_clang(args)
    tu = TU(ast, ARM if mode == "fw" else HOST, relfile, mode, "clang -fsyntax-only -Xclang -ast-dump=json " + " ".join(args))
    tu.extra_flags = xf
    _CACHE[key] = tu
    return tu


# ---------------------------------------------------------------------- verbatim extraction

def _scan_top_level(src):
    """yield (pos, char, depth) for code characters outside comments/strings; tracks brace depth"""
    i, n, depth = 0, len(src), 0
    while i < n:
        c = src[i]
        if c == "/" and i + 1 < n and src[i + 1] == "*":
            j = src.find("*/", i + 2)
            i = n if j < 0 else j + 2
            continue
        if c == "/" and i + 1 < n and src[i + 1] == "/":
            j = src.find("\n", i)
            i = n if j < 0 else j
            continue
        if c in "\"'":
            q = c
            i += 1
            while i < n and src[i] != q:
                if src[i] == "\\":
                    i += 1
                i += 1
            i += 1
            continue
        if c == "{":
            yield i, c, depth
            depth += 1
        elif c == "}":
            depth -= 1
            yield i, c, depth
        else:
            yield i, c, depth
        i += 1


def cut_function(src, name):
    """(start, end, first_line) of the definition of `name`: brace matching keyed on `name(`...`) {`."""
    code = list(_scan_top_level(src))
    idx = {p: k for k, (p, c, d) in enumerate(code)}
    for m in re.finditer(r"\b%s\s*\(" % re.escape(name), src):
        p = m.start()
        if p not in idx or code[idx[p]][2] != 0:
            continue
        # the matching ')' of the parameter list
        k = idx[m.end() - 1]
        par = 0
        while k < len(code):
            ch = code[k][1]
            if ch == "(":
                par += 1
            elif ch == ")":
                par -= 1
                if par == 0:
                    break
            k += 1
        k += 1
        while k < len(code) and code[k][1].isspace():
            k += 1
        if k >= len(code) or code[k][1] != "{":
            continue            # a declaration or a call, not the definition
        # matching close brace
        open_depth = code[k][2]
        e = k + 1
        while e < len(code) and not (code[e][1] == "}" and code[e][2] == open_depth):
            e += 1
        if e >= len(code):
            raise Unsupported("unbalanced braces after %s" % name)
        end = code[e][0] + 1
        # start: after the previous top-level ';' or '}' (code chars only), skipping blanks/comments/preprocessor lines
        b = idx[p] - 1
        while b >= 0 and not (code[b][2] == 0 and code[b][1] in ";}"):
            b -= 1
        start = code[b][0] + 1 if b >= 0 else 0
        # skip whitespace, comments and preprocessor lines between
        while True:
            m2 = re.compile(r"\s+|/\*.*?\*/|//[^\n]*|#(?:[^\n\\]|\\\n|\\[^\n])*", re.S).match(src, start)       # a directive with its continuation lines
            if not m2 or m2.end() > p:
                break
            start = m2.end()
        return start, end, src.count("\n", 0, start) + 1
    raise Unsupported("definition of %s not found" % name)


def cut_defines(relfile, regex):
    """the `#define` lines of a real header whose macro name matches regex (verbatim, with continuation lines)"""
    path = repo(relfile)
    if not os.path.exists(path):
        raise Unsupported("header %s missing" % path)
    out = []
    lines = open(path, encoding="utf-8", errors="replace").read().split("\n")
    i = 0
    while i < len(lines):
        m = re.match(r"\s*#\s*define\s+(\w+)", lines[i])
        if m and re.fullmatch(regex, m.group(1)):
            j = i
            while lines[j].rstrip().endswith("\\") and j + 1 < len(lines):
                j += 1
            out.append('#line %d "%s"' % (i + 1, path))
            out.extend(lines[i:j + 1])
            i = j + 1
        else:
            i += 1
    if not out:
        raise Unsupported("no #define matching %s in %s" % (regex, relfile))
    return "\n".join(out) + "\n"


def cut_decl(relfile, what):
    """verbatim cut of a top-level declaration of a real header: what = "struct NAME" | "enum NAME" (the definition with
    its braces, up to the closing `;`), "include" (the whole file) or "define REGEX"."""
    path = repo(relfile)
    if not os.path.exists(path):
        raise Unsupported("header %s missing" % path)
    src = open(path, encoding="utf-8", errors="replace").read()
    if what == "include":
        return '#line 1 "%s"\n%s\n' % (path, src)
    if what.startswith("define "):
        return cut_defines(relfile, what[7:])
    if what.startswith("proto "):
        # a forward declaration `... NAME(...);` at file scope (one statement, verbatim)
        nm = what[6:]
        for m in re.finditer(r"^[A-Za-z_][^;{}()]*\b%s\s*\([^;{}]*\)\s*;" % re.escape(nm), src, re.M):
            line = src.count("\n", 0, m.start()) + 1
            return '#line %d "%s"\n%s\n' % (line, path, m.group(0))
        raise Unsupported("no prototype of %s in %s" % (nm, relfile))
    m = re.search(r"^%s\s*\{" % re.escape(what), src, re.M)
    if not m:
        raise Unsupported("%s not defined in %s" % (what, relfile))
    depth = 0
    for i in range(m.end() - 1, len(src)):
        if src[i] == "{":
            depth += 1
        elif src[i] == "}":
            depth -= 1
            if depth == 0:
                j = src.index(";", i)
                line = src.count("\n", 0, m.start()) + 1
                return '#line %d "%s"\n%s\n' % (line, path, src[m.start():j + 1])
    raise Unsupported("unbalanced braces in %s" % relfile)


def extract_flags(includes=()):
    out = ["-I", repo("src/shared/libosmocore/include"), "-I", os.path.join(SHIM, "host", "a", "b"), "-I", SHIM]
    for d in includes:
        out += ["-I", repo(d)]
    return out


_IDENT = re.compile(r"[A-Za-z_]\w*")


def _strip_comments_strings(text):
    return re.sub(r"/\*.*?\*/|//[^\n]*|\"(?:\\.|[^\"\\])*\"|'(?:\\.|[^'\\])*'", " ", text, flags=re.S)


def file_local_context(src, path, cut_ranges, cut_texts, already, kinds=None):
    """File-local definitions of the SAME source file that the cut functions reference and that the prelude does not provide: object-like and
    function-like `#define`s (directive text verbatim, continuation lines included), `enum {...};` blocks, `static const` objects / tables and
    `typedef`s at file scope.  Transitive (a macro that uses another macro brings it along).  -> (text with #line directives, [names])
    Only what is referenced is taken, so a file whose cut compiled before gets nothing new."""
    ents = []           # (start, end, names, text)
    # --- directives
    for m in re.finditer(r"^[ \t]*#[ \t]*define[ \t]+(\w+)(?:[^\n\\]|\\\n|\\[^\n])*", src, re.M):
        ents.append((m.start(), m.end(), [m.group(1)], m.group(0), "define"))
    # --- file-scope declarations: statements between top-level `;` / `}` that are enum blocks, static const objects or typedefs
    code = list(_scan_top_level(src))
    stmt_start = 0
    k = 0
    n = len(code)
    while k < n:
        pos, ch, depth = code[k]
        if depth == 0 and ch == ";":
            seg = src[stmt_start:pos + 1]
            body = seg.lstrip()
            lead = len(seg) - len(body)
            # skip leading comments / preprocessor lines
            while True:
                mm = re.match(r"\s+|/\*.*?\*/|//[^\n]*|#(?:[^\n\\]|\\\n|\\[^\n])*", body, re.S)
                if not mm:
                    break
                lead += mm.end()
                body = body[mm.end():]
            st = stmt_start + lead
            flat = _strip_comments_strings(body)
            names = []
            kind = None
            if re.match(r"(typedef\s+)?enum\b[^{;]*\{", flat) and not re.match(r"typedef", flat):
                inner = flat[flat.index("{") + 1:flat.rindex("}")] if "}" in flat else ""
                names = [x.split("=")[0].strip() for x in inner.split(",") if x.strip()]
                names = [x for x in names if re.fullmatch(r"\w+", x)]
                tag = re.match(r"enum\s+(\w+)", flat)
                kind = "enum"
            elif re.match(r"static\b", flat) and "(" not in re.split(r"[={]", flat, 1)[0]:
                # a file-scope object: `static const T x[] = {...};`, `static struct {...} stats;`, `static int counter;`
                head = flat
                if "{" in re.split(r"=", flat, 1)[0]:
                    # anonymous / tagged aggregate type written out: the declarator follows the closing brace
                    depth_, end_ = 0, None
                    for q, chq in enumerate(flat):
                        if chq == "{":
                            depth_ += 1
                        elif chq == "}":
                            depth_ -= 1
                            if depth_ == 0:
                                end_ = q
                                break
                    head = flat[end_ + 1:] if end_ is not None else flat
                head = re.sub(r"__attribute__\s*\(\(.*?\)\)", " ", head.split("=")[0])
                mm = re.search(r"(\w+)\s*(?:\[[^\]]*\]\s*)*;?\s*$", head.strip())
                if mm and mm.group(1) not in _CKW:
                    names = [mm.group(1)]
                    kind = "static const" if re.match(r"static\s+const\b", flat) else "static object"
            elif re.match(r"(struct|union)\s+\w+\s*\{", flat):
                # a file-local type definition: `struct hdr {...} __attribute__((packed));`
                names = [re.match(r"(?:struct|union)\s+(\w+)", flat).group(1)]
                kind = "type"
            elif re.match(r"typedef\b", flat) and "(" not in flat:
                mm = re.search(r"(\w+)\s*(?:\[[^\]]*\]\s*)*;\s*$", flat)
                if mm:
                    names = [mm.group(1)]
                    kind = "typedef"
            if kind and names:
                ents.append((st, pos + 1, names, src[st:pos + 1], kind))
            stmt_start = pos + 1
        elif depth == 0 and ch == "}":
            # end of a function body (or of a block that continues to a `;`): a function definition ends here
            if _looks_like_function_end(src, stmt_start, pos):
                # a static function of the file: a helper the cut functions may call (cut along when referenced and not declared by the prelude)
                seg = src[stmt_start:pos + 1]
                body = seg
                lead = 0
                while True:
                    mm = re.match(r"\s+|/\*.*?\*/|//[^\n]*|#(?:[^\n\\]|\\\n|\\[^\n])*", body, re.S)
                    if not mm:
                        break
                    lead += mm.end()
                    body = body[mm.end():]
                flat = re.sub(r"__attribute__\s*\(\((?:[^()]|\([^()]*\))*\)\)", " ", _strip_comments_strings(body))
                mm = re.match(r"static\b[^(){};]*?\b(\w+)\s*\(", flat)
                if mm and mm.group(1) not in _CKW and not mm.group(1).startswith("__"):
                    ents.append((stmt_start + lead, pos + 1, [mm.group(1)], src[stmt_start + lead:pos + 1], "static function"))
                stmt_start = pos + 1
        k += 1
    inside = lambda a, b: any(s0 <= a and b <= e0 for (s0, e0) in cut_ranges)
    ents = [e for e in ents if not inside(e[0], e[1]) and (kinds is None or e[4] in kinds)]
    want = set()
    for t in cut_texts:
        want |= set(_IDENT.findall(_strip_comments_strings(t)))
    chosen = []
    changed = True
    while changed:
        changed = False
        for e in ents:
            if e in chosen:
                continue
            hit = [nm for nm in e[2] if nm in want]
            if not hit:
                continue
            if e[4] == "define":
                if re.search(r"#[ \t]*define[ \t]+%s\b" % re.escape(e[2][0]), already):
                    continue
            elif any(re.search(r"\b%s\b" % re.escape(nm), already) for nm in e[2]):
                continue
            chosen.append(e)
            want |= set(_IDENT.findall(_strip_comments_strings(e[3])))
            changed = True
    chosen.sort(key=lambda e: e[0])
    # a macro defined several times in the file (#ifdef variants): all variants would clash - keep the first textual one
    seen, out, names = set(), [], []
    for e in chosen:
        if e[4] == "define":
            if e[2][0] in seen:
                continue
            seen.add(e[2][0])
        line = src.count("\n", 0, e[0]) + 1
        out.append('#line %d "%s"\n%s\n' % (line, path, e[3]))
        names.append("%s %s" % (e[4], "/".join(e[2][:3]) + ("..." if len(e[2]) > 3 else "")))
    return "".join(out), names


def _looks_like_function_end(src, stmt_start, pos):
    """the `}` at pos closes a brace block that started after a `)`: a function definition"""
    seg = _strip_comments_strings(src[stmt_start:pos])
    i = seg.find("{")
    return i > 0 and seg[:i].rstrip().endswith(")")


def extract_text(relfile, names, prelude_file, defines=(), decls=(), includes=()):
    """Text of the extraction translation unit (prelude + the functions `names` cut verbatim out of the real file, #line directives
    keep the real locations) -> (text, info, cut texts, prelude text).  No clang run: the native harnesses (replay, bounded oracles)
    compile this text themselves.
    defines = [(header relfile, macro-name regex)]: #define lines cut verbatim from real headers, inserted at the
    prelude's /*@CUT-DEFINES@*/ marker; decls likewise at /*@CUT-DECLS@*/."""
    path = repo(relfile)
    if not os.path.exists(path):
        raise Unsupported("source file %s missing" % path)
    src = open(path, encoding="utf-8", errors="replace").read()
    prelude = open(os.path.join(SHIM, prelude_file)).read()
    cut = "".join(cut_defines(h, rx) for h, rx in defines)
    if defines:
        if "/*@CUT-DEFINES@*/" not in prelude:
            raise Unsupported("prelude %s has no /*@CUT-DEFINES@*/ marker" % prelude_file)
        prelude = prelude.replace("/*@CUT-DEFINES@*/", cut + '#line 1 "shim/%s (continued)"\n' % prelude_file)
    if decls:
        if "/*@CUT-DECLS@*/" not in prelude:
            raise Unsupported("prelude %s has no /*@CUT-DECLS@*/ marker" % prelude_file)
        cutd = "".join(cut_decl(h, w) for h, w in decls)
        prelude = prelude.replace("/*@CUT-DECLS@*/", cutd + '#line 1 "shim/%s (continued)"\n' % prelude_file)
    parts = [prelude]
    info = {"file": relfile, "prelude": "shim/" + prelude_file, "prelude_sha256": hashlib.sha256(prelude.encode()).hexdigest(),
            "defines_cut_from": [list(d) for d in defines], "decls_cut_from": [list(d) for d in decls], "functions": {}, "dropped": "logging macro calls (LOGP/printf-like) expand to nothing: their argument "
                                         "expressions are not evaluated; everything else is the unmodified text"}
    texts = {}
    ranges = []
    fparts = []
    for nm in names:
        s, e, line = cut_function(src, nm)
        text = src[s:e]
        texts[nm] = text
        ranges.append((s, e))
        info["functions"][nm] = {"first_line": line, "last_line": line + text.count("\n"),
                                 "sha256": hashlib.sha256(text.encode()).hexdigest(), "bytes": len(text)}
        fparts.append('#line %d "%s"\n%s\n' % (line, path, text))
    # file-local macros / constants / typedefs the cut text refers to (verbatim from the same file), unless the prelude provides them
    ctx, ctx_names = file_local_context(src, path, ranges, list(texts.values()), prelude)
    if ctx:
        parts.append(ctx)
        info["file_local_definitions_cut_along"] = ctx_names
    parts += fparts
    return "\n".join(parts), info, texts, prelude


def parse_extract(relfile, names, prelude_file, defines=(), decls=(), includes=()):
    """Cut `names` (functions) verbatim out of the real file and parse them behind the prelude (see extract_text)."""
    key = (core.REPO, relfile, tuple(names), prelude_file, tuple(defines), tuple(decls), tuple(includes))
    if key in _CACHE:
        return _CACHE[key]
    tu_text, info, texts, prelude = extract_text(relfile, names, prelude_file, defines, decls, includes)
    args = ["-x", "c"] + extract_flags(includes) + ["-"]
    ast, _ = _run_clang(args, stdin_text=tu_text)
    tu = TU(ast, HOST, relfile, "extract", "clang -fsyntax-only -Xclang -ast-dump=json " + " ".join(args) + " < (prelude + verbatim cut)",
            extraction=info, source_text=tu_text)
    tu.cut_texts = texts
    tu.prelude_text = prelude
    tu.includes = tuple(includes)
    _CACHE[key] = tu
    return tu


_CKW = {"sizeof", "int", "unsigned", "signed", "char", "short", "long", "const", "volatile", "struct", "union", "enum"}


def vla_bound(tu, fname, decl):
    """Typed AST of the bound expression of a variable-length array local.

    clang 14's JSON dump gives the bound only inside the type spelling (`uint16_t[len << 3]`).  To still read the
    integer semantics off a clang AST (promotions, conversions), the spelled expression is parsed by clang itself in a
    probe function appended to the same translation unit, whose parameters are the variables the expression names,
    with their declared types.  Returns (expression node, {probe ParmVarDecl id: variable name})."""
    key = (fname, decl["id"])
    cache = tu.__dict__.setdefault("_vla", {})
    if key in cache:
        return cache[key]
    q = decl["type"]["qualType"]
    depth, start, text = 0, None, None
    for i, ch in enumerate(q):
        if ch == "[":
            if depth == 0:
                start = i
            depth += 1
        elif ch == "]":
            depth -= 1
            if depth == 0:
                text = q[start + 1:i]
                break
    if not text or q[i + 1:].strip():
        raise Unsupported("variable-length array type %r (only one variable dimension is supported)" % q)
    names = [n for n in dict.fromkeys(re.findall(r"[A-Za-z_]\w*", text)) if n not in _CKW]
    f = tu.function(fname)
    params = []
    for n in names:
        found = []

        def walk(x):
            if x.get("kind") in ("ParmVarDecl", "VarDecl") and x.get("name") == n:
                found.append(x)
            for c in x.get("inner", []):
                walk(c)
        walk(f)
        if len(found) != 1:
            raise Unsupported("VLA bound %r: %s is not a unique parameter/local of %s" % (text, n, fname))
        params.append("%s %s" % (found[0]["type"]["qualType"], n))
    probe = "__verif_vla_probe_%s_%s" % (fname, decl.get("name", "v"))
    src = "\nstatic void %s(%s) { (void)(%s); }\n" % (probe, ", ".join(params) or "void", text)
    if tu.mode == "extract":
        full = tu.source_text + src
        args = ["-x", "c"] + extract_flags(getattr(tu, "includes", ())) + ["-"]
    else:
        full = '#include "%s"\n%s' % (repo(tu.relfile), src)
        args = flags(tu.mode) + ["-x", "c", "-"]
    p = subprocess.run(["clang", "-fsyntax-only", "-Xclang", "-ast-dump=json", "-Xclang", "-ast-dump-filter=" + probe] + args,
                       input=full, capture_output=True, text=True)
    if p.returncode != 0 or not p.stdout.strip():
        raise Unsupported("clang could not parse the VLA bound %r: %s" % (text, p.stderr[-500:]))
    node = json.JSONDecoder().raw_decode(p.stdout.lstrip())[0]
    pids = {c["id"]: c["name"] for c in node.get("inner", []) if c.get("kind") == "ParmVarDecl"}
    body = [c for c in node["inner"] if c.get("kind") == "CompoundStmt"][0]
    cast = body["inner"][0]
    if cast.get("kind") != "CStyleCastExpr":
        raise Unsupported("VLA probe shape")
    expr = cast["inner"][0]
    cache[key] = (expr, pids, text)
    return cache[key]


def check_layout(tu, items):
    """Ask clang itself to confirm sizeof values the engine computed: items = [(C type expression, size)].
    Raises Unsupported on disagreement (the engine's layout rules would be wrong for this target)."""
    if not items:
        return
    lines = ["_Static_assert(sizeof(%s) == %d, \"cvc layout\");" % (e, n) for e, n in items]
    if tu.mode == "extract":
        text = tu.source_text + "\n" + "\n".join(lines) + "\n"
        args = ["-x", "c"] + extract_flags(getattr(tu, "includes", ())) + ["-"]
    else:
        text = '#include "%s"\n%s\n' % (repo(tu.relfile), "\n".join(lines))
        args = flags(tu.mode) + list(getattr(tu, "extra_flags", [])) + ["-x", "c", "-"]
    p = subprocess.run(["clang", "-fsyntax-only"] + args, input=text, capture_output=True, text=True)
    if p.returncode != 0:
        raise Unsupported("clang disagrees with the engine's record layout: %s" % p.stderr.strip()[-800:])

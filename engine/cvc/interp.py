"""CVC: path-wise symbolic interpreter over clang's JSON AST of the real C functions (DESIGN 4.2).

Paths are explored by re-execution with a decision prefix (same scheme as engine/pyvc/interp.py).
Integer semantics are read off the typed AST (ImplicitCastExpr kinds, computeLHSType, ...).
Undefined behaviour (signed overflow, shift range, division by zero, invalid dereference, non-positive VLA
bound, read of an uninitialised local) is never assumed away: each occurrence is an obligation.
"""
import z3

from ..pyvc.values import Unsupported, Infeasible
from .ctype import TInt, TPtr, TArray, TRecord, TFunc, TVoid
from .values import V, zt, vbool, truth, FnPtr, Block, Ptr, UNINIT, State, leaves, OffsetTok, VaTok
from .frontend import const_value
from . import tables

MAX_UNROLL = 4096
MAX_PATHS = 6000
EXPLORE_S = 300.0          # wall-clock budget of the exploration of one function case


class _Return(Exception):
    def __init__(self, v):
        self.v = v


class _Break(Exception):
    pass


class _Continue(Exception):
    pass


class _Goto(Exception):
    def __init__(self, label):
        self.label = label


class PathCut(Exception):
    """path ends after re-establishing a loop invariant (inductive step done)"""


class Frame:
    def __init__(self, fname):
        self.fname = fname
        self.locals = {}         # decl id -> V | Ptr | FnPtr | UNINIT | Block
        self.names = {}          # name -> decl id (innermost wins; for contracts)


class Path:
    def __init__(self, pc, outcome, obls, state, decisions, cut, extra):
        self.pc, self.outcome, self.obls, self.state, self.decisions, self.cut, self.extra = \
            pc, outcome, obls, state, decisions, cut, extra


class Engine:
    def __init__(self, tu):
        self.tu = tu
        self.tt = tu.tt
        self.solver = z3.Solver()
        self.contracts = {}          # callee name -> callable(E, args, node) -> value      (see contract.py)
        self.inline = set()          # callee names interpreted from their body
        self.externals = {}          # name -> model callable(E, args, node)
        self.loop_specs = {}         # (function, ordinal) -> LoopSpec
        self.trusted_init = set()    # globals whose initialiser is the memory content (never written in the TU)
        self.merge_ifs = set()       # functions in which side-effect-only ifs are merged (ite) instead of forking the path
        self.stats = {"paths": 0, "branches": 0, "solver_checks": 0, "cut_paths": 0}
        self.notes = set()
        self.used_inline = set()
        self.used_contracts = set()
        self.used_externals = set()
        self.layout_checks = {}
        self.feas_timeout = 2000
        self.ent_timeout = 500
        self.vac_timeout = 300       # require(): `does the goal fail on every state of the path` (only decides whether the path is cut)
        self.reset([])

    # ------------------------------------------------------------------ path state
    def reset(self, prefix):
        self.pc = []
        self.pc_syms = []
        symbols_reset()
        self.decisions = list(prefix)
        self.dpos = 0
        self.new_prefixes = []
        self.counter = {}
        self.path_obls = []
        self.state = State()
        self.frames = []
        self.nblocks = 0
        self.globals = {}            # name -> Block
        self.wguards = []            # active loop frames: (allowed keys set, first block id created inside)
        self.extra = {}
        self._assumed = set()
        self._strings = {}
        self.universals = []         # closures term -> Bool: universally quantified facts assumed on this path
        self.inst_terms = []         # terms at which every universal is instantiated
        self.last_frame_locals = None

    def fresh(self, base):
        n = self.counter.get(base, 0)
        self.counter[base] = n + 1
        return "%s!%d" % (base, n)

    def fresh_int(self, base, ctype=None):
        t = z3.Int(self.fresh(base))
        if ctype is not None and isinstance(ctype, TInt):
            self.assume(z3.And(t >= ctype.lo, t <= ctype.hi))
            return V(t, ctype.lo, ctype.hi)
        return V(t, None, None)

    def assume(self, cond):
        if isinstance(cond, bool):
            if not cond:
                raise Infeasible()
            return
        k = cond.get_id()
        if k in self._assumed:
            return
        self._assumed.add(k)
        self.pc.append(cond)
        self.pc_syms.append(symbols_of(cond))

    def slice_for(self, cond):
        """the assumptions transitively sharing a symbol with cond (independence slicing: a subset of the path
        condition; unsat of the subset implies unsat of the whole, sat of the subset is taken as `may be sat`)"""
        want = set(symbols_of(cond))
        chosen = [False] * len(self.pc)
        changed = True
        while changed:
            changed = False
            for i, sy in enumerate(self.pc_syms):
                if not chosen[i] and (not sy.isdisjoint(want)):
                    chosen[i] = True
                    if not sy <= want:
                        want |= sy
                        changed = True
        return [a for a, c in zip(self.pc, chosen) if c]

    def check(self, cond, timeout=None):
        self.stats["solver_checks"] += 1
        s = self.solver
        s.reset()
        s.set("timeout", timeout or self.feas_timeout)
        for a in self.slice_for(cond):
            s.add(a)
        s.add(cond)
        return s.check()

    def feasible(self, cond):
        return self.check(cond) != z3.unsat

    def entails(self, cond):
        if isinstance(cond, bool):
            return cond
        c = z3.simplify(cond)
        if z3.is_true(c):
            return True
        if z3.is_false(c):
            return False
        return self.check(z3.Not(c), self.ent_timeout) == z3.unsat

    def branch(self, cond):
        if isinstance(cond, bool):
            return cond
        cond = z3.simplify(cond)
        if z3.is_true(cond):
            return True
        if z3.is_false(cond):
            return False
        self.stats["branches"] += 1
        if self.dpos < len(self.decisions):
            d = self.decisions[self.dpos]
            self.dpos += 1
        else:
            ft = self.feasible(cond)
            ff = self.feasible(z3.Not(cond))
            if ft and ff:
                self.new_prefixes.append(self.decisions + [False])
                d = True
            elif ft:
                d = True
            elif ff:
                d = False
            else:
                raise Infeasible()
            self.decisions.append(d)
            self.dpos += 1
        self.assume(cond if d else z3.Not(cond))
        return d

    def instantiate(self, term, sort=None):
        """instantiate every universally quantified fact assumed on this path (of that sort) at `term`, now and for later ones"""
        term = z3.IntVal(term) if isinstance(term, int) else term
        if any(term.eq(x) and xs == sort for xs, x in self.inst_terms):
            return
        self.inst_terms.append((sort, term))
        for (us, u) in list(self.universals):
            if sort is None or us is None or us == sort:
                self.assume(u(term))

    def add_universal(self, fn, sort=None):
        self.universals.append((sort, fn))
        for (ts, t) in list(self.inst_terms):
            if sort is None or ts is None or ts == sort:
                self.assume(fn(t))

    def require(self, kind, clause, goal, node=None, **meta):
        """Obligation raised inside a path; afterwards the path continues under the assumption that it holds."""
        if isinstance(goal, bool):
            goal = z3.BoolVal(goal)
        g = z3.simplify(goal)
        if z3.is_true(g):
            self.extra["trivial_side_conditions"] = self.extra.get("trivial_side_conditions", 0) + 1
            return
        meta = dict(meta)
        meta["kind"] = kind
        meta["where"] = self.where(node)
        meta["func"] = self.frames[-1].fname if self.frames else meta.get("func", "")
        self.path_obls.append((clause, list(self.pc), goal, meta))
        if z3.is_false(g):
            raise PathCut()          # definite failure: recorded; nothing beyond it is meaningful
        if self.check(goal, self.vac_timeout) == z3.unsat:
            # the obligation fails on every state of this path: the continuation would be vacuous.  `unknown` (short time limit: this query
            # is sat on every healthy path and its cost is heavy-tailed) continues; the obligation itself is recorded above either way
            raise PathCut()
        self.assume(goal)

    def where(self, node):
        if node is None:
            return ""
        for key in ("loc", "range"):
            d = node.get(key, {})
            d = d.get("begin", d)
            for dd in (d.get("expansionLoc", {}), d.get("spellingLoc", {}), d):
                if "line" in dd:
                    return "line %s" % dd["line"]
        return ""

    # ------------------------------------------------------------------ exploration
    def explore(self, run):
        """all paths of one function (one contract case) by re-execution.  Bounded twice: MAX_PATHS paths and EXPLORE_S seconds of wall
        clock (VERIF_EXPLORE_S, default 300): a code shape whose exploration does not finish (typically a loop that lost its
        invariant to a refactoring and is unrolled inside another loop's body) is `Unsupported` - the driver records the section as out
        of reach (contract.sect) - and can never hang a check."""
        import time, os
        budget = float(os.environ.get("VERIF_EXPLORE_S") or 0) or EXPLORE_S
        t_end = time.time() + budget
        work = [[]]
        paths = []
        while work:
            if time.time() > t_end:
                raise Unsupported("exploration budget exhausted (%d paths explored, %d more pending after %.0f s)"
                                  % (len(paths), len(work), budget))
            prefix = work.pop()
            self.reset(prefix)
            cut = False
            try:
                try:
                    outcome = run(self)
                except PathCut:
                    outcome = None
                    cut = True
                    self.stats["cut_paths"] += 1
            except Infeasible:
                work.extend(self.new_prefixes)
                continue
            work.extend(self.new_prefixes)
            self.stats["paths"] += 1
            paths.append(Path(list(self.pc), outcome, list(self.path_obls), self.state, list(self.decisions), cut,
                              dict(self.extra)))
            if len(paths) > MAX_PATHS:
                raise Unsupported("path explosion (> %d paths)" % MAX_PATHS)
        return paths

    # ------------------------------------------------------------------ blocks and memory
    def new_block(self, name, elem, count, kind, single=False, const=False):
        self.nblocks += 1
        b = Block(self.nblocks, name, elem, count, kind, single=single, const=const)
        self.state.blocks[b.id] = b
        return b

    def global_block(self, name):
        if name in self.globals:
            return self.globals[name]
        node = self.tu.globals.get(name)
        if node is None:
            raise Unsupported("global %s not declared at file scope" % name)
        ct = self.tt.parse(node["type"]["qualType"])
        const = "const" in node["type"]["qualType"].split("*")[0].split()
        if isinstance(ct, TArray):
            if ct.n is None:
                raise Unsupported("global array %s without bound" % name)
            b = self.new_block(name, ct.elem, ct.n, "global", single=False, const=const)
        else:
            b = self.new_block(name, ct, 1, "global", single=True, const=const)
        if (const or name in self.trusted_init) and "init" in node:
            init = [c for c in node.get("inner", []) if c.get("kind") not in (None,) and not c["kind"].endswith("Attr")
                    and not c["kind"].endswith("Comment")]
            if init:
                b.init = self.const_init(init[-1], ct)
        self.globals[name] = b
        return b

    def const_init(self, node, ct):
        """{shape: [values by linear index]} for a constant initialiser (semantic InitListExpr)"""
        out = {}

        def fill(n, t, shape, base, stride_stack):
            if isinstance(t, TArray):
                items = n.get("inner", []) if n.get("kind") == "InitListExpr" else None
                if items is None:
                    raise Unsupported("array initialiser %s" % n.get("kind"))
                filler = [c for c in n.get("array_filler", [])]
                if filler and not items:
                    # clang's form for partially initialised arrays: array_filler = [filler, e0, e1, ...]
                    items, filler = filler[1:], filler[:1]
                k = 0
                for it in items:
                    if it.get("kind") == "ImplicitValueInitExpr" and False:
                        continue
                    fill(it, t.elem, shape + ("[]",), base * t.n + k, None)
                    k += 1
                if k < t.n:
                    if filler and not all(f.get("kind") == "ImplicitValueInitExpr" for f in filler if f.get("kind")):
                        raise Unsupported("array filler")
                    for kk in range(k, t.n):
                        zero(t.elem, shape + ("[]",), base * t.n + kk)
            elif isinstance(t, TRecord):
                items = n.get("inner", []) if n.get("kind") == "InitListExpr" else None
                if items is None:
                    raise Unsupported("record initialiser %s" % n.get("kind"))
                for f, it in zip(t.rec.fields, items):
                    fill(it, f.ctype, shape + (f.name,), base, None)
            else:
                if n.get("kind") == "ImplicitValueInitExpr":
                    v = 0
                else:
                    v = const_value(n, self.tu)
                    if v is None:
                        fn = self._const_fnptr(n)
                        if fn is None:
                            raise Unsupported("non-constant initialiser")
                        v = fn
                out.setdefault(shape, {})[base] = v

        def zero(t, shape, base):
            if isinstance(t, TArray):
                for kk in range(t.n):
                    zero(t.elem, shape + ("[]",), base * t.n + kk)
            elif isinstance(t, TRecord):
                for f in t.rec.fields:
                    zero(f.ctype, shape + (f.name,), base)
            else:
                out.setdefault(shape, {})[base] = 0
        if isinstance(ct, TArray):
            fill(node, ct, (), 0, None)
        else:
            fill(node, ct, ("[]",), 0, None)
        return out

    def _const_fnptr(self, n):
        k = n.get("kind")
        if k in ("ImplicitCastExpr", "ParenExpr", "CStyleCastExpr"):
            if n.get("castKind") == "NullToPointer":
                return 0
            return self._const_fnptr(n["inner"][0])
        if k == "UnaryOperator" and n.get("opcode") == "&":
            return self._const_fnptr(n["inner"][0])
        if k == "DeclRefExpr" and n["referencedDecl"]["kind"] == "FunctionDecl":
            return self.tu.func_ids[n["referencedDecl"]["name"]]
        return None

    def walk(self, ptr):
        """[(index V, dim V)], leaf/sub-object type reached by ptr.steps"""
        b = ptr.block
        t = TArray(b.elem, None)
        idx = []
        first = True
        for k, v in ptr.steps:
            if k == "i":
                if isinstance(t, TArray):
                    dim = b.count if first else (V(t.n) if t.n is not None else None)
                    idx.append((v, dim))
                    t = t.elem
                else:
                    # p[k] on a pointer to a non-array sub-object: only k == 0 is inside the object
                    idx.append((v, V(1)))
                    idx[-1] = (v, V(1), "scalar")
            else:
                if not isinstance(t, TRecord):
                    raise Unsupported("member %s of non-record %r" % (v, t))
                t = t.rec.field(v).ctype
            first = False
        return idx, t

    def check_access(self, ptr, node, what):
        if ptr.block is None:
            self.require("mem", "%s.non_null" % what, False, node)
        if not isinstance(ptr.null, bool) or ptr.null:
            self.require("mem", "%s.non_null" % what, z3.Not(ptr.null) if not isinstance(ptr.null, bool) else (not ptr.null), node)
        if ptr.block.kind == "unknown":
            self.require("mem", "%s.pointer_target_known_valid" % what, False, node)
        if not ptr.block.live:
            self.require("mem", "%s.live" % what, False, node)
        idx, t = self.walk(ptr)
        lin = None
        for ent in idx:
            i, dim = ent[0], ent[1]
            if dim is None:
                raise Unsupported("index into array without bound")
            ok = self._in_bounds(i, dim)
            self.require("mem", "%s.in_bounds" % what, ok, node)
            if len(ent) == 3:
                continue
            if lin is None:
                lin = i
            else:
                lin = self.arith("+", self.arith("*", lin, dim, None), i, None)
        return lin, t

    def _in_bounds(self, i, dim):
        if i.concrete and dim.concrete:
            return 0 <= i.t < dim.t
        if i.lo is not None and i.lo >= 0 and dim.concrete and i.hi is not None and i.hi < dim.t:
            return True
        return z3.And(zt(i) >= 0, zt(i) < zt(dim))

    def cell_key(self, ptr):
        return (ptr.block.id, tuple(s for s in ptr.shape() if True))

    def is_scalar_cell(self, block, shape):
        return block.single and shape.count("[]") == 1

    def initial_cell(self, block, shape, scalar):
        if getattr(block, "zeroed", False):
            return z3.IntVal(0) if scalar else z3.K(z3.IntSort(), z3.IntVal(0))
        nm = "m!%s!%s" % (block.name, ".".join(shape[1:]) if len(shape) > 1 else "")
        if scalar:
            return z3.Int(nm)
        return z3.Array(nm, z3.IntSort(), z3.IntSort())

    def get_cell(self, state, block, shape):
        key = (block.id, shape)
        c = state.mem.get(key)
        if c is None:
            c = self.initial_cell(block, shape, self.is_scalar_cell(block, shape))
        return c

    def leaf_range(self, t):
        if isinstance(t, TInt):
            return t.lo, t.hi
        if isinstance(t, TPtr) and isinstance(t.to, TFunc):
            return 0, None
        return None, None

    def load(self, ptr, node=None):
        lin, t = self.check_access(ptr, node, "load")
        if isinstance(t, (TRecord, TArray)):
            raise Unsupported("load of aggregate %r" % (t,))
        shape = ptr.shape()
        b = ptr.block
        key = (b.id, shape)
        if isinstance(t, TPtr) and not isinstance(t.to, TFunc):
            if not self.is_scalar_cell(b, shape):
                raise Unsupported("load of a data pointer from an array cell (%r)" % (ptr,))
            v = self.state.pmem.get(key)
            if v is None:
                if getattr(b, "zeroed", False):
                    v = Ptr.NULL(t.to)
                else:
                    v = self.unknown_ptr(t.to, "%s%s" % (b.name, "".join("." + x for x in shape[1:])))
                self.state.pmem[key] = v
            return v
        lo, hi = self.leaf_range(t)
        if key not in self.state.mem and b.init is not None and shape in b.init:
            tab = b.init[shape]
            n = max(tab) + 1
            vals = [tab.get(k, 0) for k in range(n)]
            if lin.concrete:
                r = V(vals[lin.t])
            else:
                term = tables.select(vals, zt(lin), self.assume)
                r = V(term, min(vals), max(vals))
        else:
            if key not in self.state.mem and b.kind in ("local", "vla") and not getattr(b, "initialised", False):
                if b.single and isinstance(b.elem, TInt):
                    # an address-taken scalar local that nothing has written yet
                    self.require("ub", "read_of_uninitialised_local(%s)" % b.name, False, node)
                # reading a local aggregate element never written: indeterminate value of the leaf type
                self.notes.add("uninitialised local array/struct elements read as arbitrary values of their type")
            c = self.get_cell(self.state, b, shape)
            if self.is_scalar_cell(b, shape):
                term = c
            else:
                term = z3.simplify(z3.Select(c, zt(lin)))
            if z3.is_int_value(term):
                r = V(term.as_long())
            else:
                if lo is not None:
                    self.assume(term >= lo)
                if hi is not None:
                    self.assume(term <= hi)
                r = V(term, lo, hi)
        if isinstance(t, TPtr):
            return FnPtr(r)
        return self.from_raw(r, t, ptr.view)

    @staticmethod
    def _byte_view(t, view):
        return isinstance(view, TInt) and isinstance(t, TInt) and view.bits == 8 and t.bits == 8 and view.signed != t.signed \
            and not view.is_bool and not t.is_bool

    def from_raw(self, r, t, view):
        """value seen through an 8-bit view of the other signedness (same byte, reinterpreted)"""
        if not self._byte_view(t, view):
            return r
        if r.concrete:
            x = r.t & 0xff
            return V(x - 256 if view.signed and x >= 128 else x)
        if view.signed:
            return V(z3.If(r.t >= 128, r.t - 256, r.t), -128, 127)
        return V(z3.If(r.t < 0, r.t + 256, r.t), 0, 255)

    def to_raw(self, v, t, view):
        if not self._byte_view(t, view):
            return v
        if v.concrete:
            x = v.t & 0xff
            return V(x - 256 if t.signed and x >= 128 else x)
        if t.signed:
            return V(z3.If(zt(v) >= 128, zt(v) - 256, zt(v)), -128, 127)
        return V(z3.If(zt(v) < 0, zt(v) + 256, zt(v)), 0, 255)

    def unknown_ptr(self, pointee, name):
        """a pointer about which nothing is known: any dereference is a failed obligation"""
        blk = self.new_block("unknown(%s)" % name, pointee if not isinstance(pointee, TVoid) else TInt(8, False, "byte"), 0, "unknown")
        return Ptr(blk, (("i", V(0)),), pointee, z3.Bool(self.fresh("isnull!%s" % name)))

    def store(self, ptr, val, node=None):
        lin, t = self.check_access(ptr, node, "store")
        if ptr.block.const:
            self.require("mem", "store.to_const_object", False, node)
        if isinstance(t, (TRecord, TArray)):
            raise Unsupported("store of aggregate %r" % (t,))
        if isinstance(val, FnPtr):
            val = val.code
        shape = ptr.shape()
        b = ptr.block
        if isinstance(val, Ptr):
            if not (isinstance(t, TPtr) and self.is_scalar_cell(b, shape)):
                raise Unsupported("store of a data pointer into an array cell / non-pointer member")
            self.guard_write(b, shape, node)
            self.havoc_union_siblings(ptr)
            self.state.pmem[(b.id, shape)] = val
            self.state.written.add((b.id, shape))
            return
        if val is UNINIT:
            raise Unsupported("store of an uninitialised value")
        val = self.to_raw(val, t, ptr.view)
        self.guard_write(b, shape, node)
        self.havoc_union_siblings(ptr)
        if isinstance(t, TInt) and t.bits == 8 and val.concrete and val.t == 0 and lin is not None:
            nul = dict(self.state.ghost.get("nul", {}))
            nul[(b.id, shape)] = nul.get((b.id, shape), []) + [zt(lin)]
            self.state.ghost["nul"] = nul
        c = self.get_cell(self.state, b, shape)
        if self.is_scalar_cell(b, shape):
            self.state.mem[(b.id, shape)] = zt(val)
        else:
            self.state.mem[(b.id, shape)] = z3.Store(c, zt(lin), zt(val))
        self.state.written.add((b.id, shape))

    def havoc_union_siblings(self, ptr):
        """a store to one member of a union makes the other members' content indeterminate"""
        t = TArray(ptr.block.elem, None)
        steps = []
        for k, v in ptr.steps:
            if k == "i":
                t = t.elem if isinstance(t, TArray) else t
            else:
                if isinstance(t, TRecord) and t.rec.tag == "union":
                    base = Ptr(ptr.block, tuple(steps), t)
                    for f in t.rec.fields:
                        if f.name == v:
                            continue
                        for sh, dims, lt in leaves(f.ctype):
                            st = list(steps) + [("f", f.name)] + [("i", V(0)) if x == "[]" else ("f", x) for x in sh]
                            q = Ptr(ptr.block, tuple(st), lt)
                            key = (ptr.block.id, q.shape())
                            if isinstance(lt, TPtr) and not isinstance(lt.to, TFunc):
                                self.state.pmem.pop(key, None)
                            else:
                                self.state.mem[key] = self._fresh_cell(ptr.block, q.shape())
                t = t.rec.field(v).ctype
            steps.append((k, v))

    def _fresh_cell(self, block, shape):
        nm = self.fresh("u!%s!%s" % (block.name, ".".join(shape[1:])))
        return z3.Int(nm) if self.is_scalar_cell(block, shape) else z3.Array(nm, z3.IntSort(), z3.IntSort())

    def guard_write(self, block, shape, node=None):
        for allowed, first_new, desc in self.wguards:
            if block.id >= first_new:
                continue
            if (block.id, shape) not in allowed:
                raise Unsupported("%s writes %s%s which its `assigns` clause does not list (%s)"
                                  % (desc, block.name, "." + ".".join(shape[1:]) if len(shape) > 1 else "", self.where(node)))

    def havoc_cell(self, block, shape, lin=None, count=None, ltype=None):
        """forget the content of a cell; with lin: only that element (Store of a fresh value)"""
        self.guard_write(block, shape)
        key = (block.id, shape)
        if isinstance(ltype, TPtr) and not isinstance(ltype.to, TFunc):
            self.state.pmem[key] = self.unknown_ptr(ltype.to, "havoc.%s%s" % (block.name, "".join("." + x for x in shape[1:])))
            self.state.written.add(key)
            return None
        v = self.state.ver.get(key, 0) + 1
        self.state.ver[key] = v
        nm = "h%d!%s!%s" % (v, block.name, ".".join(shape[1:]))
        nm = self.fresh(nm)
        self.state.written.add(key)
        if self.is_scalar_cell(block, shape):
            self.state.mem[key] = z3.Int(nm)
            return self.state.mem[key]
        old = self.get_cell(self.state, block, shape)
        if lin is not None and (count is None or (isinstance(count, int) and count <= 16)):
            arr = old
            for k in range(count or 1):
                arr = z3.Store(arr, zt(lin) + k if k else zt(lin), z3.Int("%s@%d" % (nm, k)))
            self.state.mem[key] = arr
            return arr
        new = z3.Array(nm, z3.IntSort(), z3.IntSort())
        if lin is not None:
            j = z3.Int(nm + "!j")
            self.assume(z3.ForAll([j], z3.Implies(z3.Or(j < zt(lin), j >= zt(lin) + zt(count)),
                                                  z3.Select(new, j) == z3.Select(old, j))))
        self.state.mem[key] = new
        return new

    # ------------------------------------------------------------------ integer semantics
    def conv(self, v, t, node=None, explicit=False):
        """conversion of an integer value to integer type t (C11 6.3.1.3)"""
        if not isinstance(t, TInt):
            raise Unsupported("integer conversion to %r" % (t,))
        if t.is_bool:
            return vbool(truth(v))
        if v.concrete:
            x = v.t
            if t.lo <= x <= t.hi:
                return v
            m = 1 << t.bits
            x %= m
            if t.signed and x >= m // 2:
                x -= m
                self.notes.add("out-of-range conversion to a signed type wraps (implementation-defined; gcc/clang)")
            return V(x)
        if v.lo is not None and v.hi is not None and v.lo >= t.lo and v.hi <= t.hi:
            return v
        tz = v.tz if v.tz <= t.bits else t.bits        # wrapping changes the value by a multiple of 2^bits
        if self.entails(z3.And(v.t >= t.lo, v.t <= t.hi)):
            return V(v.t, max(t.lo, v.lo) if v.lo is not None else t.lo, min(t.hi, v.hi) if v.hi is not None else t.hi, tz=v.tz)
        m = 1 << t.bits
        if not t.signed:
            # one-sided cases keep the term small
            if v.lo is not None and v.lo >= 0 and v.hi is not None and v.hi < 2 * m:
                return V(z3.If(v.t >= m, v.t - m, v.t), 0, t.hi, tz=tz)
            if v.hi is not None and v.hi <= t.hi and v.lo is not None and v.lo >= -m:
                return V(z3.If(v.t < 0, v.t + m, v.t), 0, t.hi, tz=tz)
            return V(v.t % m, 0, t.hi, tz=tz)
        self.notes.add("out-of-range conversion to a signed type wraps (implementation-defined; gcc/clang)")
        if v.lo is not None and v.lo >= 0 and v.hi is not None and v.hi < m:
            return V(z3.If(v.t >= m // 2, v.t - m, v.t), t.lo, t.hi, tz=tz)
        return V((v.t + m // 2) % m - m // 2, t.lo, t.hi, tz=tz)

    @staticmethod
    def _iv(op, a, b):
        if None in (a.lo, a.hi, b.lo, b.hi):
            return None, None
        if op == "+":
            return a.lo + b.lo, a.hi + b.hi
        if op == "-":
            return a.lo - b.hi, a.hi - b.lo
        if op == "*":
            c = [a.lo * b.lo, a.lo * b.hi, a.hi * b.lo, a.hi * b.hi]
            return min(c), max(c)
        return None, None

    def arith(self, op, a, b, t, node=None):
        """a op b in integer type t (operands already converted); t None = mathematical (engine-internal)"""
        if op in ("+", "-", "*"):
            if a.concrete and b.concrete:
                r = V({"+": a.t + b.t, "-": a.t - b.t, "*": a.t * b.t}[op])
            else:
                lo, hi = self._iv(op, a, b)
                if op == "*" and (a.concrete or b.concrete):
                    term = zt(a) * zt(b)
                elif op == "*":
                    term = zt(a) * zt(b)
                    self.extra["nonlinear"] = True
                else:
                    term = zt(a) + zt(b) if op == "+" else zt(a) - zt(b)
                if op == "+" and b.concrete and b.t == 0:
                    term = zt(a)
                if op == "+" and a.concrete and a.t == 0:
                    term = zt(b)
                if op == "*" and ((a.concrete and a.t == 0) or (b.concrete and b.t == 0)):
                    return V(0)
                if op == "*" and b.concrete and b.t == 1:
                    term = zt(a)
                r = V(term, lo, hi, tz=(min(a.tz, b.tz) if op in "+-" else min(a.tz + b.tz, 64)))
            if t is None:
                return r
            if t.signed:
                if not (r.lo is not None and r.hi is not None and r.lo >= t.lo and r.hi <= t.hi):
                    self.require("ub", "signed_overflow(%s)" % op, z3.And(zt(r) >= t.lo, zt(r) <= t.hi), node)
                    r = V(r.t, max(r.lo, t.lo) if r.lo is not None else t.lo, min(r.hi, t.hi) if r.hi is not None else t.hi, tz=r.tz)
                return r
            return self.conv(r, t, node)
        if op in ("/", "%"):
            if b.concrete:
                if b.t == 0:
                    self.require("ub", "division_by_zero", False, node)
            elif not ((b.lo is not None and b.lo > 0) or (b.hi is not None and b.hi < 0)):
                self.require("ub", "division_by_zero", zt(b) != 0, node)
            if t is not None and t.signed and not (a.lo is not None and a.lo > t.lo) and not (b.lo is not None and b.lo > -1):
                self.require("ub", "division_overflow", z3.Not(z3.And(zt(a) == t.lo, zt(b) == -1)), node)
            if a.concrete and b.concrete:
                q = abs(a.t) // abs(b.t)
                if (a.t < 0) != (b.t < 0):
                    q = -q
                return V(q if op == "/" else a.t - b.t * q)
            a_nn = (a.lo is not None and a.lo >= 0) or self.entails(zt(a) >= 0)
            b_pos = (b.lo is not None and b.lo > 0) or self.entails(zt(b) > 0)
            if a_nn and b_pos:
                if op == "/":
                    lo = hi = None
                    if a.hi is not None and b.lo is not None:
                        lo, hi = 0, a.hi // max(b.lo, 1)
                    return V(zt(a) / zt(b), lo if lo is not None else 0, hi)
                hi = None
                if b.hi is not None:
                    hi = b.hi - 1
                    if a.hi is not None:
                        hi = min(hi, a.hi)
                return V(zt(a) % zt(b), 0, hi)
            za, zb = zt(a), zt(b)
            absb = z3.If(zb < 0, -zb, zb)
            qabs = z3.If(za < 0, -za, za) / absb
            q = z3.If((za < 0) != (zb < 0), -qabs, qabs)
            if op == "/":
                return V(q, None, None) if t is None else V(q, t.lo, t.hi)
            r = za - zb * q
            return V(r, None, None) if t is None else V(r, t.lo, t.hi)
        if op in ("<<", ">>"):
            return self.shift(op, a, b, t, node)
        if op in ("&", "|", "^"):
            return self.bitop(op, a, b, t, node)
        raise Unsupported("arithmetic operator %s" % op)

    def shift(self, op, a, b, t, node):
        bits = t.bits if t is not None else 64
        if b.concrete:
            if not (0 <= b.t < bits):
                self.require("ub", "shift_count_in_range", False, node)
        elif not (b.lo is not None and b.lo >= 0 and b.hi is not None and b.hi < bits):
            self.require("ub", "shift_count_in_range", z3.And(zt(b) >= 0, zt(b) < bits), node)
            b = V(b.t, max(b.lo or 0, 0), min(b.hi if b.hi is not None else bits - 1, bits - 1))
        if b.concrete:
            p = V(1 << b.t)
        else:
            term = z3.IntVal(1 << b.hi)
            for k in range(b.hi - 1, b.lo - 1, -1):
                term = z3.If(zt(b) == k, z3.IntVal(1 << k), term)
            p = V(term, 1 << b.lo, 1 << b.hi)
        if op == "<<":
            if t is not None and t.signed:
                if not (a.lo is not None and a.lo >= 0):
                    self.require("ub", "shift_of_negative_value", zt(a) >= 0, node)
                    a = V(a.t, 0, a.hi)
                r = self.arith("*", a, p, None)
                if not (r.hi is not None and r.hi <= t.hi):
                    self.require("ub", "signed_overflow(<<)", zt(r) <= t.hi, node)
                    r = V(r.t, r.lo, t.hi if r.hi is None else min(r.hi, t.hi), tz=r.tz)
                if a.concrete and a.t == 1 and not b.concrete:
                    r = V(r.t, r.lo, r.hi, p2=b, tz=r.tz)
                return r
            r = self.arith("*", a, p, None)
            return self.conv(r, t, node) if t is not None else r
        # >> : floor division (arithmetic shift for negative signed values: implementation-defined, gcc/clang)
        if a.concrete and p.concrete:
            return V(a.t >> b.t)
        if not (a.lo is not None and a.lo >= 0):
            self.notes.add(">> of a negative value is an arithmetic shift (implementation-defined; gcc/clang)")
        lo = None if a.lo is None or p.hi is None else (a.lo // p.lo if a.lo < 0 else a.lo // p.hi)
        hi = None if a.hi is None or p.lo is None else (a.hi // p.lo if a.hi >= 0 else a.hi // p.hi)
        return V(zt(a) / zt(p), lo, hi)

    # bit operations on the Int encoding: bit i of x is (x div 2^i) mod 2 (two's complement, floor semantics)
    @staticmethod
    def and_const(x, c):
        """x & c for concrete c >= 0 (any integer x)"""
        if c == 0:
            return z3.IntVal(0)
        terms = []
        s = 0
        while c >> s:
            if (c >> s) & 1:
                m = 0
                while (c >> (s + m)) & 1:
                    m += 1
                tt = x if s == 0 else x / z3.IntVal(1 << s)
                tt = tt % z3.IntVal(1 << m)
                terms.append(tt if s == 0 else tt * z3.IntVal(1 << s))
                s += m
            else:
                s += 1
        return z3.Sum(terms) if len(terms) > 1 else terms[0]

    def width_of(self, v):
        """smallest w with 0 <= v < 2^w that the interval or the path condition establishes"""
        if v.concrete:
            return max(v.t.bit_length(), 1) if v.t >= 0 else None
        w = None
        if v.lo is not None and v.lo >= 0 and v.hi is not None:
            w = max(v.hi.bit_length(), 1)
        elif not self.entails(zt(v) >= 0):
            return None
        if w is None:
            for k in (8, 16, 32, 64):
                if self.entails(zt(v) < (1 << k)):
                    w = k
                    break
            if w is None:
                return None
        return w

    def bitop(self, op, a, b, t, node):
        if a.concrete and b.concrete:
            return V({"&": a.t & b.t, "|": a.t | b.t, "^": a.t ^ b.t}[op])
        if op in ("|", "^"):
            # x has its low k bits clear and 0 <= y < 2^k: the bits are disjoint, x | y = x ^ y = x + y (two's complement)
            for x, y in ((a, b), (b, a)):
                if x.tz > 0 and y.lo is not None and y.lo >= 0 and y.hi is not None and y.hi < (1 << min(x.tz, 62)):
                    lo = None if x.lo is None else x.lo + y.lo
                    hi = None if x.hi is None else x.hi + y.hi
                    return V(zt(x) + zt(y), lo, hi, tz=min(x.tz, y.tz))
        if a.concrete:
            a, b = b, a
        if b.concrete:
            c = b.t
            if op == "&":
                if c >= 0:
                    lo, hi = 0, c
                    if a.lo is not None and a.lo >= 0 and a.hi is not None:
                        hi = min(hi, a.hi)
                        if a.hi <= c and (c & (c + 1)) == 0:
                            return a                       # mask covers the whole range
                    return V(self.and_const(zt(a), c), lo, hi)
                # x & ~k  ==  x - (x & k)
                k = ~c
                r = zt(a) - self.and_const(zt(a), k)
                lo, hi = (0, a.hi) if (a.lo is not None and a.lo >= 0) else (t.lo if t else None, t.hi if t else None)
                return V(r, lo, hi)
            if c >= 0:
                x_and = self.and_const(zt(a), c)
                if op == "|":
                    r = zt(a) + c - x_and
                else:
                    r = zt(a) + c - 2 * x_and
                if a.lo is not None and a.lo >= 0 and a.hi is not None:
                    w = max(a.hi.bit_length(), c.bit_length())
                    return V(r, 0 if op == "^" else c, (1 << w) - 1)
                return V(r, t.lo if t else None, t.hi if t else None)
            raise Unsupported("%s with a negative constant" % op)
        if op == "&" and (a.p2 is not None or b.p2 is not None):
            # x & 2^c  =  (bit c of x) * 2^c ; the bit test is an if-chain over the (bounded) shift count
            x, p = (b, a) if a.p2 is not None else (a, b)
            cnt = p.p2
            if x.lo is not None and x.lo >= 0 and cnt.lo is not None and cnt.hi is not None:
                def has_bit(v, mask):
                    return (v / mask) % 2 == 1 if mask > 1 else v % 2 == 1
                tb = has_bit(zt(x), 1 << cnt.hi)
                for k in range(cnt.hi - 1, cnt.lo - 1, -1):
                    tb = z3.If(zt(cnt) == k, has_bit(zt(x), 1 << k), tb)
                return V(z3.If(tb, zt(p), z3.IntVal(0)), 0, p.hi)
        wa, wb = self.width_of(a), self.width_of(b)
        if wa is None or wb is None:
            raise Unsupported("bit operation %s on operands whose non-negative width cannot be established" % op)
        w = max(wa, wb)
        za, zb = zt(a), zt(b)
        # shared trusted definitions (engine/common/bits.py): bit i of x is (x div 2^i) mod 2
        from ..common import bits
        if op == "^":
            return V(bits.xor_bits(za, zb, w), 0, (1 << w) - 1)
        if op == "&":
            return V(bits.and_bits(za, zb, min(wa, wb)), 0, min((1 << wa) - 1, (1 << wb) - 1))
        return V(bits.or_bits(za, zb, w), 0, (1 << w) - 1)

    def compare(self, op, a, b):
        if isinstance(a, V) and isinstance(b, V):
            if a.concrete and b.concrete:
                return V(int({"<": a.t < b.t, "<=": a.t <= b.t, ">": a.t > b.t, ">=": a.t >= b.t, "==": a.t == b.t,
                              "!=": a.t != b.t}[op]))
            if None not in (a.lo, a.hi, b.lo, b.hi):
                if op == "<" and a.hi < b.lo or op == "<=" and a.hi <= b.lo or op == ">" and a.lo > b.hi \
                        or op == ">=" and a.lo >= b.hi or op == "!=" and (a.hi < b.lo or a.lo > b.hi):
                    return V(1)
                if op == "<" and a.lo >= b.hi or op == "<=" and a.lo > b.hi or op == ">" and a.hi <= b.lo \
                        or op == ">=" and a.hi < b.lo or op == "==" and (a.hi < b.lo or a.lo > b.hi):
                    return V(0)
            za, zb = zt(a), zt(b)
            return vbool({"<": za < zb, "<=": za <= zb, ">": za > zb, ">=": za >= zb, "==": za == zb, "!=": za != zb}[op])
        if isinstance(a, FnPtr) or isinstance(b, FnPtr):
            a = a.code if isinstance(a, FnPtr) else self._null_code(a)
            b = b.code if isinstance(b, FnPtr) else self._null_code(b)
            if op not in ("==", "!="):
                raise Unsupported("ordering of function pointers")
            return self.compare(op, a, b)
        if isinstance(a, Ptr) and isinstance(b, Ptr):
            if op in ("==", "!="):
                eq = self.ptr_eq(a, b)
                return vbool(eq if op == "==" else (z3.Not(eq) if not isinstance(eq, bool) else not eq))
            if a.block is not None and a.block is b.block and a.steps[:-1] == b.steps[:-1] and a.steps and a.steps[-1][0] == "i":
                return self.compare(op, a.steps[-1][1], b.steps[-1][1])
            raise Unsupported("relational comparison of pointers into different objects")
        raise Unsupported("comparison of %r and %r" % (a, b))

    def _null_code(self, p):
        if isinstance(p, Ptr) and p.block is None:
            return V(0)
        raise Unsupported("comparison of function pointer with %r" % (p,))

    def ptr_eq(self, a, b):
        an = a.null if a.block is not None else True
        bn = b.null if b.block is not None else True
        if a.block is None or b.block is None:
            other = b if a.block is None else a
            if other.block is None:
                return True
            return other.null
        if a.block is not b.block:
            # distinct objects: equal only if both NULL
            if isinstance(an, bool) and isinstance(bn, bool):
                return an and bn
            return z3.And(zt_bool(an), zt_bool(bn))
        if len(a.steps) != len(b.steps) or any(x[0] != y[0] or (x[0] == "f" and x[1] != y[1]) for x, y in zip(a.steps, b.steps)):
            raise Unsupported("pointer equality across differently shaped paths")
        conj = [zt(x[1]) == zt(y[1]) for x, y in zip(a.steps, b.steps) if x[0] == "i"]
        same = z3.And(conj) if conj else True
        if isinstance(an, bool) and isinstance(bn, bool) and not an and not bn:
            return same
        raise Unsupported("equality of possibly-null pointers into one object")

    # ------------------------------------------------------------------ functions
    def call_function(self, name, args, node=None):
        f = self.tu.function(name)
        if len(self.frames) > 40 or any(fr.fname == name for fr in self.frames):
            raise Unsupported("recursion (%s)" % name)
        fr = Frame(name)
        params = [c for c in f.get("inner", []) if c.get("kind") == "ParmVarDecl"]
        if len(params) != len(args):
            raise Unsupported("argument count for %s" % name)
        self.frames.append(fr)
        try:
            for p, a in zip(params, args):
                self.bind_local(fr, p, a)
            body = [c for c in f["inner"] if c.get("kind") == "CompoundStmt"][0]
            ret = None
            try:
                self.exec_body_with_labels(body, fr)
            except _Return as r:
                ret = r.v
            if len(self.frames) == 1:
                from .contract import Locals
                self.last_frame_locals = Locals(self, fr)
            self.end_scope(fr)
            return ret
        finally:
            self.frames.pop()

    def exec_body_with_labels(self, body, fr):
        """the function's outermost block; a `goto` (from anywhere inside) to a label that is a direct child of this block and
        lies AFTER the statement being executed resumes there (forward jumps only: no loop can be formed)"""
        kids = [c for c in body.get("inner", []) if c.get("kind")]
        i = 0
        while i < len(kids):
            try:
                self.exec(kids[i], fr)
            except _Goto as g:
                tgt = [j for j, c in enumerate(kids) if c.get("kind") == "LabelStmt" and c.get("declId") == g.label]
                if not tgt or tgt[0] <= i:
                    raise Unsupported("goto to a label that is not a later statement of the function's outermost block")
                i = tgt[0]
                continue
            i += 1

    def address_taken(self, fnode):
        key = fnode["id"]
        if not hasattr(self, "_addr"):
            self._addr = {}
        if key not in self._addr:
            s = set()

            def walk(n):
                if n.get("kind") == "UnaryOperator" and n.get("opcode") == "&":
                    x = n["inner"][0]
                    while x.get("kind") == "ParenExpr":
                        x = x["inner"][0]
                    if x.get("kind") == "DeclRefExpr":
                        s.add(x["referencedDecl"]["id"])
                for c in n.get("inner", []):
                    walk(c)
            walk(fnode)
            self._addr[key] = s
        return self._addr[key]

    def bind_local(self, fr, decl, val):
        ct = self.tt.parse(decl["type"]["qualType"])
        fnode = self.tu.function(fr.fname)
        fr.names[decl.get("name", "")] = decl["id"]
        if decl["id"] in self.address_taken(fnode) or isinstance(ct, (TArray, TRecord)):
            if isinstance(ct, (TArray,)):
                raise Unsupported("array parameter/local binding by value")
            b = self.new_block(decl.get("name", "local"), ct, 1, "local", single=True)
            b.scope = fr
            fr.locals[decl["id"]] = b
            if val is not UNINIT:
                if isinstance(ct, TRecord):
                    raise Unsupported("struct by value")
                self.store(Ptr(b, (("i", V(0)),), ct), val)
        else:
            fr.locals[decl["id"]] = val

    def end_scope(self, fr):
        for v in fr.locals.values():
            if isinstance(v, Block):
                v.live = False

    # ------------------------------------------------------------------ statements
    def exec(self, s, fr):
        k = s.get("kind")
        if k is None:
            return
        m = getattr(self, "st_" + k, None)
        if m is None:
            if k.endswith("Expr") or k.endswith("Operator") or k.endswith("Literal"):
                self.rv(s, fr, discard=True)
                return
            raise Unsupported("statement %s (%s)" % (k, self.where(s)))
        return m(s, fr)

    def st_CompoundStmt(self, s, fr):
        for c in s.get("inner", []):
            self.exec(c, fr)

    def st_NullStmt(self, s, fr):
        pass

    def st_DeclStmt(self, s, fr):
        for d in s.get("inner", []):
            if d.get("kind") == "VarDecl":
                self.declare_local(d, fr)
            elif d.get("kind") in ("RecordDecl", "EnumDecl", "TypedefDecl"):
                pass
            else:
                raise Unsupported("declaration %s" % d.get("kind"))

    def declare_local(self, d, fr):
        if d.get("storageClass") == "static" and "const" in d["type"]["qualType"].split("*")[0].split() and "init" in d:
            # function-local constant table: its initialiser is its content
            ct0 = self.tt.parse(d["type"]["qualType"])
            inner0 = [c for c in d.get("inner", []) if c.get("kind") and not c["kind"].endswith("Attr") and not c["kind"].endswith("Comment")]
            if isinstance(ct0, TArray) and ct0.n is not None and inner0:
                b = self.new_block(d["name"], ct0.elem, ct0.n, "global", const=True)
                b.init = self.const_init(inner0[-1], ct0)
                fr.names[d["name"]] = d["id"]
                fr.locals[d["id"]] = b
                return
        if d.get("storageClass") in ("static", "extern"):
            raise Unsupported("static/extern local %s" % d.get("name"))
        if d["type"]["qualType"] in ("va_list", "__builtin_va_list", "__gnuc_va_list"):
            fr.names[d["name"]] = d["id"]
            fr.locals[d["id"]] = VaTok()
            return
        ct = self.tt.parse(d["type"]["qualType"])
        fr.names[d["name"]] = d["id"]
        inner = [c for c in d.get("inner", []) if c.get("kind")]
        init = inner[-1] if "init" in d and inner else None
        if isinstance(ct, TArray):
            if ct.n is None:
                # VLA: clang 14's JSON has the bound only in the type spelling; frontend.vla_bound lets clang type it
                if not ct.vla_expr:
                    raise Unsupported("array local without bound")
                from .frontend import vla_bound
                expr, pids, text = vla_bound(self.tu, fr.fname, d)
                probe = Frame(fr.fname)
                for pid, nm in pids.items():
                    did = fr.names.get(nm)
                    if did is None or did not in fr.locals:
                        raise Unsupported("VLA bound names %s which is not in scope" % nm)
                    slot = fr.locals[did]
                    if isinstance(slot, Block):
                        slot = self.load(Ptr(slot, (("i", V(0)),), slot.elem), d)
                    probe.locals[pid] = slot
                self.frames.append(probe)
                try:
                    n = self.rv(expr, probe)
                finally:
                    self.frames.pop()
                self.notes.add("VLA bound `%s` typed by clang in a probe function (clang 14 JSON omits the bound expression)" % text)
                self.require("ub", "vla_bound_positive", zt(n) > 0, d)
                b = self.new_block(d["name"], ct.elem, V(n.t, max(n.lo or 1, 1), n.hi), "vla")
                if init is not None:
                    raise Unsupported("VLA initialiser")
            else:
                b = self.new_block(d["name"], ct.elem, ct.n, "local")
                if init is not None:
                    self.init_aggregate(Ptr(b, (), ct), ct, init, fr)
                    b.initialised = True
            b.scope = fr
            fr.locals[d["id"]] = b
            return
        if isinstance(ct, TRecord):
            b = self.new_block(d["name"], ct, 1, "local", single=True)
            b.scope = fr
            fr.locals[d["id"]] = b
            if init is not None:
                self.init_aggregate(Ptr(b, (("i", V(0)),), ct), ct, init, fr)
            return
        val = UNINIT
        if init is not None:
            val = self.rv(init, fr)
        self.bind_local(fr, d, val)

    def init_aggregate(self, p, ct, init, fr):
        k = init.get("kind")
        if isinstance(ct, TArray):
            if k != "InitListExpr":
                raise Unsupported("array initialiser %s" % k)
            items = init.get("inner", [])
            for i in range(ct.n):
                q = Ptr(p.block, p.steps + (("i", V(i)),), ct.elem)
                if i < len(items):
                    self.init_aggregate(q, ct.elem, items[i], fr)
                else:
                    self.zero_init(q, ct.elem)
        elif isinstance(ct, TRecord) and k in ("ImplicitCastExpr", "DeclRefExpr", "MemberExpr", "CompoundLiteralExpr", "ParenExpr", "CallExpr"):
            self.copy_object(p, self.lv_of_rvalue_struct(init, fr), ct, init)
        elif isinstance(ct, TRecord) and ct.rec.tag == "union":
            if k == "ImplicitValueInitExpr":
                return
            if k != "InitListExpr":
                raise Unsupported("union initialiser %s" % k)
            items = [c for c in init.get("inner", []) if c.get("kind")]
            fld = init.get("field")
            f = None
            if fld is not None:
                f = self.tu.field_by_id.get(fld.get("id"))
            if f is None:
                f = ct.rec.fields[0]
            if items:
                self.init_aggregate(p.field(f.name, f.ctype), f.ctype, items[0], fr)
        elif isinstance(ct, TRecord):
            if k == "ImplicitValueInitExpr":
                self.zero_init(p, ct)
                return
            if k != "InitListExpr":
                raise Unsupported("record initialiser %s" % k)
            items = init.get("inner", [])
            for i, f in enumerate(ct.rec.fields):
                q = p.field(f.name, f.ctype)
                if i < len(items):
                    self.init_aggregate(q, f.ctype, items[i], fr)
                else:
                    self.zero_init(q, f.ctype)
        else:
            if k == "ImplicitValueInitExpr":
                self.zero_init(p, ct)
            else:
                self.store(p, self.rv(init, fr), init)

    def zero_init(self, p, ct):
        if isinstance(ct, TRecord) and ct.rec.tag == "union":
            f = ct.rec.fields[0]
            return self.zero_init(p.field(f.name, f.ctype), f.ctype)
        if isinstance(ct, TArray):
            for i in range(ct.n):
                self.zero_init(Ptr(p.block, p.steps + (("i", V(i)),), ct.elem), ct.elem)
        elif isinstance(ct, TRecord):
            for f in ct.rec.fields:
                self.zero_init(p.field(f.name, f.ctype), f.ctype)
        elif isinstance(ct, TPtr) and isinstance(ct.to, TFunc):
            self.store(p, FnPtr(0))
        elif isinstance(ct, TPtr):
            self.store(p, Ptr.NULL(ct.to))
        else:
            self.store(p, V(0))

    def st_ReturnStmt(self, s, fr):
        inner = [c for c in s.get("inner", []) if c.get("kind")]
        raise _Return(self.rv(inner[0], fr) if inner else None)

    def st_BreakStmt(self, s, fr):
        raise _Break()

    def st_ContinueStmt(self, s, fr):
        raise _Continue()

    def st_IfStmt(self, s, fr):
        inner = s.get("inner", [])
        if s.get("hasInit") or s.get("hasVar"):
            raise Unsupported("if with init/condition variable")
        cond = self.rv(inner[0], fr)
        tc = truth(cond)
        if fr.fname in self.merge_ifs and not isinstance(tc, bool) and self.mergeable(inner[1]) \
                and (len(inner) < 3 or self.mergeable(inner[2])):
            if self.merged_if(tc, inner[1], inner[2] if len(inner) > 2 else None, fr):
                return
        if self.branch(tc):
            self.exec(inner[1], fr)
        elif len(inner) > 2:
            self.exec(inner[2], fr)

    # ---- state merging: `if (c) {assignments} else {assignments}` without forking the path
    _MERGE_STMTS = ("CompoundStmt", "NullStmt", "BinaryOperator", "CompoundAssignOperator", "UnaryOperator", "IfStmt", "ParenExpr")

    def mergeable(self, node):
        k = node.get("kind")
        if k is None:
            return True
        if k in ("ReturnStmt", "BreakStmt", "ContinueStmt", "GotoStmt", "ForStmt", "WhileStmt", "DoStmt", "SwitchStmt", "CallExpr",
                 "DeclStmt", "LabelStmt", "StmtExpr", "CompoundLiteralExpr"):
            return False
        return all(self.mergeable(c) for c in node.get("inner", []))

    def merged_if(self, tc, then, els, fr):
        c = z3.simplify(tc)
        if z3.is_true(c) or z3.is_false(c):
            return False
        snap = (dict(fr.locals), dict(self.state.mem), dict(self.state.ver), set(self.state.written), len(self.pc),
                len(self.path_obls), dict(self.counter), set(self._assumed), self.nblocks)
        pm0 = dict(self.state.pmem)

        def restore():
            fr.locals.clear()
            fr.locals.update(snap[0])
            self.state.mem = dict(snap[1])
            self.state.ver = dict(snap[2])
            self.state.written = set(snap[3])

        def run_branch(cnd, body):
            base = len(self.pc)
            self.assume(cnd)
            if body is not None:
                self.exec(body, fr)
            facts = self.pc[base + 1:] if len(self.pc) > base and self.pc[base].eq(cnd) else self.pc[base:]
            out = (dict(fr.locals), dict(self.state.mem), set(self.state.written), list(facts))
            del self.pc[base:]
            del self.pc_syms[base:]
            self._assumed = set(a.get_id() for a in self.pc)
            return out
        try:
            l1, m1, w1, f1 = run_branch(c, then)
            pm1 = dict(self.state.pmem)
            restore()
            self.state.pmem = dict(pm0)
            l2, m2, w2, f2 = run_branch(z3.Not(c), els)
            if set(pm1) != set(self.state.pmem) or any(pm1[k_] is not self.state.pmem[k_] for k_ in pm1):
                raise Unsupported("merge: branches store different pointers")
            merged_locals = {}
            for k in set(l1) | set(l2):
                if k not in l1 or k not in l2:
                    raise Unsupported("merge: local declared in one branch")
                merged_locals[k] = self.merge_val(c, l1[k], l2[k])
            merged_mem = {}
            for k in set(m1) | set(m2):
                a = m1.get(k)
                b = m2.get(k)
                if a is None or b is None:
                    blk = self.state.blocks[k[0]]
                    init = self.initial_cell(blk, k[1], self.is_scalar_cell(blk, k[1]))
                    a = init if a is None else a
                    b = init if b is None else b
                merged_mem[k] = a if a.eq(b) else z3.If(c, a, b)
        except Unsupported:
            # not mergeable after all: roll back and let the caller fork
            restore()
            self.state.pmem = dict(pm0)
            del self.pc[snap[4]:]
            del self.pc_syms[snap[4]:]
            del self.path_obls[snap[5]:]
            self.counter = dict(snap[6])
            self._assumed = set(snap[7])
            return False
        fr.locals.clear()
        fr.locals.update(merged_locals)
        self.state.mem = merged_mem
        self.state.written = w1 | w2
        for f in f1:
            self.assume(z3.Implies(c, f))
        for f in f2:
            self.assume(z3.Implies(z3.Not(c), f))
        self.extra["merged_ifs"] = self.extra.get("merged_ifs", 0) + 1
        return True

    def merge_val(self, c, a, b):
        if a is b:
            return a
        if isinstance(a, V) and isinstance(b, V):
            if a.concrete and b.concrete and a.t == b.t:
                return a
            if not a.concrete and not b.concrete and a.t.eq(b.t):
                return a
            lo = None if a.lo is None or b.lo is None else min(a.lo, b.lo)
            hi = None if a.hi is None or b.hi is None else max(a.hi, b.hi)
            return V(z3.If(c, zt(a), zt(b)), lo, hi)
        if isinstance(a, FnPtr) and isinstance(b, FnPtr):
            return FnPtr(self.merge_val(c, a.code, b.code))
        if isinstance(a, Ptr) and isinstance(b, Ptr):
            if a.block is not b.block or len(a.steps) != len(b.steps) or a.null is not b.null and not (a.null is False and b.null is False):
                raise Unsupported("merge of pointers into different objects")
            steps = []
            for x, y in zip(a.steps, b.steps):
                if x[0] != y[0] or (x[0] == "f" and x[1] != y[1]):
                    raise Unsupported("merge of pointers with different paths")
                steps.append(x if x[0] == "f" else ("i", self.merge_val(c, x[1], y[1])))
            return Ptr(a.block, steps, a.ctype, a.null)
        if isinstance(a, Block) and a is b:
            return a
        if a is UNINIT and b is UNINIT:
            return a
        raise Unsupported("merge of %r and %r" % (a, b))

    def st_SwitchStmt(self, s, fr):
        inner = [c for c in s.get("inner", []) if c.get("kind")]
        if s.get("hasInit") or s.get("hasVar") or len(inner) != 2 or inner[1].get("kind") != "CompoundStmt":
            raise Unsupported("switch shape")
        v = self.rv(inner[0], fr)
        stmts, labels, default = [], [], [None]

        def add(n):
            k = n.get("kind")
            if k == "CaseStmt":
                kids = [c for c in n.get("inner", []) if c.get("kind")]
                if len(kids) != 2:
                    raise Unsupported("case range")
                val = const_value(kids[0], self.tu)
                if val is None:
                    raise Unsupported("non-constant case label")
                labels.append((val, len(stmts)))
                add(kids[1])
            elif k == "DefaultStmt":
                default[0] = len(stmts)
                add([c for c in n.get("inner", []) if c.get("kind")][0])
            else:
                stmts.append(n)
        for c in inner[1].get("inner", []):
            if c.get("kind"):
                add(c)
        start = None
        for val, pos in labels:
            if self.branch(truth(self.compare("==", v, V(val)))):
                start = pos
                break
        if start is None:
            start = default[0]
        if start is None:
            return
        try:
            for st in stmts[start:]:
                self.exec(st, fr)
        except _Break:
            return

    def st_GotoStmt(self, s, fr):
        raise _Goto(s.get("targetLabelDeclId"))

    def st_LabelStmt(self, s, fr):
        for c in s.get("inner", []):
            if c.get("kind"):
                self.exec(c, fr)

    def st_DoStmt(self, s, fr):
        body, cond = s["inner"][0], s["inner"][1]
        spec = self.loop_spec(s, fr)
        if spec is not None:
            raise Unsupported("invariant on a do-while loop")
        n = 0
        while True:
            n += 1
            if n > MAX_UNROLL:
                raise Unsupported("do-while loop without invariant exceeds %d iterations (%s)" % (MAX_UNROLL, self.where(s)))
            try:
                self.exec(body, fr)
            except _Break:
                return
            except _Continue:
                pass
            if not self.branch(truth(self.rv(cond, fr))):
                return

    def st_WhileStmt(self, s, fr):
        inner = s["inner"]
        cond, body = inner[-2], inner[-1]
        self.run_loop(s, fr, None, cond, None, body)

    def st_ForStmt(self, s, fr):
        init, var, cond, inc, body = s["inner"]
        if var.get("kind"):
            raise Unsupported("for with condition variable")
        if init.get("kind"):
            self.exec(init, fr)
        self.run_loop(s, fr, None, cond if cond.get("kind") else None, inc if inc.get("kind") else None, body)

    def loop_spec(self, s, fr):
        ords = self.tu.loops_of(fr.fname)
        return self.loop_specs.get((fr.fname, ords.get(s["id"])))

    def run_loop(self, s, fr, init, cond, inc, body):
        spec = self.loop_spec(s, fr)
        if spec is not None:
            return spec.run(self, s, fr, cond, inc, body)
        n = 0
        while True:
            if cond is not None and not self.branch(truth(self.rv(cond, fr))):
                return
            n += 1
            if n > MAX_UNROLL:
                raise Unsupported("loop without invariant exceeds %d iterations (%s): needs an invariant" % (MAX_UNROLL, self.where(s)))
            try:
                self.exec(body, fr)
            except _Break:
                return
            except _Continue:
                pass
            if inc is not None:
                self.rv(inc, fr, discard=True)

    def assigned_locals(self, s):
        """decl ids of locals syntactically assigned inside statement s"""
        out = set()

        def target(n):
            while n.get("kind") in ("ParenExpr",):
                n = n["inner"][0]
            if n.get("kind") == "DeclRefExpr":
                out.add(n["referencedDecl"]["id"])

        def walk(n):
            k = n.get("kind")
            if k in ("BinaryOperator",) and n.get("opcode") == "=":
                target(n["inner"][0])
            elif k == "CompoundAssignOperator":
                target(n["inner"][0])
            elif k == "UnaryOperator" and n.get("opcode") in ("++", "--"):
                target(n["inner"][0])
            for c in n.get("inner", []):
                walk(c)
        walk(s)
        return out

    # ------------------------------------------------------------------ expressions
    def ntype(self, node):
        return self.tu.type_of(node)

    def rv(self, e, fr, discard=False):
        k = e.get("kind")
        m = getattr(self, "ex_" + k, None)
        if m is None:
            raise Unsupported("expression %s (%s)" % (k, self.where(e)))
        return m(e, fr)

    def lv(self, e, fr):
        """lvalue -> ('local', frame, decl id) | Ptr"""
        k = e.get("kind")
        if k == "ParenExpr":
            return self.lv(e["inner"][0], fr)
        if k == "DeclRefExpr":
            rd = e["referencedDecl"]
            if rd["kind"] in ("VarDecl", "ParmVarDecl"):
                did = rd["id"]
                for f in reversed(self.frames):
                    if did in f.locals:
                        slot = f.locals[did]
                        if isinstance(slot, Block):
                            ct = self.tt.parse(self.tu.decl[did]["type"]["qualType"]) if did in self.tu.decl else None
                            if slot.single:
                                return Ptr(slot, (("i", V(0)),), slot.elem)
                            return Ptr(slot, (), TArray(slot.elem, slot.count.t if slot.count.concrete else None))
                        return ("local", f, did)
                    break_ = False
                b = self.global_block(rd["name"])
                if b.single:
                    return Ptr(b, (("i", V(0)),), b.elem)
                return Ptr(b, (), TArray(b.elem, b.count.t))
            raise Unsupported("lvalue reference to %s" % rd["kind"])
        if k == "MemberExpr":
            base = e["inner"][0]
            if e.get("isArrow"):
                p = self.rv(base, fr)
                if not isinstance(p, Ptr):
                    raise Unsupported("-> on %r" % (p,))
            else:
                p = self.lv(base, fr)
                if not isinstance(p, Ptr):
                    raise Unsupported(". on a non-memory lvalue")
            if p.block is None:
                self.require("mem", "member_access.non_null", False, e)
            fd = self.tu.field_by_id.get(e["referencedMemberDecl"])
            if fd is None:
                raise Unsupported("unknown member decl")
            return self.as_view(p, e).field(fd.name, fd.ctype)
        if k == "ArraySubscriptExpr":
            a, b = e["inner"]
            pa = self.rv(a, fr)
            pb = self.rv(b, fr)
            if isinstance(pb, Ptr):
                pa, pb = pb, pa
            if not isinstance(pa, Ptr) or not isinstance(pb, V):
                raise Unsupported("subscript operands")
            return self.ptr_add(pa, pb, e)
        if k == "UnaryOperator" and e.get("opcode") == "*":
            p = self.rv(e["inner"][0], fr)
            if isinstance(p, FnPtr):
                return p
            if not isinstance(p, Ptr):
                raise Unsupported("deref of %r" % (p,))
            return self.as_view(p, e)
        if k == "StringLiteral":
            key = e.get("value", "")
            if key not in self._strings:
                # the JSON carries the literal as spelled in the source (quotes, escapes); its size comes from the type
                at = self.ntype(e)
                n = at.n if isinstance(at, TArray) and at.n else len(key.encode()) + 1
                content = None
                try:
                    import ast as _ast
                    if key.startswith('"'):
                        val = _ast.literal_eval("b" + key) if all(ord(ch) < 128 for ch in key) else None
                        if val is not None and len(val) + 1 == n:
                            content = list(val) + [0]
                except Exception:
                    content = None
                b = self.new_block("str%d" % len(self._strings), TInt(8, self.tu.target.char_signed, "char"), n, "string", const=True)
                if content is not None:
                    if self.tu.target.char_signed:
                        content = [x - 256 if x >= 128 else x for x in content]
                    b.init = {("[]",): dict(enumerate(content))}
                    nul = dict(self.state.ghost.get("nul", {}))
                    nul[(b.id, ("[]",))] = [z3.IntVal(n - 1)]
                    self.state.ghost["nul"] = nul
                self._strings[key] = b
            b = self._strings[key]
            return Ptr(b, (), TArray(b.elem, b.count.t))
        if k == "CompoundLiteralExpr":
            ct = self.ntype(e)
            init = [c for c in e.get("inner", []) if c.get("kind")][0]
            if isinstance(ct, TArray):
                b = self.new_block("literal", ct.elem, ct.n, "local")
                p = Ptr(b, (), ct)
            else:
                b = self.new_block("literal", ct, 1, "local", single=True)
                p = Ptr(b, (("i", V(0)),), ct)
            b.scope = fr
            self.init_aggregate(p, ct, init, fr)
            return p
        raise Unsupported("lvalue %s (%s)" % (k, self.where(e)))

    def as_view(self, p, node):
        """pointer used at its static pointee type: must agree with the object's type in the typed memory model"""
        return p

    def ptr_add(self, p, k, node=None, sign=1):
        if p.block is None:
            self.require("mem", "pointer_arithmetic.non_null", False, node)
        if not isinstance(p.null, bool):
            self.require("ub", "pointer_arithmetic.non_null", z3.Not(p.null), node)
            p = Ptr(p.block, p.steps, p.ctype, False, p.view)
        if sign < 0:
            k = self.arith("-", V(0), k, None)
        if p.steps and p.steps[-1][0] == "i":
            last = p.steps[-1][1]
            return Ptr(p.block, p.steps[:-1] + (("i", self.arith("+", last, k, None)),), p.ctype, p.null, p.view)
        # pointer to a non-array sub-object (or to the whole single object)
        return Ptr(p.block, p.steps + (("i", k),), p.ctype, p.null, p.view)

    def read_lv(self, loc, node=None):
        if isinstance(loc, tuple):
            v = loc[1].locals[loc[2]]
            if v is UNINIT:
                self.require("ub", "read_of_uninitialised_local", False, node)
            return v
        if isinstance(loc, FnPtr):
            return loc
        if isinstance(loc.ctype, TArray):
            raise Unsupported("array rvalue")
        return self.load(loc, node)

    def write_lv(self, loc, val, node=None):
        if isinstance(loc, tuple):
            for allowed, first_new, desc in self.wguards:
                pass
            loc[1].locals[loc[2]] = val
            return
        self.store(loc, val, node)

    def ex_IntegerLiteral(self, e, fr):
        return V(int(e["value"]))

    def ex_CharacterLiteral(self, e, fr):
        return V(int(e["value"]))

    def ex_ParenExpr(self, e, fr):
        return self.rv(e["inner"][0], fr)

    def ex_ConstantExpr(self, e, fr):
        if "value" in e:
            return V(int(e["value"]))
        return self.rv(e["inner"][0], fr)

    def ex_DeclRefExpr(self, e, fr):
        rd = e["referencedDecl"]
        if rd["kind"] == "EnumConstantDecl":
            v = self.tu.enumval.get(rd["id"])
            if v is None:
                raise Unsupported("value of enumerator %s not computable by the front end" % rd.get("name"))
            return V(v)
        if rd["kind"] == "FunctionDecl":
            return FnPtr(self.tu.func_ids[rd["name"]])
        raise Unsupported("rvalue DeclRefExpr to %s" % rd["kind"])

    def ex_StringLiteral(self, e, fr):
        return self.lv(e, fr)

    def ex_MemberExpr(self, e, fr):
        raise Unsupported("aggregate rvalue (member)")

    def ex_ImplicitCastExpr(self, e, fr):
        return self.cast(e, fr)

    def ex_CStyleCastExpr(self, e, fr):
        return self.cast(e, fr, explicit=True)

    def cast(self, e, fr, explicit=False):
        ck = e.get("castKind")
        sub = e["inner"][0]
        if ck == "LValueToRValue":
            return self.read_lv(self.lv(sub, fr), e)
        if ck == "NoOp":
            return self.rv(sub, fr)
        if ck == "IntegralCast":
            return self.conv(self.rv(sub, fr), self.ntype(e), e, explicit)
        if ck == "IntegralToBoolean":
            return vbool(truth(self.rv(sub, fr)))
        if ck == "PointerToBoolean":
            return vbool(truth(self.rv(sub, fr)))
        if ck == "ArrayToPointerDecay":
            loc = self.lv(sub, fr)
            if isinstance(loc, tuple) and isinstance(loc[1].locals.get(loc[2]), VaTok):
                return loc[1].locals[loc[2]]
            if not isinstance(loc, Ptr) or not isinstance(loc.ctype, TArray):
                raise Unsupported("array decay of %r" % (loc,))
            return loc.index0(loc.ctype.elem)
        if ck == "FunctionToPointerDecay":
            return self.rv(sub, fr)
        if ck == "NullToPointer":
            t = self.ntype(e)
            if isinstance(t, TPtr) and isinstance(t.to, TFunc):
                return FnPtr(0)
            return Ptr.NULL(t.to if isinstance(t, TPtr) else None)
        if ck == "BitCast":
            v = self.rv(sub, fr)
            t = self.ntype(e)
            if isinstance(v, Ptr) and v.block is None and isinstance(t, TPtr) and isinstance(t.to, TFunc):
                return FnPtr(0)
            if isinstance(v, Ptr) and isinstance(t, TPtr) and isinstance(v.view, tuple) and v.view[0] == "bytes":
                if v.view[1] == 0 and isinstance(t.to, TInt) and t.to.bits == 8:
                    return v
                if v.view[1] == "-offsetof" and isinstance(t.to, TRecord) and v.steps and v.steps[-1][0] == "f":
                    # (T *)((char *)&obj->member - offsetof(T, member)): the enclosing object, if it is a T
                    parent = Ptr(v.block, v.steps[:-1], t.to, v.null)
                    if v.block.kind == "unknown":
                        return parent
                    _, pt = self.walk(parent)
                    if isinstance(pt, TRecord) and pt.rec.id == t.to.rec.id:
                        self.notes.add("container_of idiom: `(T *)((char *)&x->member - offsetof(...))` yields the enclosing T of the member "
                                       "pointed to; clang 14's JSON does not expose the offsetof operands (taken to name that member)")
                        return parent
                    # the member belongs to an object of another type (e.g. the list head inside struct trx_instance):
                    # the result is not a valid T
                    blk = self.new_block("container_of(%s)" % (v,), TInt(8, False, "byte"), 0, "unknown")
                    return Ptr(blk, (("i", V(0)),), t.to, v.null)
                raise Unsupported("cast of a byte pointer outside the container_of idiom")
            if isinstance(v, Ptr) and isinstance(t, TPtr) and v.block is not None and v.block.kind == "heap_raw":
                # `(T *)talloc_zero(...)`: the allocation gets its type here, if its size is sizeof(T)
                size = self.tt.sizeof(t.to)
                if not (v.block.count.concrete and v.block.count.t == size):
                    raise Unsupported("allocation of %s octets cast to %r (size %d)" % (v.block.count.t, t.to, size))
                self.layout_checks[getattr(self, "_cast_spelling", None) or ("struct %s" % t.to.rec.name if isinstance(t.to, TRecord) else None)] = size
                self.layout_checks.pop(None, None)
                blk = v.block
                blk.elem, blk.count, blk.single, blk.kind = t.to, V(1), True, "heap"
                return Ptr(blk, (("i", V(0)),), t.to, v.null)
            if isinstance(v, Ptr) and isinstance(t, TPtr):
                # casts to/from void* and qualifier changes keep the location; the typed model is enforced at access
                if isinstance(t.to, TVoid) or isinstance(v.ctype, TVoid) or t.to.key() == v.ctype.key():
                    return v.with_view(None) if v.view is not None and t.to.key() == v.ctype.key() else v
                if isinstance(t.to, TInt) and isinstance(v.ctype, TInt) and t.to.bits == 8 and v.ctype.bits == 8:
                    # char / int8_t / uint8_t views of the same bytes: signedness applied at load/store
                    return v.with_view(t.to)
                if isinstance(t.to, TInt) and t.to.bits == 8 and v.steps and v.steps[-1][0] == "f":
                    # (char *)&obj->member : byte pointer to a member, only meaningful for container_of arithmetic
                    return Ptr(v.block, v.steps, v.ctype, v.null, ("bytes", 0))
                raise Unsupported("pointer cast %r -> %r (type punning is outside the typed memory model)" % (v.ctype, t.to))
            if isinstance(v, FnPtr):
                return v
            raise Unsupported("bit cast of %r" % (v,))
        if ck == "ToVoid":
            self.rv(sub, fr, discard=True)
            return None
        if ck == "IntegralToPointer":
            v = self.rv(sub, fr)
            t = self.ntype(e)
            if isinstance(v, V) and v.concrete:
                if v.t == 0:
                    return Ptr.NULL(t.to if isinstance(t, TPtr) else None)
                # a fixed non-null address (poison values): never a valid object
                blk = self.new_block("addr_0x%x" % v.t, TInt(8, False, "byte"), 0, "unknown")
                return Ptr(blk, (("i", V(0)),), t.to if isinstance(t, TPtr) else TVoid(), False)
            raise Unsupported("integer to pointer conversion of a non-constant")
        raise Unsupported("cast kind %s (%s)" % (ck, self.where(e)))

    def ex_UnaryOperator(self, e, fr):
        op = e["opcode"]
        sub = e["inner"][0]
        if op == "&":
            x = sub
            while x.get("kind") == "ParenExpr":
                x = x["inner"][0]
            if x.get("kind") == "DeclRefExpr" and x["referencedDecl"]["kind"] == "FunctionDecl":
                return FnPtr(self.tu.func_ids[x["referencedDecl"]["name"]])
            loc = self.lv(sub, fr)
            if not isinstance(loc, Ptr):
                raise Unsupported("address of a register local (engine bug: address_taken scan)")
            return loc
        if op == "*":
            return self.read_lv(self.lv(e, fr), e)
        if op in ("++", "--"):
            loc = self.lv(sub, fr)
            old = self.read_lv(loc, e)
            t = self.ntype(sub)
            if isinstance(old, Ptr):
                new = self.ptr_add(old, V(1), e, 1 if op == "++" else -1)
            else:
                if isinstance(t, TInt) and t.bits < 32:
                    # promoted to int, then converted back
                    r = self.arith("+" if op == "++" else "-", old, V(1), TInt(32, True), e)
                    new = self.conv(r, t, e)
                else:
                    new = self.arith("+" if op == "++" else "-", old, V(1), t, e)
            self.write_lv(loc, new, e)
            return old if e.get("isPostfix") else new
        v = self.rv(sub, fr)
        t = self.ntype(e)
        if op == "!":
            b = truth(v)
            return vbool((not b) if isinstance(b, bool) else z3.Not(b))
        if not isinstance(v, V):
            raise Unsupported("unary %s on %r" % (op, v))
        if op == "+":
            return v
        if op == "-":
            return self.arith("-", V(0), v, t, e)
        if op == "~":
            r = self.arith("-", self.arith("-", V(0), v, None), V(1), None)
            return r if t.signed else self.conv(r, t, e)
        raise Unsupported("unary operator %s" % op)

    def ex_BinaryOperator(self, e, fr):
        op = e["opcode"]
        l, r = e["inner"]
        if op == ",":
            self.rv(l, fr, discard=True)
            return self.rv(r, fr)
        if op == "=":
            loc = self.lv(l, fr)
            lt = self.ntype(l)
            if isinstance(lt, TRecord):
                src = self.lv_of_rvalue_struct(r, fr)
                self.copy_object(loc, src, lt, e)
                return None
            v = self.rv(r, fr)
            self.write_lv(loc, v, e)
            return v
        if op == "&&":
            a = self.rv(l, fr)
            if not self.branch(truth(a)):
                return V(0)
            return vbool(truth(self.rv(r, fr)))
        if op == "||":
            a = self.rv(l, fr)
            if self.branch(truth(a)):
                return V(1)
            return vbool(truth(self.rv(r, fr)))
        a = self.rv(l, fr)
        b = self.rv(r, fr)
        if op in ("<", "<=", ">", ">=", "==", "!="):
            return self.compare(op, a, b)
        t = self.ntype(e)
        if isinstance(a, Ptr) and isinstance(b, OffsetTok):
            if op == "-" and isinstance(a.view, tuple) and a.view[0] == "bytes" and a.view[1] == 0:
                return Ptr(a.block, a.steps, a.ctype, a.null, ("bytes", "-offsetof"))
            raise Unsupported("offsetof arithmetic outside the container_of idiom")
        if isinstance(a, OffsetTok) or isinstance(b, OffsetTok):
            raise Unsupported("offsetof arithmetic outside the container_of idiom")
        if isinstance(a, Ptr) or isinstance(b, Ptr):
            if op == "+":
                return self.ptr_add(a, b, e) if isinstance(a, Ptr) else self.ptr_add(b, a, e)
            if op == "-" and isinstance(b, V):
                return self.ptr_add(a, b, e, -1)
            if op == "-" and isinstance(a, Ptr) and isinstance(b, Ptr):
                if a.block is b.block and a.block is not None and a.steps[:-1] == b.steps[:-1] and a.steps[-1][0] == "i":
                    return self.arith("-", a.steps[-1][1], b.steps[-1][1], t, e)
                raise Unsupported("difference of pointers into different objects")
            raise Unsupported("pointer operator %s" % op)
        if op in ("<<", ">>"):
            return self.shift(op, a, b, t, e)
        return self.arith(op, a, b, t, e)

    def lv_of_rvalue_struct(self, r, fr):
        while r.get("kind") in ("ParenExpr",) or (r.get("kind") == "ImplicitCastExpr" and r.get("castKind") in ("LValueToRValue", "NoOp")):
            r = r["inner"][0]
        return self.lv(r, fr)

    def copy_object(self, dst, src, ct, node=None):
        """dst = src for an aggregate type: leaf by leaf"""
        if not isinstance(dst, Ptr) or not isinstance(src, Ptr):
            raise Unsupported("aggregate copy operands")
        for sh, dims, lt in leaves(ct):
            if dims:
                total = 1
                for d in dims:
                    total *= d
                if total > 64:
                    raise Unsupported("aggregate copy with a large inner array")

            def rec(pd, ps, shape, t):
                if not shape:
                    self.store(pd, self.load(ps, node), node)
                    return
                s0 = shape[0]
                if s0 == "[]":
                    for i in range(t.n):
                        rec(Ptr(pd.block, pd.steps + (("i", V(i)),), t.elem), Ptr(ps.block, ps.steps + (("i", V(i)),), t.elem),
                            shape[1:], t.elem)
                else:
                    ft = t.rec.field(s0).ctype
                    rec(pd.field(s0, ft), ps.field(s0, ft), shape[1:], ft)
            rec(dst, src, sh, ct)

    def ex_CompoundAssignOperator(self, e, fr):
        op = e["opcode"][:-1]
        l, r = e["inner"]
        loc = self.lv(l, fr)
        old = self.read_lv(loc, e)
        rhs = self.rv(r, fr)
        lt = self.ntype(l)
        if isinstance(old, Ptr):
            new = self.ptr_add(old, rhs, e, 1 if op == "+" else -1)
            self.write_lv(loc, new, e)
            return new
        ct = self.tt.parse(e["computeLHSType"]["qualType"])
        rt = self.tt.parse(e["computeResultType"]["qualType"])
        a = self.conv(old, ct, e)
        if op in ("<<", ">>"):
            res = self.shift(op, a, rhs, rt, e)
        else:
            res = self.arith(op, a, rhs, rt, e)
        new = self.conv(res, lt, e)
        self.write_lv(loc, new, e)
        return new

    def ex_ConditionalOperator(self, e, fr):
        c, a, b = e["inner"]
        if self.branch(truth(self.rv(c, fr))):
            return self.rv(a, fr)
        return self.rv(b, fr)

    def ex_ArraySubscriptExpr(self, e, fr):
        raise Unsupported("aggregate rvalue (subscript)")

    def ex_UnaryExprOrTypeTraitExpr(self, e, fr):
        if e.get("name") != "sizeof":
            raise Unsupported("type trait %s" % e.get("name"))
        if "argType" in e:
            t = self.tt.parse(e["argType"]["qualType"])
            txt = e["argType"]["qualType"]
        else:
            sub = e["inner"][0]
            t = self.ntype(sub)
            txt = sub["type"]["qualType"]
        if isinstance(t, TArray) and t.n is None:
            raise Unsupported("sizeof of a variable-length array")
        n = self.tt.sizeof(t)
        if "(unnamed" not in txt and "(anonymous" not in txt:
            self.layout_checks[txt] = n
        return V(n)

    def ex_StmtExpr(self, e, fr):
        """GNU statement expression ({ ...; value; })"""
        body = [c for c in e.get("inner", []) if c.get("kind")][0]
        kids = [c for c in body.get("inner", []) if c.get("kind")]
        val = None
        for n, c in enumerate(kids):
            last = n == len(kids) - 1
            if last and (c["kind"].endswith("Expr") or c["kind"].endswith("Operator") or c["kind"].endswith("Literal")):
                val = self.rv(c, fr)
            else:
                self.exec(c, fr)
        return val

    def ex_OffsetOfExpr(self, e, fr):
        return OffsetTok()

    def ex_CompoundLiteralExpr(self, e, fr):
        raise Unsupported("aggregate rvalue (compound literal)")

    def ex_InitListExpr(self, e, fr):
        raise Unsupported("initialiser list as rvalue")

    def ex_CallExpr(self, e, fr):
        callee = e["inner"][0]
        x0 = callee
        while x0.get("kind") in ("ImplicitCastExpr", "ParenExpr"):
            x0 = x0["inner"][0]
        if x0.get("kind") == "DeclRefExpr" and x0.get("referencedDecl", {}).get("name", "") in ("__builtin_va_start", "__builtin_va_end",
                                                                                               "__builtin_va_copy"):
            return None          # va_list bookkeeping: the variadic arguments are only passed on to v*printf models
        args = [self.rv(a, fr) for a in e["inner"][1:]]
        x = callee
        while x.get("kind") in ("ImplicitCastExpr", "ParenExpr"):
            x = x["inner"][0]
        if x.get("kind") == "DeclRefExpr" and x["referencedDecl"]["kind"] == "FunctionDecl":
            name = x["referencedDecl"]["name"]
            return self.call_named(name, args, e)
        fp = self.rv(callee, fr)
        if not isinstance(fp, FnPtr):
            raise Unsupported("call through %r" % (fp,))
        if fp.code.concrete:
            for nm, k in self.tu.func_ids.items():
                if k == fp.code.t:
                    return self.call_named(nm, args, e)
            if fp.code.t == 0:
                self.require("mem", "call.non_null_function_pointer", False, e)
        h = self.contracts.get("(*)" + repr(self.ntype(callee)))
        h = h or self.contracts.get("(*)")
        if h is None:
            raise Unsupported("indirect call without a contract for the pointer type (%s)" % self.where(e))
        self.require("mem", "call.non_null_function_pointer", zt(fp.code) != 0, e)
        self.used_contracts.add("(*)callback")
        return h(self, [fp] + args, e)

    def call_named(self, name, args, node):
        if name in self.contracts and not any(f.fname == name for f in self.frames[:0]):
            self.used_contracts.add(name)
            return self.contracts[name](self, args, node)
        if name in self.inline:
            self.used_inline.add(name)
            return self.call_function(name, args, node)
        if name in self.externals:
            self.used_externals.add(name)
            return self.externals[name](self, args, node)
        if name in BUILTIN_MODELS:
            self.used_externals.add(name)
            return BUILTIN_MODELS[name](self, args, node)
        fn = self.tu.functions.get(name)
        if fn is not None and fn.get("storageClass") == "static" and not any(f.fname == name for f in self.frames):
            # a static helper of the same translation unit without a contract of its own (typically split off by a refactoring): its body is
            # interpreted in place, as if it had been listed in Contract.inline - sound (the real text is executed), noted in the evidence
            self.used_inline.add(name)
            self.notes.add("static helper %s() has no contract of its own: interpreted from its body (inlined automatically)" % name)
            return self.call_function(name, args, node)
        raise Unsupported("call of %s: no contract, not marked inline, no external model (%s)" % (name, self.where(node)))


def zt_bool(b):
    return z3.BoolVal(b) if isinstance(b, bool) else b


_SYMS = {}
_KEEP = []          # keeps memoised terms alive: z3 ast ids are only unique among live terms


def symbols_reset():
    _SYMS.clear()
    del _KEEP[:]


def symbols_of(term):
    """names of the uninterpreted constants/functions of a term (memoised on the DAG, per path)"""
    root = term.get_id()
    if root in _SYMS:
        return _SYMS[root]
    stack = [(term, False)]
    while stack:
        t, done = stack.pop()
        k = t.get_id()
        if k in _SYMS:
            continue
        if z3.is_quantifier(t):
            kids = [t.body()]
        elif z3.is_app(t):
            kids = t.children()
        else:
            kids = []
        if not done:
            stack.append((t, True))
            for c in kids:
                if c.get_id() not in _SYMS:
                    stack.append((c, False))
            continue
        acc = set()
        if z3.is_app(t) and t.decl().kind() == z3.Z3_OP_UNINTERPRETED:
            acc.add(t.decl().name())
        for c in kids:
            acc |= _SYMS.get(c.get_id(), frozenset())
        _SYMS[k] = frozenset(acc)
        _KEEP.append(t)
    return _SYMS[root]


# ---------------------------------------------------------------------- external models (assumed contracts)

def _noeffect(ret):
    def f(E, args, node):
        t = E.ntype(node)
        if isinstance(t, TVoid):
            return None
        return E.fresh_int("ext_ret", t)
    return f


def _memcpy(E, args, node):
    dst, src, n = args
    if not isinstance(dst, Ptr) or not isinstance(src, Ptr) or not isinstance(n, V):
        raise Unsupported("memcpy operands")
    if dst.ctype.key() != src.ctype.key() if not (isinstance(dst.ctype, TRecord) and isinstance(src.ctype, TRecord)) else dst.ctype.rec.id != src.ctype.rec.id:
        raise Unsupported("memcpy between different object types")
    ct = dst.ctype
    if not isinstance(ct, TRecord):
        raise Unsupported("memcpy of non-record objects")
    size = E.tt.sizeof(ct)
    E.layout_checks["struct %s" % ct.rec.name if ct.rec.name else None] = size
    E.layout_checks.pop(None, None)
    if not (n.concrete and n.t == size):
        raise Unsupported("memcpy size is not sizeof(one object)")
    E.notes.add("memcpy(dst, src, sizeof(*src)) of one struct = member-wise copy (padding bytes are not modelled)")
    E.copy_object(dst, src, ct, node)
    return dst


def _noreturn(name):
    """panic / abort style functions: reaching the call is the failure (obligation `False` under the path condition), nothing runs after it"""
    def model(E, args, node):
        E.notes.add("%s() never returns: every call site carries the obligation that it is unreachable" % name)
        E.require("ub", "call.%s_unreachable" % name, False, node)
        raise PathCut()
    return model


BUILTIN_MODELS = {
    "osmo_panic": _noreturn("osmo_panic"), "abort": _noreturn("abort"), "__assert_fail": _noreturn("__assert_fail"),
    "puts": _noeffect("int"), "printf": _noeffect("int"), "putchar": _noeffect("int"),
    "memcpy": _memcpy,
}

"""Sidecar contracts for C functions and the VC generation around them (DESIGN 4.2 / 5).

A contract is a python class (in /verif/contracts/c/<topic>.py) deriving from `Contract`:

    class Fn2GsmTime(Contract):
        name = "gsm_fn2gsmtime"
        def params(self, c):                 # declare the parameters, in order
            c.ptr("time")                    #   valid pointer to 1 object of the parameter's pointee type
            c.int("fn")                      #   integer of the parameter's C type
        def requires(self, c):               # [(label, z3 Bool)]
            return [("fn_in_hyperframe", c.a.fn < 2715648)]
        def assigns(self, c):                # regions the function may write
            return [c.region(c.a.time)]
        def ensures(self, c, old, new, ret): # [(label, z3 Bool)] over the pre/post memory views
            return [("fn", new.get(c.a.time, "fn") == c.a.fn), ...]

The same text is used in two ways:
  verify   (the function's body is executed symbolically)  params -> fresh symbolic pre-state, requires assumed,
           ensures + frame become obligations on every path
  call     (a caller meets the function)                    params -> the actual arguments, requires become
           obligations (kind `pre`), assigns are havocked, ensures assumed
Loops get `LoopSpec`s keyed by their ordinal in source order.
"""
import z3

from ..common import core
from ..common.core import Obligation, Cover
from ..pyvc.values import Unsupported, Infeasible
from .ctype import TInt, TPtr, TArray, TRecord, TFunc, TVoid
from .values import V, zt, vbool, truth, FnPtr, Block, Ptr, UNINIT, State, leaves
from .interp import Engine, PathCut, _Break, _Continue, _Return
from .covers import PathCover, add_hints


class NS:
    pass


class Region:
    """`count` consecutive objects starting at ptr (optionally only the leaves under `path`)"""

    def __init__(self, ptr, path=None, count=1, whole=False):
        self.ptr, self.path, self.count, self.whole = ptr, path, count, whole


class View:
    """read-only access to a memory state for contract text"""

    def __init__(self, E, state):
        self.E, self.state = E, state

    def _resolve(self, ptr, path, idx):
        E = self.E
        idx = list(idx)
        p = ptr
        if isinstance(p, Block):
            p = Ptr(p, (("i", V(0)),), p.elem) if p.single else Ptr(p, (), TArray(p.elem, None))
        _, t = E.walk(p)
        steps = list(p.steps)
        if path:
            for tok in _tokens(path):
                if tok == "[]":
                    if not isinstance(t, TArray):
                        raise Unsupported("contract path %r: [] on %r" % (path, t))
                    k = idx.pop(0)
                    steps.append(("i", k if isinstance(k, V) else V(k, None, None)))
                    t = t.elem
                else:
                    if not isinstance(t, TRecord):
                        raise Unsupported("contract path %r: .%s on %r" % (path, tok, t))
                    chain = t.rec.find(tok)
                    if not chain:
                        raise Unsupported("contract path %r: no member %s in %r" % (path, tok, t))
                    for nm in chain:
                        t = t.rec.field(nm).ctype
                        steps.append(("f", nm))
        if idx:
            raise Unsupported("contract path %r: unused indices" % (path,))
        return Ptr(p.block, steps, t)

    def lin(self, q):
        idxs, _ = self.E.walk(q)
        lin = None
        for ent in idxs:
            if len(ent) == 3:
                continue
            i, dim = ent[0], ent[1]
            lin = zt(i) if lin is None else lin * zt(dim) + zt(i)
        return lin

    def get(self, ptr, path=None, *idx):
        """value (z3 Int term) of the scalar at ptr.path; `[]` in path consume idx"""
        E = self.E
        q = self._resolve(ptr, path, idx)
        t = q.ctype
        if not isinstance(t, (TInt, TPtr)):
            raise Unsupported("contract reads non-scalar %r" % (t,))
        shape = q.shape()
        b = q.block
        key = (b.id, shape)
        if isinstance(t, TPtr) and not isinstance(t.to, TFunc):
            return self.state.pmem.get(key)          # Ptr or None (unknown)
        lin = self.lin(q)
        if key not in self.state.mem and b.init is not None and shape in b.init:
            tab = b.init[shape]
            vals = [tab.get(k, 0) for k in range(max(tab) + 1)]
            lin_s = z3.simplify(lin)
            if z3.is_int_value(lin_s):
                return z3.IntVal(vals[lin_s.as_long()])
            from . import tables
            return tables.select(vals, lin, E.assume)
        c = E.get_cell(self.state, b, shape)
        if E.is_scalar_cell(b, shape):
            term = c
        else:
            term = z3.simplify(z3.Select(c, lin))
        if not z3.is_int_value(term):
            lo, hi = E.leaf_range(t)
            if lo is not None:
                E.assume(term >= lo)
            if hi is not None:
                E.assume(term <= hi)
        return term

    def cell(self, ptr, path=None):
        """raw cell (z3 Array or Int) holding ptr.path for all indices; indices given as 0"""
        q = self._resolve(ptr, path, [0] * (path or "").count("[]"))
        return self.E.get_cell(self.state, q.block, q.shape())

    def ghost(self, name, default=None):
        return self.state.ghost.get(name, default)


def _tokens(path):
    out = []
    for part in path.replace("[]", ".[]").split("."):
        if part:
            out.append(part)
    return out


def ptr_at(p, k):
    """p + k (contract level, no obligations)"""
    if isinstance(k, int):
        kv = V(k)
    elif isinstance(k, V):
        kv = k
    else:
        kv = V(k, None, None)
    if p.steps and p.steps[-1][0] == "i":
        last = p.steps[-1][1]
        if last.concrete and kv.concrete:
            nv = V(last.t + kv.t)
        elif last.concrete and last.t == 0:
            nv = kv
        else:
            nv = V(zt(last) + zt(kv), None, None)
        return Ptr(p.block, p.steps[:-1] + (("i", nv),), p.ctype, p.null)
    return Ptr(p.block, p.steps + (("i", kv),), p.ctype, p.null)


class Ctx:
    def __init__(self, E, mode, contract, tu, actuals=None, node=None, case=None):
        self.E, self.mode, self.contract, self.tu, self.node, self.case = E, mode, contract, tu, node, case
        self.a = NS()
        self.actuals = list(actuals) if actuals is not None else None
        self.args = []              # values in parameter order
        self.validity = []          # [(label, goal)] pointer validity (call mode: obligations)
        self.inputs = {}            # name -> term / description (verify mode)
        self.ptr_params = []
        fnode = tu.protos.get(contract.name) if contract.name else None
        self.pdecls = [x for x in fnode.get("inner", []) if x.get("kind") == "ParmVarDecl"] if fnode else []
        self._used = set()
        self._cur = None
        self.memo = {}
        self.declared_bounds = []
        self.polarity = "assume"
        self.ret_locals = None
        self.shared_skolems = {}

    # ---- parameter declaration
    def _next(self, name):
        """parameter declaration `name`: bound by source name when there is one, else by position"""
        idx = None
        for k, d in enumerate(self.pdecls):
            if k not in self._used and d.get("name") == name:
                idx = k
                break
        if idx is None:
            for k, d in enumerate(self.pdecls):
                if k not in self._used:
                    idx = k
                    break
            if idx is None:
                raise Unsupported("contract of %s declares more parameters than the function has" % self.contract.name)
            d = self.pdecls[idx]
            if d.get("name"):
                self.E.notes.add("parameter %d of %s is called %s in the source (contract: %s); bound by position"
                                 % (idx, self.contract.name, d["name"], name))
        self._used.add(idx)
        self._cur = idx
        d = self.pdecls[idx]
        t = self.tu.tt.parse(d["type"]["qualType"])
        val = self.actuals[idx] if self.actuals is not None else None
        return d, t, val

    def _bind(self, val):
        while len(self.args) < len(self.pdecls):
            self.args.append(None)
        self.args[self._cur] = val

    def int(self, name, lo=None, hi=None, value=None):
        """integer parameter; `value` fixes it to a concrete number (ground case of a finite enumeration)"""
        d, t, val = self._next(name)
        if not isinstance(t, TInt):
            raise Unsupported("parameter %s of %s is not an integer" % (name, self.contract.name))
        if self.mode == "verify" and value is not None:
            if not (t.lo <= value <= t.hi):
                raise Unsupported("ground value %r outside the range of parameter %s" % (value, name))
            val = V(int(value))
            self.inputs[name] = z3.IntVal(int(value))
        elif self.mode == "verify":
            term = z3.Int("arg.%s" % name)
            self.E.assume(z3.And(term >= t.lo, term <= t.hi))
            # lo/hi: bounds the contract's `requires` states anyway (they only tighten the engine's interval)
            val = V(term, t.lo if lo is None else max(lo, t.lo), t.hi if hi is None else min(hi, t.hi))
            if lo is not None or hi is not None:
                self.declared_bounds.append((name, term, lo, hi))
            self.inputs[name] = term
        elif not isinstance(val, V):
            raise Unsupported("integer argument %s is %r" % (name, val))
        setattr(self.a, name, val.z())
        setattr(self.a, name + "_v", val)
        self._bind(val)
        return val.z()

    def ptr(self, name, count=1, nullable=False, single=None, target=None):
        """pointer parameter valid for `count` objects of its pointee type (or NULL if nullable);
        target (verify mode): an object created with c.obj() that the parameter points to"""
        d, t, val = self._next(name)
        if not isinstance(t, TPtr):
            raise Unsupported("parameter %s of %s is not a pointer" % (name, self.contract.name))
        cnt = count if isinstance(count, V) else (V(count) if isinstance(count, int) else V(count, 0, None))
        if self.mode == "verify" and target is not None:
            val = target
        elif self.mode == "verify":
            blk = self.E.new_block(name, t.to, cnt, "param", single=(cnt.concrete and cnt.t == 1) if single is None else single)
            null = False
            if nullable:
                null = z3.Bool("arg.%s.isnull" % name)
                self.inputs[name + ".isnull"] = null
            val = Ptr(blk, (("i", V(0)),), t.to, null)
        else:
            if not isinstance(val, Ptr):
                raise Unsupported("pointer argument %s is %r" % (name, val))
            if val.block is None:
                if not nullable:
                    self.validity.append(("%s.non_null" % name, z3.BoolVal(False)))
            else:
                nn = z3.BoolVal(True) if (isinstance(val.null, bool) and not val.null) else (z3.Not(val.null) if not isinstance(val.null, bool) else z3.BoolVal(False))
                if not nullable:
                    self.validity.append(("%s.non_null" % name, nn))
                guard = nn if nullable else None
                if not val.block.live:
                    self.validity.append(("%s.live" % name, z3.BoolVal(False)))
                idxs, _ = self.E.walk(val)
                for n_, ent in enumerate(idxs):
                    i, dim = ent[0], ent[1]
                    last = n_ == len(idxs) - 1
                    g = z3.And(zt(i) >= 0, (zt(i) + zt(cnt) <= zt(dim)) if last else (zt(i) < zt(dim)))
                    if guard is not None:
                        g = z3.Implies(guard, g)
                    self.validity.append(("%s.valid_for_count" % name, g))
                if not idxs:
                    raise Unsupported("pointer argument without an index step")
        setattr(self.a, name, val)
        self._bind(val)
        self.ptr_params.append((name, val, cnt))
        return val

    def fnptr(self, name):
        d, t, val = self._next(name)
        if self.mode == "verify":
            term = z3.Int("arg.%s" % name)
            self.E.assume(term >= 0)
            val = FnPtr(V(term, 0, None))
            self.inputs[name] = term
        elif isinstance(val, Ptr) and val.block is None:
            val = FnPtr(0)
        elif not isinstance(val, FnPtr):
            raise Unsupported("function pointer argument %s is %r" % (name, val))
        setattr(self.a, name, val.code.z())
        self._bind(val)
        return val.code.z()

    def obj(self, name, ctype, count=1, single=None, kind="param"):
        """an additional object of the pre-state (reached through pointer members): ctype = C type spelling"""
        t = self.tu.tt.parse(ctype) if isinstance(ctype, str) else ctype
        cnt = count if isinstance(count, V) else (V(count) if isinstance(count, int) else V(count, 0, None))
        blk = self.E.new_block(name, t, cnt, kind, single=(cnt.concrete and cnt.t == 1) if single is None else single)
        return Ptr(blk, (("i", V(0)),), t)

    def set_ptr(self, ptr, path, target):
        """pre-state: the pointer member ptr.path points to `target` (a Ptr)"""
        q = View(self.E, self.E.state)._resolve(ptr, path, [])
        if not self.E.is_scalar_cell(q.block, q.shape()):
            raise Unsupported("set_ptr on an array cell")
        self.E.state.pmem[(q.block.id, q.shape())] = target

    def set(self, ptr, path, term):
        """pre-state: the scalar member ptr.path holds `term`"""
        q = View(self.E, self.E.state)._resolve(ptr, path, [])
        if not self.E.is_scalar_cell(q.block, q.shape()):
            raise Unsupported("set on an array cell")
        self.E.state.mem[(q.block.id, q.shape())] = zt(term)

    def glob(self, name):
        b = self.E.global_block(name)
        return Ptr(b, (("i", V(0)),), b.elem) if b.single else Ptr(b, (("i", V(0)),), b.elem)

    # ---- helpers for contract text
    @property
    def view_pre(self):
        """view of the current state (the pre-state while params/requires are evaluated)"""
        return View(self.E, self.E.state)

    def region(self, ptr, path=None, count=1, whole=False):
        return Region(ptr, path, count, whole)

    # ---- quantifiers, by hand (queries stay quantifier-free)
    #   goal polarity   : forall -> fresh skolem constant (forall-introduction); every universal assumed so far is
    #                     instantiated at it
    #   assume polarity : forall -> registered as a closure and instantiated at the terms named with `at=` / c.instantiate
    #                     (forall-elimination); nothing un-instantiated reaches the solver
    def forall(self, fn, name="k", at=(), shared=False, sort=None):
        """shared=True: the clauses of one invariant / post-condition evaluation that quantify over `name` use ONE skolem
        constant (proving P(sk) and then Q(sk) under P(sk), for an arbitrary sk, proves forall x. P(x) and Q(x)); this keeps
        the number of instances small and lets later clauses use earlier ones.
        sort: a label for the domain of the bound variable ("set index", "bucket", ...); universals are only instantiated
        at terms of their own sort (terms/universals without a sort match everything)."""
        E = self.E
        if self.polarity == "goal":
            if shared and name in self.shared_skolems:
                return fn(self.shared_skolems[name])
            sk = z3.Int(E.fresh("sk!" + name))
            if shared:
                self.shared_skolems[name] = sk
            self.instantiate(sk, sort=sort)
            return fn(sk)
        E.universals.append((sort, fn))
        for t in list(at):
            E.assume(fn(t))
        for (ts, t) in list(E.inst_terms):
            if sort is None or ts is None or ts == sort:
                E.assume(fn(t))
        return z3.BoolVal(True)

    def instantiate(self, *terms, sort=None):
        for t in terms:
            self.E.instantiate(t, sort)

    def lemma(self, fact):
        """instance of a lemma that is proved separately (the property part emits its base/step obligations)"""
        self.E.assume(fact)

    def skolem_fn(self, name):
        """assume polarity: fresh function symbol witnessing an existential (exists-elimination)"""
        f = z3.Function(self.E.fresh("w!" + name), z3.IntSort(), z3.IntSort())
        return f

    def at(self, ptr, k):
        return ptr_at(ptr, k)

    def func_code(self, name):
        return self.tu.func_ids[name]

    def fresh(self, name):
        return z3.Int(self.E.fresh("c!" + name))

    def separated_ok(self):
        """call mode: distinct pointer parameters must not overlap (the verify mode gives each its own block)"""
        out = []
        ps = [(n, p, c) for n, p, c in self.ptr_params if p.block is not None]
        for i in range(len(ps)):
            for j in range(i + 1, len(ps)):
                (n1, p1, c1), (n2, p2, c2) = ps[i], ps[j]
                if p1.block is not p2.block:
                    continue
                if p1.steps[:-1] == p2.steps[:-1] and p1.steps[-1][0] == "i" and p2.steps[-1][0] == "i":
                    a, b = zt(p1.steps[-1][1]), zt(p2.steps[-1][1])
                    out.append(("%s_%s.separated" % (n1, n2), z3.Or(a + zt(c1) <= b, b + zt(c2) <= a)))
                elif p1.shape() != p2.shape() and not _prefix(p1.shape(), p2.shape()):
                    continue
                else:
                    raise Unsupported("cannot establish separation of arguments %s and %s" % (n1, n2))
        return out


def _prefix(a, b):
    n = min(len(a), len(b))
    return a[:n] == b[:n]


class Contract:
    name = None
    inline = ()            # callees interpreted from their bodies
    uses = ()              # contracts (classes) of callees
    trusted_init = ()      # globals whose initialiser is taken as content (justified by never_written check)
    merge_ifs = False      # True: `if` statements with assignment-only branches are merged (ite) instead of forking
    frame = True           # False: no frame obligations (contracts that state memory safety only)
    cases = (None,)
    loops = None           # {ordinal: LoopSpec}
    helper = False         # True: a `static` helper that is NOT the property's mechanism (its exact behaviour is a representation choice of the
                           # file): its obligations are tagged {"helper": True}; engine/cli.py then turns a reproduced counter-model of this
                           # contract into a violation only when the statement-level oracle finds a failing input as well
    roles = None           # {name the contract uses for a local: role}: resolved on the AST when no local of that name is in scope
                           # (resolve_role: ("ivar", loop #) / ("counter", loop #) / ("array", "element type")), so renames keep the contract bound

    def params(self, c):
        raise NotImplementedError

    def requires(self, c):
        return []

    def assigns(self, c):
        return []

    def ensures(self, c, old, new, ret):
        return []

    def returns(self, c, old):
        """optional exact return value (term over the pre-state): callers then see this term"""
        return None

    def init_state(self, c):
        """verify mode: optional initialisation of the pre-state memory with terms (instead of equations)"""

    def ghost_effect(self, c, old):
        """call mode: update of ghost state"""


def region_cells(E, r):
    """[(block, shape, lin or None, count, leaf type)] covered by a region"""
    p = r.ptr
    if isinstance(p, Block):
        p = Ptr(p, (("i", V(0)),), p.elem)
    v = View(E, E.state)
    q = v._resolve(p, r.path, [0] * (r.path or "").count("[]")) if r.path else p
    out = []
    t = q.ctype
    for sh, dims, lt in leaves(t):
        steps = list(q.steps)
        for s in sh:
            steps.append(("i", V(0)) if s == "[]" else ("f", s))
        full = Ptr(q.block, steps, lt)
        shape = full.shape()
        inner = 1
        for d in dims:
            inner *= d
        if r.whole or E.is_scalar_cell(q.block, shape):
            out.append((q.block, shape, None, None, lt))
        else:
            base = Ptr(q.block, q.steps, t)
            lin0 = v.lin(full)
            cnt = zt(r.count) * inner if not (isinstance(r.count, int) and inner == 1) else r.count
            if isinstance(r.count, int) and inner != 1:
                cnt = r.count * inner
            # leaves of consecutive objects are contiguous only when the region's objects are the innermost
            # dimension for this leaf; otherwise fall back to the whole cell (sound over-approximation for havoc)
            last_i = max([k for k, s in enumerate(q.steps) if s[0] == "i"], default=None)
            tail_has_index = any(s == "[]" for s in sh)
            if tail_has_index and not (isinstance(r.count, int) and r.count == 1):
                out.append((q.block, shape, None, None, lt))
            else:
                out.append((q.block, shape, lin0, cnt, lt))
    return out


def as_callee(contract_cls, tu):
    contract = contract_cls() if isinstance(contract_cls, type) else contract_cls

    def handler(E, args, node):
        c = Ctx(E, "call", contract, tu, actuals=args, node=node)
        contract.params(c)
        c.polarity = "goal"
        pre = c.validity + c.separated_ok() + list(contract.requires(c))
        c.polarity = "assume"
        for label, g in pre:
            E.require("pre", "call_%s.pre.%s" % (contract.name, label), g, node, callee=contract.name)
        old_state = E.state.snapshot()
        old = View(E, old_state)
        exact = contract.returns(c, old)
        for r in contract.assigns(c):
            for (blk, shape, lin, cnt, lt) in region_cells(E, r):
                E.havoc_cell(blk, shape, lin, cnt, ltype=lt)
        contract.ghost_effect(c, old)
        fnode = tu.protos[contract.name]
        ft = tu.tt.parse(fnode["type"]["qualType"])
        rt = ft.ret
        if isinstance(rt, TVoid):
            ret = None
            rterm = None
        elif exact is not None:
            ret = exact if isinstance(exact, V) else V(exact, rt.lo if isinstance(rt, TInt) else None, rt.hi if isinstance(rt, TInt) else None)
            if isinstance(ret.t, z3.ExprRef):
                s = z3.simplify(ret.t)
                if z3.is_int_value(s):
                    ret = V(s.as_long())
            rterm = ret.z()
        elif isinstance(rt, TInt):
            ret = E.fresh_int("ret_%s" % contract.name, rt)
            rterm = ret.z()
        else:
            raise Unsupported("callee %s returns %r" % (contract.name, rt))
        new = View(E, E.state)
        for label, g in contract.ensures(c, old, new, rterm):
            E.assume(g)
        return ret
    handler.contract = contract
    return handler


class LoopSpec:
    """Loop invariant: invariant(c, L, entry, cur) -> [(label, Bool)]; assigns(c, L) -> [Region].
    L gives the current values of the enclosing function's locals by name (z3 terms)."""

    def __init__(self, invariant, assigns=None, variant=None, note="", ptr_locals=None, ptr_cells=None):
        self.invariant, self.assigns, self.variant, self.note = invariant, assigns, variant, note
        # pointer-valued MEMBERS written in the loop: [(fn(c) -> (object Ptr, "member.path"), fn(c, L, cur) -> Ptr)]: the value
        # the member has at the loop head as a function of the rest of the state (checked on entry and after the body)
        self.ptr_cells = ptr_cells or []
        # pointer-typed locals assigned in the loop: name -> fn(c, L, cur) giving the pointer as a function of the rest of
        # the state (re-established by every iteration: obligation).  Pointer locals without an entry are havocked to
        # `uninitialised` (any read before the body assigns them is a failed obligation).
        self.ptr_locals = ptr_locals or {}

    def _ptr_defs(self, E, fr):
        c = E.ctx
        out = {}
        for name, fn in self.ptr_locals.items():
            did = fr.names.get(name)
            if did is None:
                raise Unsupported("loop invariant defines pointer local %s which is not in scope" % name)
            out[did] = (name, fn(c, Locals(E, fr), View(E, E.state.snapshot())))
        return out

    def _inv(self, E, fr, entry, polarity):
        c = E.ctx
        c.polarity = polarity
        c.shared_skolems = {}
        try:
            return list(self.invariant(c, Locals(E, fr), entry, View(E, E.state.snapshot())))
        finally:
            c.polarity = "assume"

    def _cell_checks(self, E, fr, tag, phase, s):
        c = E.ctx
        for getter, want_fn in self.ptr_cells:
            obj, path = getter(c)
            v = View(E, E.state)
            q = v._resolve(obj, path, [])
            act = E.state.pmem.get((q.block.id, q.shape()))
            want = want_fn(c, Locals(E, fr), View(E, E.state.snapshot()))
            same = act is not None and ((act.block is None and want.block is None) or
                                        (act.block is want.block and act.shape() == want.shape() and
                                         isinstance(act.null, bool) and not act.null))
            if not same:
                E.require("inv", "%s.%s.pointer_%s" % (tag, phase, path), False, s)
            elif act.block is not None:
                eqs = [zt(x[1]) == zt(y[1]) for x, y in zip(act.steps, want.steps) if x[0] == "i"]
                E.require("inv", "%s.%s.pointer_%s" % (tag, phase, path), z3.And(eqs) if eqs else True, s)

    def _cell_set(self, E, fr):
        c = E.ctx
        for getter, want_fn in self.ptr_cells:
            obj, path = getter(c)
            c.set_ptr(obj, path, want_fn(c, Locals(E, fr), View(E, E.state.snapshot())))

    def run(self, E, s, fr, cond, inc, body):
        c = E.ctx
        ordn = E.tu.loops_of(fr.fname)[s["id"]]
        tag = "loop%d" % ordn
        if not hasattr(E, "loop_stack"):
            E.loop_stack = []
        E.loop_stack.append(s)
        try:
            return self._run(E, s, fr, cond, inc, body, ordn, tag)
        finally:
            E.loop_stack.pop()

    def _run(self, E, s, fr, cond, inc, body, ordn, tag):
        c = E.ctx
        entry = View(E, E.state.snapshot())
        E.extra.setdefault("loops_with_invariant", set()).add("%s#%d" % (fr.fname, ordn))
        for label, g in self._inv(E, fr, entry, "goal"):
            E.require("inv", "%s.inv_on_entry.%s" % (tag, label), g, s)
        for did, (name, p) in self._ptr_defs(E, fr).items():
            act = fr.locals.get(did)
            if not isinstance(act, Ptr) or act.block is not p.block or act.shape() != p.shape():
                E.require("inv", "%s.inv_on_entry.pointer_%s" % (tag, name), False, s)
            else:
                eqs = [zt(x[1]) == zt(y[1]) for x, y in zip(act.steps, p.steps) if x[0] == "i"]
                E.require("inv", "%s.inv_on_entry.pointer_%s" % (tag, name), z3.And(eqs) if eqs else True, s)
        self._cell_checks(E, fr, tag, "inv_on_entry", s)
        # havoc
        for did in sorted(E.assigned_locals(s)):
            if did in fr.locals:
                slot = fr.locals[did]
                if isinstance(slot, Block):
                    continue      # memory: must be listed in assigns (guarded below)
                d = E.tu.decl[did]
                t = E.tt.parse(d["type"]["qualType"])
                if not isinstance(t, TInt):
                    if isinstance(t, TPtr):
                        fr.locals[did] = UNINIT
                        continue
                    raise Unsupported("loop %s assigns the non-integer local %s declared outside it" % (tag, d.get("name")))
                fr.locals[did] = E.fresh_int("%s.%s" % (tag, d["name"]), t)
        allowed = set()
        regions = self.assigns(c, Locals(E, fr)) if self.assigns else []
        cells = []
        for r in regions:
            cells.extend(region_cells(E, r))
        for (blk, shape, lin, cnt, lt) in cells:
            allowed.add((blk.id, shape))
        for (blk, shape, lin, cnt, lt) in cells:
            E.havoc_cell(blk, shape, lin, cnt, ltype=lt)
        for label, g in self._inv(E, fr, entry, "assume"):
            E.assume(g)
        for did, (name, p) in self._ptr_defs(E, fr).items():
            fr.locals[did] = p
        self._cell_set(E, fr)
        v0 = self.variant(c, Locals(E, fr), View(E, E.state.snapshot())) if self.variant else None
        E.wguards.append((allowed, E.nblocks + 1, "%s of %s" % (tag, fr.fname)))
        try:
            if cond is not None and not E.branch(truth(E.rv(cond, fr))):
                return
            try:
                E.exec(body, fr)
            except _Break:
                return
            except _Continue:
                pass
            if inc is not None:
                E.rv(inc, fr, discard=True)
        finally:
            E.wguards.pop()
        for label, g in self._inv(E, fr, entry, "goal"):
            E.require("inv", "%s.inv_preserved.%s" % (tag, label), g, s)
        for did, (name, p) in self._ptr_defs(E, fr).items():
            act = fr.locals.get(did)
            if not isinstance(act, Ptr) or act.block is not p.block or act.shape() != p.shape():
                E.require("inv", "%s.inv_preserved.pointer_%s" % (tag, name), False, s)
            else:
                eqs = [zt(x[1]) == zt(y[1]) for x, y in zip(act.steps, p.steps) if x[0] == "i"]
                E.require("inv", "%s.inv_preserved.pointer_%s" % (tag, name), z3.And(eqs) if eqs else True, s)
        self._cell_checks(E, fr, tag, "inv_preserved", s)
        if v0 is not None:
            v1 = self.variant(c, Locals(E, fr), View(E, E.state.snapshot()))
            E.require("inv", "%s.variant_decreases" % tag, z3.And(v0 >= 0, v1 < v0), s)
        raise PathCut()


class Locals:
    """values of the locals of a frame by source name, captured at construction (closures stay stable)"""

    def __init__(self, E, fr):
        object.__setattr__(self, "_E", E)
        object.__setattr__(self, "_fr", fr)
        object.__setattr__(self, "_names", dict(fr.names))
        object.__setattr__(self, "_vals", dict(fr.locals))

    def __getattr__(self, name):
        fr = self._fr
        did = self._names.get(name)
        if did is None or did not in self._vals:
            # the contract's name for the local is not in scope: resolve its ROLE on the AST (Contract.roles), so that a renamed local
            # keeps its contract; roles that cannot be resolved uniquely leave the contract unbound (Unsupported -> out of reach)
            role = (getattr(self._E.ctx.contract, "roles", None) or {}).get(name) if getattr(self._E, "ctx", None) is not None else None
            did = resolve_role(self._E, fr, role) if role is not None else None
            if did is not None and did in self._vals:
                self._E.notes.add("local `%s` of the contract of %s bound by role %r to `%s`" % (name, fr.fname, role, self._E.tu.decl[did].get("name")))
            else:
                raise Unsupported("contract refers to local %s which is not in scope in %s%s" % (name, fr.fname, " (role %r not resolvable)" % (role,) if role else ""))
        v = self._vals[did]
        if isinstance(v, V):
            return v.z()
        if isinstance(v, Block):
            return Ptr(v, (("i", V(0)),), v.elem)
        if isinstance(v, FnPtr):
            return v.code.z()
        if v is UNINIT:
            raise Unsupported("contract reads uninitialised local %s" % name)
        return v


def _loop_node(E, fname, ordinal):
    ids = {nid for nid, k in E.tu.loops_of(fname).items() if k == ordinal}
    found = []

    def walk(n):
        if n.get("id") in ids and n.get("kind") in ("ForStmt", "WhileStmt", "DoStmt"):
            found.append(n)
        for c in n.get("inner", []):
            if isinstance(c, dict):
                walk(c)
    walk(E.tu.functions[fname])
    return found[0] if found else None


def _modified_in(E, node):
    return E.assigned_locals(node) if isinstance(node, dict) and node.get("kind") else set()


def loop_ivar(E, loop):
    """decl id of the induction variable of a for loop: the one local its increment expression modifies (if several: the one the
    initialiser sets as well)"""
    if loop is None or loop.get("kind") != "ForStmt":
        return None
    kids = loop.get("inner", [])
    if len(kids) < 5:
        return None
    init, inc = kids[0], kids[3]
    mod = _modified_in(E, inc)
    if len(mod) == 1:
        return next(iter(mod))
    ini = _modified_in(E, init)
    if isinstance(init, dict) and init.get("kind") == "DeclStmt":
        ini |= {d["id"] for d in init.get("inner", []) if d.get("kind") == "VarDecl"}
    both = mod & ini
    return next(iter(both)) if len(both) == 1 else None


def resolve_role(E, fr, role):
    """role -> decl id (or None):  ("ivar", k) induction variable of loop #k of the function (k None: the loop whose contract is being
    evaluated);  ("counter", k) the one integer local other than the induction variable that loop #k assigns;  ("array", "elem type")
    the one local array of that element type"""
    kind, arg = role
    fname = fr.fname
    if kind in ("ivar", "counter"):
        loop = _loop_node(E, fname, arg) if arg is not None else (E.loop_stack[-1] if getattr(E, "loop_stack", None) else None)
        iv = loop_ivar(E, loop)
        if kind == "ivar":
            return iv
        if loop is None:
            return None
        cands = []
        for did in _modified_in(E, loop):
            d = E.tu.decl.get(did)
            if did == iv or d is None or did not in fr.locals:
                continue
            try:
                t = E.tt.parse(d["type"]["qualType"])
            except Exception:
                continue
            if isinstance(t, TInt):
                cands.append(did)
        return cands[0] if len(cands) == 1 else None
    if kind == "array":
        cands = []
        for did in fr.locals:
            d = E.tu.decl.get(did)
            if d is None or d.get("kind") != "VarDecl":
                continue
            q = d["type"]["qualType"]
            if "[" in q and q.split("[")[0].strip() == arg:
                cands.append(did)
        return cands[0] if len(cands) == 1 else None
    return None


# ---------------------------------------------------------------------- verification of one function

def make_engine(tu, contract, registry):
    E = Engine(tu)
    for cc in contract.uses:
        E.contracts[cc.name] = as_callee(cc, tu)
    E.inline |= set(contract.inline)
    E.trusted_init |= set(contract.trusted_init)
    for nm, fn in (getattr(contract, "externals", None) or {}).items():
        E.externals[nm] = fn
    E.external_notes = dict(getattr(contract, "external_notes", None) or {})
    if hasattr(contract, "callback"):
        E.contracts["(*)"] = lambda E_, args, node: contract.callback(E_, args[0], args[1:], node)
    if contract.merge_ifs:
        E.merge_ifs.add(contract.name)
        E.merge_ifs |= set(contract.inline)
    for k, spec in (contract.loops or {}).items():
        E.loop_specs[(contract.name, k)] = spec
    return E


def verify(run, prop, tu, contract_cls, case_filter=None, tag_extra=None):
    """Symbolically execute the real body of contract.name on every path and emit the obligations."""
    contract = contract_cls() if isinstance(contract_cls, type) else contract_cls
    fname = contract.name
    where = tu.where(fname)
    run.fn("%s:%s" % (tu.relfile, fname), tu.relfile, where.split(":")[-1], "contract (%s build)" % tu.mode)
    total = {"paths": 0, "cut": 0}
    for case in contract.cases:
        if case_filter is not None and not case_filter(case):
            continue
        E = make_engine(tu, contract, None)
        cs = "" if case is None else str(case)
        holder = {}

        def runp(E, case=case, holder=holder):
            c = Ctx(E, "verify", contract, tu, case=case)
            E.ctx = c
            contract.params(c)
            contract.init_state(c)
            reqs = list(contract.requires(c))
            for (nm, term, lo, hi) in c.declared_bounds:
                # interval hints given at declaration are part of the pre-condition
                if lo is not None:
                    reqs.append(("%s_lower_bound" % nm, term >= lo))
                if hi is not None:
                    reqs.append(("%s_upper_bound" % nm, term <= hi))
            for label, g in reqs:
                E.assume(g)
            holder["reqs"] = reqs
            holder["inputs"] = c.inputs
            holder["ctx"] = c
            E.state.written = set()
            nblocks0 = E.nblocks
            old_state = E.state.snapshot()
            old = View(E, old_state)
            chk = z3.Solver()
            chk.set("timeout", E.feas_timeout)
            for a_ in E.pc:
                chk.add(a_)
            if chk.check() == z3.unsat:
                holder["vacuous"] = True
                raise Infeasible()
            if len(c.args) != len(c.pdecls) or any(a_ is None for a_ in c.args):
                raise Unsupported("contract of %s does not declare every parameter" % fname)
            ret = E.call_function(fname, c.args)
            new = View(E, E.state.snapshot())
            rterm = ret.z() if isinstance(ret, V) else (ret.code.z() if isinstance(ret, FnPtr) else None)
            c.ret_locals = E.last_frame_locals
            c.polarity = "goal"
            c.shared_skolems = {}
            posts = list(contract.ensures(c, old, new, rterm))
            c.polarity = "assume"
            exact = contract.returns(c, old)
            if exact is not None:
                posts.append(("returns_exactly", rterm == zt(exact)))
            # frame: everything written outside the assigns clause keeps its old content
            cells = []
            for r in contract.assigns(c):
                cells.extend(region_cells(E, r))
            frames = []
            for key in (sorted(E.state.written, key=str) if contract.frame else ()):
                blk = E.state.blocks[key[0]]
                if blk.kind in ("local", "vla", "string") or blk.id > nblocks0:
                    continue            # locals, and objects created (allocated) during the call
                cov = [x for x in cells if x[0].id == key[0] and x[1] == key[1]]
                if key in E.state.pmem or key in old_state.pmem:
                    if not cov and E.state.pmem.get(key) is not old_state.pmem.get(key):
                        frames.append(("unchanged(%s%s)" % (blk.name, "".join("." + s_ for s_ in key[1][1:])), z3.BoolVal(False)))
                    continue
                newc = E.get_cell(E.state, blk, key[1])
                oldc = E.get_cell(old_state, blk, key[1])
                nm = "%s%s" % (blk.name, "".join("." + s if s != "[]" else "[]" for s in key[1][1:]))
                if not cov:
                    frames.append(("unchanged(%s)" % nm, newc == oldc))
                elif any(x[2] is None for x in cov) or E.is_scalar_cell(blk, key[1]):
                    continue
                else:
                    j = z3.Int("frame!j")
                    outside = z3.And([z3.Or(j < zt(x[2]), j >= zt(x[2]) + zt(x[3])) for x in cov])
                    frames.append(("unchanged_outside_assigns(%s)" % nm, z3.Implies(outside, z3.Select(newc, j) == z3.Select(oldc, j))))
            return {"ret": rterm, "posts": posts, "frames": frames, "pc": list(E.pc)}

        paths = E.explore(runp)
        if holder.get("vacuous") and not paths:
            run.add(Cover(prop, fname, "requires_satisfiable", [z3.BoolVal(False)], case=cs, where=where))
            continue
        reqs = holder.get("reqs", [])
        inputs = holder.get("inputs", {})
        base_tag = {"side": "c", "func": fname, "file": tu.relfile, "case": cs}
        if getattr(contract, "helper", False):
            base_tag["helper"] = True
        base_tag.update(tag_extra or {})
        run.add(Cover(prop, fname, "requires_satisfiable", [g for _, g in reqs], case=cs, where=where, tag=dict(base_tag)))
        seen = set()
        agg = run.extra.setdefault("cvc_engine", {"loops_with_invariant": [], "side_conditions_trivially_true": 0, "merged_ifs": 0})
        for p in paths:
            for lp in sorted(p.extra.get("loops_with_invariant", ())):
                if lp not in agg["loops_with_invariant"]:
                    agg["loops_with_invariant"].append(lp)
            agg["side_conditions_trivially_true"] += p.extra.get("trivial_side_conditions", 0)
            agg["merged_ifs"] += p.extra.get("merged_ifs", 0)
        for n, p in enumerate(paths):
            total["paths"] += 1
            pid = "path%d" % n
            for (clause, pc, goal, meta) in p.obls:
                key = (clause, meta.get("where"), tuple(a.get_id() for a in pc), goal.get_id())
                if key in seen:
                    continue
                seen.add(key)
                t = dict(base_tag)
                t.update({k: v for k, v in meta.items() if isinstance(v, (str, int))})
                t["path"] = pid
                run.add(mk_obligation(Obligation, prop, fname, clause, pc, goal, kind=meta["kind"], case=_cs(cs, pid, meta.get("where")),
                                      where=where, inputs=inputs, tag=t))
            if p.cut:
                total["cut"] += 1
                run.add(mk_obligation(PathCover, prop, fname, "path_feasible", p.pc, case=_cs(cs, pid, "cut"), where=where, tag=dict(base_tag)))
                continue
            out = p.outcome
            t = dict(base_tag)
            t["path"] = pid
            for label, g in out["posts"]:
                run.add(mk_obligation(Obligation, prop, fname, "post.%s" % label, out["pc"], g, kind="post", case=_cs(cs, pid), where=where,
                                      inputs=inputs, tag=dict(t, clause=label)))
            for label, g in out["frames"]:
                run.add(mk_obligation(Obligation, prop, fname, "frame.%s" % label, out["pc"], g, kind="frame", case=_cs(cs, pid), where=where,
                                      inputs=inputs, tag=dict(t, clause=label)))
            run.add(mk_obligation(PathCover, prop, fname, "path_feasible", out["pc"], case=_cs(cs, pid), where=where, tag=dict(base_tag)))
        note_engine(run, E, tu)
    return total


def sect(run, label, fn, *a, **k):
    """CVC analogue of engine.pyvc.harness.sect: run one section of a C property driver (the verification of one function, a group of
    spec-level lemmas, the parsing of one translation unit).  When the section's contract cannot be bound to the current code - the front
    end cannot cut / parse the function, a loop contract names a local that is not in scope, a construct outside the engine, the exploration
    budget of a function is exhausted, or the driver itself trips over the changed shape - the section is recorded in run.out_of_reach (the
    property's bounded native oracle stands in for this run, engine/cli.py) instead of making the whole check undecided.  The partial
    obligations of the section are dropped: a half-bound contract proves nothing."""
    import os, traceback
    n0 = len(run.obls)
    try:
        return fn(*a, **k)
    except core.WallClock:
        raise
    except (KeyboardInterrupt, SystemExit):
        raise
    except Unsupported as e:
        reason = "construct outside the engine / contract cannot be bound: %s" % (e,)
    except Infeasible as e:
        reason = "contract pre-state is contradictory for this code shape: %s" % (e,)
    except Exception as e:
        tb = traceback.extract_tb(e.__traceback__)
        reason = "contract could not be bound to the code: %s: %s (%s)" % (type(e).__name__, str(e)[:200], "%s:%d" % (os.path.basename(tb[-1].filename), tb[-1].lineno) if tb else "")
    del run.obls[n0:]
    run.out_of_reach.append({"section": label, "reason": reason[:400]})
    return None


def _table_axioms(terms):
    """ground axioms of the uf_table symbols occurring in terms (what core.range_instances would add), computed
    from the engine's memoised symbol sets instead of a fresh walk over every (large, shared) path condition"""
    from .interp import symbols_of
    names = set()
    for t in terms:
        names |= symbols_of(t)
    out = []
    for nm in sorted(names & set(core.UF_TABLES)):
        f, vals = core.UF_TABLES[nm]
        out.extend(f(z3.IntVal(k)) == v for k, v in enumerate(vals))
    return out


def mk_obligation(cls, prop, func, clause, assumptions, goal=None, **kw):
    """Obligation/Cover whose range facts are computed by _table_axioms (CVC registers no ranged arrays: element ranges
    are assumed at every access by the memory model)"""
    if core.RANGED:
        return cls(prop, func, clause, assumptions, goal, **kw) if goal is not None else cls(prop, func, clause, assumptions, **kw)
    o = cls(prop, func, clause, [], z3.BoolVal(True), **kw) if goal is not None else cls(prop, func, clause, [], **kw)
    o.assumptions = list(assumptions)
    if goal is not None:
        o.goal = goal
    o.range_facts = _table_axioms(o.assumptions + [o.goal])
    return o


def finish(run):
    """call once at the end of a property part's build_c: model hints for the path covers (engine/cvc/covers.py)"""
    add_hints(run)


def _cs(cs, pid, extra=None):
    parts = [x for x in (cs, pid, extra) if x]
    return ",".join(parts)


def note_engine(run, E, tu):
    for n in sorted(E.notes):
        run.assume("CVC: " + n)
    for n in sorted(E.used_inline):
        run.inlined.add("%s:%s" % (tu.relfile, n))
    for n in sorted(E.used_externals):
        txt = getattr(E, "external_notes", {}).get(n)
        if txt:
            run.assume("assumed contract of %s" % txt)
            continue
        if n == "memcpy":
            continue            # modelled (member-wise struct copy), see the CVC note above
        run.assume("external %s(): assumed to have no effect on program memory (arguments are still evaluated)" % n)
    for n in sorted(E.used_contracts):
        run.extra.setdefault("callee_contracts_used", [])
        if n not in run.extra["callee_contracts_used"]:
            run.extra["callee_contracts_used"].append(n)
    st = run.extra.setdefault("cvc_stats", {"paths": 0, "cut_paths": 0, "branches": 0, "solver_checks": 0})
    for k in st:
        st[k] += E.stats.get(k, 0)
    if E.layout_checks:
        from .frontend import check_layout
        check_layout(tu, sorted(E.layout_checks.items()))
        run.extra.setdefault("layout_confirmed_by_clang", {}).update({k: v for k, v in E.layout_checks.items()})
    run.trust("clang %s JSON AST (types, implicit conversions, macro expansion) of the real file" % tu.target.name)
    run.trust("CVC integer/memory semantics (engine/cvc/interp.py): ints as mathematical integers + range/UB obligations; typed field-separated memory")
    run.extra.setdefault("front_end", {})[tu.relfile] = {"cmd": tu.cmd, "mode": tu.mode, "extraction": tu.extraction}
    along = (tu.extraction or {}).get("file_local_definitions_cut_along") if isinstance(tu.extraction, dict) else None
    if along:
        run.assume("CVC: the verbatim cut of %s carries along the file-local definitions its text refers to and the prelude does not provide "
                   "(directive / declaration text taken verbatim from the same file): %s" % (tu.relfile, ", ".join(along)))


def never_written(tu, gname):
    """Syntactic justification for `trusted_init`: in the whole TU the global is only ever read
    (every reference is a subscript/member read under an LValueToRValue conversion)."""
    gid = tu.globals[gname]["id"]
    bad = []

    def walk(n, parents):
        k = n.get("kind")
        if k == "DeclRefExpr" and n.get("referencedDecl", {}).get("id") == gid:
            # climb: allowed chain = (ArrayToPointerDecay | ArraySubscript | Member | Paren)* then LValueToRValue
            ok = False
            for p in reversed(parents):
                pk = p.get("kind")
                if pk == "ImplicitCastExpr" and p.get("castKind") == "LValueToRValue":
                    ok = True
                    break
                if pk in ("ParenExpr", "ArraySubscriptExpr", "MemberExpr") or (pk == "ImplicitCastExpr" and p.get("castKind") in ("ArrayToPointerDecay", "NoOp")):
                    continue
                if pk == "UnaryExprOrTypeTraitExpr":
                    ok = True
                    break
                break
            if not ok:
                bad.append(n)
        for c in n.get("inner", []):
            walk(c, parents + [n])
    walk(tu.ast, [])
    return not bad

"""Path-feasibility covers with a model hint.

A Cover asks the solver for a MODEL of a whole path condition (uninterpreted counting functions, arrays, div/mod):
z3 usually finds one in a few seconds, but with a heavy tail that depends on the state of the solver context.  To
keep the vacuity guard deterministic, the models are searched here first - in short-lived worker processes, one
fresh z3 context per query, a small portfolio of seeds - and the values of the integer/boolean constants of the
model found are conjoined to the cover as a hint.  Adding constraints to a satisfiability check is sound
(sat(pc and hint) implies sat(pc)); when no model is found in time the cover goes to the pipeline unchanged.
"""
import os, time
import multiprocessing as mp

import z3

from ..common.core import Cover

PORTFOLIO = ({"random_seed": 0}, {"random_seed": 4, "smt.random_seed": 4}, {"random_seed": 7, "smt.random_seed": 7, "smt.arith.solver": 6})


class PathCover(Cover):
    hint = None

    def query_smt2(self):
        if self.smt2 is None:
            s = z3.Solver()
            for a in self.assumptions:
                s.add(a)
            for h in (self.hint or []):
                s.add(h)
            self.smt2 = s.to_smt2()
        return self.smt2


def _find_model(job):
    idx, smt2, per_try_ms = job
    t0 = time.time()
    for cfg in PORTFOLIO:
        ctx = z3.Context()
        s = z3.Solver(ctx=ctx)
        s.set("timeout", per_try_ms)
        for k, v in cfg.items():
            s.set(k, v)
        try:
            s.from_string(smt2)
            r = s.check()
        except Exception as e:
            return idx, None, "error %r" % (e,), time.time() - t0
        if r == z3.sat:
            m = s.model()
            vals = []
            for d in m.decls():
                if d.arity() != 0:
                    continue
                v = m[d]
                if z3.is_int_value(v):
                    vals.append((d.name(), "int", v.as_long()))
                elif z3.is_true(v) or z3.is_false(v):
                    vals.append((d.name(), "bool", z3.is_true(v)))
            return idx, vals, "sat", time.time() - t0
        if r == z3.unsat:
            return idx, None, "unsat", time.time() - t0
    return idx, None, "unknown", time.time() - t0


def add_hints(run, per_try_ms=8000):
    """find models for the PathCovers of `run` that have no hint yet"""
    todo = [o for o in run.obls if isinstance(o, PathCover) and o.hint is None and o.smt2 is None]
    if not todo:
        return
    jobs = []
    for i, o in enumerate(todo):
        s = z3.Solver()
        for a in o.assumptions:
            s.add(a)
        jobs.append((i, s.to_smt2(), per_try_ms))
    n = int(os.environ.get("VERIF_JOBS", "0")) or min(16, os.cpu_count() or 4)
    t0 = time.time()
    stats = {"sat": 0, "unsat": 0, "unknown": 0, "error": 0}
    with mp.get_context("fork").Pool(min(n, len(jobs))) as pool:
        for idx, vals, st, dt in pool.imap_unordered(_find_model, jobs, chunksize=1):
            stats[st.split()[0]] = stats.get(st.split()[0], 0) + 1
            if vals is not None:
                todo[idx].hint = [(z3.Int(nm) == v) if kind == "int" else (z3.Bool(nm) if v else z3.Not(z3.Bool(nm)))
                                  for nm, kind, v in vals]
            else:
                todo[idx].hint = []
    d = run.extra.setdefault("cover_model_search", {"covers": 0, "models_found": 0, "wall_s": 0.0})
    d["covers"] += len(todo)
    d["models_found"] += stats["sat"]
    d["wall_s"] = round(d["wall_s"] + time.time() - t0, 2)

"""Value and memory model of CVC (DESIGN 4.2).

Integers   z3 Int terms (python ints when concrete) with a conservative python interval [lo, hi]
Pointers   (block, path): block = one allocated object (global, parameter region, local, VLA); path = steps
           ('i', index) | ('f', field).  NULL has block None.  Function pointers are integer codes.
Memory     typed and field-separated: one cell per (block, shape) where shape is the path with every index
           replaced by '[]'.  A cell is a z3 Int term when the shape has no index dimension (single object,
           scalar field) and a z3 Array Int->Int otherwise, indexed by the row-major linearisation of the
           index steps (inner dimensions are the constant array bounds of the C types).
"""
import z3

from ..pyvc.values import Unsupported, Infeasible
from .ctype import TInt, TPtr, TArray, TRecord, TFunc, TVoid


class V:
    """integer value"""
    __slots__ = ("t", "lo", "hi", "b", "p2", "tz")

    def __init__(self, t, lo=None, hi=None, b=None, p2=None, tz=0):
        if isinstance(t, bool):
            t = int(t)
        if isinstance(t, int):
            lo = hi = t
            tz = 64 if t == 0 else (t & -t).bit_length() - 1
        self.tz = tz                                        # number of low bits known to be zero (two's complement)
        self.t, self.lo, self.hi, self.b = t, lo, hi, b     # b: z3 Bool when the value is a 0/1 truth value
        self.p2 = p2                                        # V c when the value is known to be 2^c (from `1 << c`)

    @property
    def concrete(self):
        return isinstance(self.t, int)

    def z(self):
        return z3.IntVal(self.t) if isinstance(self.t, int) else self.t

    def __repr__(self):
        return "V(%s,[%s,%s])" % (self.t, self.lo, self.hi)


def zt(x):
    if isinstance(x, V):
        return x.z()
    if isinstance(x, bool):
        return z3.IntVal(int(x))
    if isinstance(x, int):
        return z3.IntVal(x)
    return x


def vbool(cond):
    """V from a z3 Bool / python bool"""
    if isinstance(cond, bool):
        return V(int(cond))
    c = z3.simplify(cond)
    if z3.is_true(c):
        return V(1)
    if z3.is_false(c):
        return V(0)
    return V(z3.If(c, z3.IntVal(1), z3.IntVal(0)), 0, 1, b=c)


def truth(v):
    """z3 Bool (or python bool) for `v != 0`"""
    if isinstance(v, V):
        if v.concrete:
            return v.t != 0
        if v.b is not None:
            return v.b
        if v.lo is not None and v.lo > 0:
            return True
        if v.hi is not None and v.hi < 0:
            return True
        return v.t != 0
    if isinstance(v, Ptr):
        if isinstance(v.null, bool):
            return not v.null
        return z3.Not(v.null)
    if isinstance(v, FnPtr):
        return truth(v.code)
    raise Unsupported("truth of %r" % (v,))


class FnPtr:
    """function pointer value: integer code (0 = NULL, k = the k-th function of the TU)"""
    __slots__ = ("code",)

    def __init__(self, code):
        self.code = code if isinstance(code, V) else V(code)

    def __repr__(self):
        return "FnPtr(%s)" % (self.code.t,)


class Block:
    def __init__(self, bid, name, elem, count, kind, single=False, const=False):
        self.id, self.name, self.elem, self.kind, self.single, self.const = bid, name, elem, kind, single, const
        self.count = count if isinstance(count, V) else V(count)      # number of root elements
        self.live = True
        self.init = None           # optional dict shape -> python list (constant initialiser)
        self.scope = None

    def __repr__(self):
        return "<blk %s>" % self.name


class Ptr:
    """data pointer / lvalue location"""
    __slots__ = ("block", "steps", "ctype", "null", "view")

    def __init__(self, block, steps, ctype, null=False, view=None):
        self.block, self.steps, self.ctype, self.null = block, tuple(steps), ctype, null
        self.view = view           # pointee type the program currently sees (after casts to void*/char*), or None

    @staticmethod
    def NULL(ctype=None):
        return Ptr(None, (), ctype or TVoid(), null=True)

    def field(self, name, ftype):
        return Ptr(self.block, self.steps + (("f", name),), ftype, self.null)

    def index0(self, etype):
        """array lvalue -> pointer to its first element"""
        return Ptr(self.block, self.steps + (("i", V(0)),), etype, self.null, self.view)

    def with_view(self, view):
        return Ptr(self.block, self.steps, self.ctype, self.null, view)

    def shape(self):
        return tuple("[]" if k == "i" else v for k, v in self.steps)

    def __repr__(self):
        if self.block is None:
            return "NULL"
        return "&%s%s" % (self.block.name, "".join("[%s]" % (v.t,) if k == "i" else ".%s" % v for k, v in self.steps))


class OffsetTok:
    """value of an offsetof(...) expression whose operands clang 14's JSON does not expose (container_of idiom only)"""

    def __repr__(self):
        return "<offsetof>"


class VaTok:
    """a va_list object (opaque)"""

    def __repr__(self):
        return "<va_list>"


class Uninit:
    def __repr__(self):
        return "<uninit>"


UNINIT = Uninit()


def leaves(ctype, prefix=()):
    """(shape suffix, dims, leaf type) of every scalar inside a type; dims = constant bounds of the '[]' in the suffix"""
    if isinstance(ctype, (TInt, TPtr)):
        yield prefix, (), ctype
    elif isinstance(ctype, TArray):
        if ctype.n is None:
            raise Unsupported("array without constant bound inside an aggregate")
        for sh, dims, lt in leaves(ctype.elem, prefix + ("[]",)):
            yield sh, (ctype.n,) + dims, lt
    elif isinstance(ctype, TRecord):
        if ctype.rec.tag == "union":
            raise Unsupported("union %s in memory model" % ctype.rec.name)
        for f in ctype.rec.fields:
            if f.bitfield:
                raise Unsupported("bit-field %s" % f.name)
            for x in leaves(f.ctype, prefix + (f.name,)):
                yield x
    else:
        raise Unsupported("leaf of %r" % (ctype,))


class State:
    """memory + ghost state of one path"""

    def __init__(self):
        self.mem = {}            # (block id, shape) -> z3 term (Int or Array)
        self.pmem = {}           # (block id, shape) -> Ptr : data-pointer members of single objects
        self.ver = {}            # (block id, shape) -> havoc version
        self.blocks = {}         # id -> Block
        self.ghost = {}
        self.written = set()     # (block id, shape) stored to since the last reset

    def snapshot(self):
        s = State()
        s.mem = dict(self.mem)
        s.pmem = dict(self.pmem)
        s.ver = dict(self.ver)
        s.blocks = self.blocks
        s.ghost = dict(self.ghost)
        s.written = set(self.written)
        return s

"""Debug helper: compact print of a clang JSON AST subtree (python3 -m engine.cvc.astshow FILE.json NAME)."""
import json, sys


def show(n, ind=0, out=sys.stdout):
    k = n.get('kind')
    extra = []
    for key in ('name', 'opcode', 'value', 'castKind', 'valueCategory', 'isArrow', 'isPostfix', 'computeLHSType',
                'computeResultType', 'argType', 'tagUsed', 'storageClass', 'init'):
        if key in n:
            extra.append('%s=%s' % (key, n[key]))
    t = n.get('type', {})
    if t:
        extra.append('T=%s|%s' % (t.get('qualType'), t.get('desugaredQualType')))
    if 'referencedDecl' in n:
        extra.append('ref=%s:%s:%s' % (n['referencedDecl']['kind'], n['referencedDecl'].get('name'), n['referencedDecl']['id']))
    if 'referencedMemberDecl' in n:
        extra.append('mref=%s' % n['referencedMemberDecl'])
    out.write(' ' * ind + str(k) + ' ' + ' '.join(extra) + '\n')
    for c in n.get('inner', []):
        show(c, ind + 1, out)


if __name__ == "__main__":
    d = json.load(open(sys.argv[1]))
    for n in d['inner']:
        if n.get('name') == sys.argv[2]:
            show(n)

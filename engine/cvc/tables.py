"""Constant integer tables shared by the C memory model and the spec oracles.

A table is the uninterpreted function of engine.common.core.uf_table (named by a hash of the contents, ground
axioms f(k) = v_k added by the pipeline to every query it occurs in): two tables with equal contents are the same
symbol, and a lookup at a symbolic index needs no case split when code and spec look up the same index.
"""
import z3

from ..common import core


def select(values, idx, assume):
    """values[idx]; `assume` receives the ground axioms so that the engine's own feasibility checks know them too"""
    if isinstance(idx, int):
        return values[idx]
    vals = [int(v) for v in values]
    get = core.uf_table(vals)
    term = get(idx)
    f = term.decl()
    for k, v in enumerate(vals):
        assume(f(z3.IntVal(k)) == v)
    return term

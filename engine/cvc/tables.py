"""Constant integer tables shared by the C memory model and the spec oracles.

A table with given contents is ONE z3 array constant (named by a hash of the contents) plus the ground
facts `T[k] == v_k`; two tables with equal contents are therefore the same term, and a lookup at a symbolic
index needs no case split when code and spec look up the same index.
"""
import hashlib
import z3

_T = {}


def table(values):
    vals = tuple(int(v) for v in values)
    if vals not in _T:
        h = hashlib.sha1(repr(vals).encode()).hexdigest()[:10]
        arr = z3.Array("tbl!%s" % h, z3.IntSort(), z3.IntSort())
        facts = [z3.Select(arr, k) == v for k, v in enumerate(vals)]
        _T[vals] = (arr, facts)
    return _T[vals]


def select(values, idx, assume):
    """values[idx]; `assume` receives the defining facts (once per call; callers dedupe)"""
    if isinstance(idx, int):
        return values[idx]
    arr, facts = table(values)
    for f in facts:
        assume(f)
    return z3.Select(arr, idx)

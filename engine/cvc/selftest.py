"""CVC self test:  python3-vt -m engine.cvc.selftest [C19 C07 C20 C08] [--fuzz] [--mutants]

1. wrong post-conditions: each property part lists deliberately wrong variants of its contracts
   (`WRONG_POSTS = [(label, build(run), expected failing clause substring)]`); every one must be REFUTED
   (at least one obligation whose clause contains the substring comes back `failed`, i.e. z3 finds a counter-model).
2. --mutants: the property-breaking edits of `MUTANTS = [(file, old, new, expected obligation substring)]` are applied to a
   scratch copy of src/ (mktemp -d, VERIF_REPO/VERIF_OUT redirected, directory removed afterwards) and `./check` must
   exit 1 with a confirmed VIOLATION line naming the expected obligation.
3. --mutants also applies `HARMLESS = [(label, diff)]` (must stay exit 0) and `SEEDED = [(label, diff, obligation)]` (must exit 1, confirmed)
   patches of a property part.
Exit 0 iff every control behaved as expected.
"""
import sys, os, importlib, subprocess, tempfile, shutil, json, glob, time

from ..common import core
from ..common.core import Run, Cover, discharge


def wrong_posts(pid):
    mod = importlib.import_module("props.cparts.%s" % pid)
    ok = True
    for label, build, expect in getattr(mod, "WRONG_POSTS", []):
        run = Run(pid, "quick", 0)
        t0 = time.time()
        build(run)
        goals = [o for o in run.obls if not isinstance(o, Cover)]
        discharge(goals, 30)
        failed = [o for o in goals if o.status == "failed" and expect in o.name]
        other = [o for o in goals if o.status == "failed" and expect not in o.name]
        res = "refuted" if failed else "NOT REFUTED"
        ok = ok and bool(failed)
        print("wrong-post %-6s %-40s %s (%d/%d obligations failed on %r; %d other failures) %.1fs"
              % (pid, label, res, len(failed), len(goals), expect, len(other), time.time() - t0))
    return ok


def mutants(pid):
    mod = importlib.import_module("props.cparts.%s" % pid)
    ok = True
    for (f, old, new, expect) in getattr(mod, "MUTANTS", []):
        tmp = tempfile.mkdtemp(prefix="verif-cvc-mut-")
        try:
            subprocess.run(["rsync", "-a", "--exclude", ".git", os.path.join(core.REPO, "src"), tmp + "/"], check=True)
            p = os.path.join(tmp, f)
            s = open(p).read()
            if s.count(old) != 1:
                print("mutant %s: edit %r matches %d times in %s" % (pid, old, s.count(old), f))
                ok = False
                continue
            open(p, "w").write(s.replace(old, new))
            env = dict(os.environ, VERIF_REPO=tmp, VERIF_OUT=os.path.join(tmp, "out"), PYTHONPATH=core.VERIF)
            t0 = time.time()
            r = subprocess.run([sys.executable, "-m", "engine.cli", getattr(mod, "CHECK_ID", "cparts." + pid)], cwd=core.VERIF, env=env,
                               capture_output=True, text=True)
            base = getattr(mod, "BASELINE_VIOLATIONS", ())      # obligations that already fail on the unchanged tree (reported findings)
            viol = [l for l in r.stdout.splitlines() if l.startswith("VIOLATION") and "no-failing-input-found" not in l
                    and not any(b in l for b in base)]
            hit = [l for l in viol if expect.replace("/", "_").replace("[", "_") in l or expect in l]
            good = r.returncode == 1 and bool(hit)
            ok = ok and good
            print("mutant %-6s %s: %r -> %r : exit=%d, %d confirmed VIOLATION lines, %d on %r  %s  %.0fs"
                  % (pid, os.path.basename(f), old[:40], new[:40], r.returncode, len(viol), len(hit), expect,
                     "KILLED" if good else "SURVIVED/UNEXPECTED", time.time() - t0))
            if not good:
                print(r.stdout[-1500:], r.stderr[-1500:])
        finally:
            shutil.rmtree(tmp, ignore_errors=True)
    return ok


def patches(pid):
    """HARMLESS = [(label, diff)]: property-preserving refactorings, `./check` must exit 0 on the patched scratch copy (no false alarm);
    SEEDED = [(label, diff, obligation substring)]: must exit 1 with a confirmed VIOLATION line naming the obligation.
    Diffs are relative to /verif and applied with `patch -p1`."""
    mod = importlib.import_module("props.cparts.%s" % pid)
    ok = True
    todo = [(l, d, None) for (l, d) in getattr(mod, "HARMLESS", [])] + list(getattr(mod, "SEEDED", []))
    for label, diff, expect in todo:
        tmp = tempfile.mkdtemp(prefix="verif-cvc-mut-")
        try:
            subprocess.run(["rsync", "-a", "--exclude", ".git", os.path.join(core.REPO, "src"), tmp + "/"], check=True)
            pr = subprocess.run(["patch", "-p1", "-s", "-i", os.path.join(core.VERIF, diff)], cwd=tmp, capture_output=True, text=True)
            if pr.returncode != 0:
                print("patch %s: %s does not apply: %s" % (pid, diff, (pr.stdout + pr.stderr)[-300:]))
                ok = False
                continue
            env = dict(os.environ, VERIF_REPO=tmp, VERIF_OUT=os.path.join(tmp, "out"), PYTHONPATH=core.VERIF)
            t0 = time.time()
            r = subprocess.run([sys.executable, "-m", "engine.cli", getattr(mod, "CHECK_ID", "cparts." + pid)], cwd=core.VERIF, env=env,
                               capture_output=True, text=True)
            if expect is None:
                good = r.returncode == 0
                print("harmless %-6s %s: exit=%d  %s  %.0fs" % (pid, label, r.returncode, "STAYS GREEN" if good else "FALSE ALARM", time.time() - t0))
            else:
                viol = [l for l in r.stdout.splitlines() if l.startswith("VIOLATION") and "no-failing-input-found" not in l]
                hit = [l for l in viol if expect in l]
                good = r.returncode == 1 and bool(hit)
                print("seeded %-6s %s: exit=%d, %d confirmed VIOLATION lines, %d on %r  %s  %.0fs"
                      % (pid, label, r.returncode, len(viol), len(hit), expect, "CAUGHT" if good else "MISSED/UNCONFIRMED", time.time() - t0))
            ok = ok and good
            if not good:
                print(r.stdout[-1500:], r.stderr[-1500:])
        finally:
            shutil.rmtree(tmp, ignore_errors=True)
    return ok


def fuzz(pid, seed):
    """positive control of the replay machinery: on the unchanged tree the real code agrees with the oracle on seeded
    random inputs (no false alarm from harness, oracle or witness plumbing)"""
    mod = importlib.import_module("props.cparts.%s" % pid)
    t0 = time.time()
    if hasattr(mod, "FUZZ_NATIVE"):
        r = mod.FUZZ_NATIVE(seed)
        print("fuzz %-6s native search: %s  %.0fs" % (pid, "agree" if r is None else "DIFFER %r" % (r,), time.time() - t0))
        return r is None
    bad = []
    n = 0
    for inp in getattr(mod, "FUZZ", lambda s: [])(seed):
        n += 1
        res = mod.replay_c({"inputs": inp})
        if res.get("confirmed") or res.get("error"):
            bad.append((inp, res))
    print("fuzz %-6s %d native replays on random inputs: %s  %.0fs" % (pid, n, "all agree with the oracle" if not bad else "DIFFER %r" % bad[:2], time.time() - t0))
    return not bad


def main(argv):
    pids = [a for a in argv if not a.startswith("--")] or ["C19", "C07", "C20", "C08"]
    ok = True
    for pid in pids:
        try:
            importlib.import_module("props.cparts.%s" % pid)
        except ImportError:
            continue
        ok = wrong_posts(pid) and ok
        if "--fuzz" in argv:
            ok = fuzz(pid, int(os.environ.get("VERIF_SEED", "0") or 0)) and ok
        if "--mutants" in argv:
            ok = mutants(pid) and ok
            ok = patches(pid) and ok
    print("selftest:", "ok" if ok else "FAILED")
    return 0 if ok else 1


if __name__ == "__main__":
    sys.exit(main(sys.argv[1:]))

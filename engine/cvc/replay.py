"""Native replay for C: a generated harness that #includes the real .c file (or the verbatim extract) is compiled
with clang -fsanitize=address,undefined in a mktemp directory (removed afterwards) and run on the model's inputs."""
import os, re, shutil, subprocess, tempfile

from ..common import core
from . import frontend

SAN = ["-fsanitize=address,undefined", "-fno-sanitize-recover=undefined", "-fno-omit-frame-pointer", "-g", "-O0", "-w"]
MSAN = ["-fsanitize=memory", "-fno-omit-frame-pointer", "-g", "-O0", "-w"]


def run_harness(source, cflags=(), argv=(), timeout=60, stdin=None, ubsan_halt=True):
    """-> dict(rc, stdout, stderr, sanitizer) ; rc None when the build failed"""
    d = tempfile.mkdtemp(prefix="verif-cvc-")
    try:
        src = os.path.join(d, "harness.c")
        with open(src, "w") as f:
            f.write(source)
        exe = os.path.join(d, "harness")
        cmd = ["clang"] + SAN + list(cflags) + [src, "-o", exe]
        b = subprocess.run(cmd, capture_output=True, text=True, timeout=300)
        if b.returncode != 0:
            return {"rc": None, "build_error": b.stderr[-3000:], "cmd": " ".join(cmd)}
        env = dict(os.environ, ASAN_OPTIONS="detect_leaks=0:abort_on_error=0:detect_stack_use_after_return=0",
                   UBSAN_OPTIONS="print_stacktrace=0:halt_on_error=%d" % (1 if ubsan_halt else 0))
        try:
            r = subprocess.run([exe] + [str(a) for a in argv], capture_output=True, text=True, timeout=timeout, env=env, input=stdin)
        except subprocess.TimeoutExpired:
            return {"rc": "timeout", "stdout": "", "stderr": "", "sanitizer": None, "cmd": " ".join(cmd)}
        san = None
        m = re.search(r"(AddressSanitizer: [^\n]*|runtime error: [^\n]*)", r.stderr)
        if not ubsan_halt:
            m = re.search(r"(AddressSanitizer: [^\n]*)", r.stderr) or m
        if m:
            san = m.group(1).replace(d, "<tmp>")
        return {"rc": r.returncode, "stdout": r.stdout, "stderr": r.stderr[-3000:].replace(d, "<tmp>"), "sanitizer": san,
                "cmd": " ".join(cmd).replace(d, "<tmp>")}
    finally:
        shutil.rmtree(d, ignore_errors=True)


class Harness:
    """compile once, run many times:  with Harness(source, flags) as h:  h.run(argv)"""

    def __init__(self, source, cflags=(), san=None):
        self.source, self.cflags = source, list(cflags)
        self.san = SAN if san is None else list(san)
        self.dir = None
        self.build = None

    def __enter__(self):
        self.dir = tempfile.mkdtemp(prefix="verif-cvc-")
        src = os.path.join(self.dir, "harness.c")
        with open(src, "w") as f:
            f.write(self.source)
        self.exe = os.path.join(self.dir, "harness")
        cmd = ["clang"] + self.san + self.cflags + [src, "-o", self.exe]
        self.cmd = " ".join(cmd).replace(self.dir, "<tmp>")
        b = subprocess.run(cmd, capture_output=True, text=True, timeout=300)
        self.build = None if b.returncode == 0 else b.stderr[-3000:]
        return self

    def __exit__(self, *a):
        shutil.rmtree(self.dir, ignore_errors=True)

    def run(self, argv=(), timeout=60, stdin=None):
        if self.build is not None:
            return {"rc": None, "build_error": self.build, "cmd": self.cmd}
        env = dict(os.environ, ASAN_OPTIONS="detect_leaks=0:abort_on_error=0:detect_stack_use_after_return=0",
                   UBSAN_OPTIONS="print_stacktrace=0:halt_on_error=1")
        try:
            r = subprocess.run([self.exe] + [str(a) for a in argv], capture_output=True, text=True, timeout=timeout, env=env, input=stdin)
        except subprocess.TimeoutExpired:
            return {"rc": "timeout", "stdout": "", "stderr": "", "sanitizer": None, "cmd": self.cmd}
        san = None
        m = re.search(r"(AddressSanitizer: [^\n]*|MemorySanitizer: [^\n]*|runtime error: [^\n]*)", r.stderr)
        if m:
            san = m.group(1).replace(self.dir, "<tmp>")
            loc = re.search(r"#\d+ 0x[0-9a-f]+ in (\w+) ([^\s]+:\d+)", r.stderr)
            if loc:
                san += " [in %s %s]" % (loc.group(1), loc.group(2).replace(self.dir, "<tmp>"))
        return {"rc": r.returncode, "stdout": r.stdout, "stderr": r.stderr[-3000:].replace(self.dir, "<tmp>"), "sanitizer": san,
                "cmd": self.cmd}


def host_flags():
    return ["-I", frontend.repo("src/shared/libosmocore/include"), "-I", os.path.join(frontend.SHIM, "host", "a", "b")]


def cut_verbatim(relfile, name):
    """(text, first line) of a function cut from the real file"""
    path = frontend.repo(relfile)
    src = open(path, encoding="utf-8", errors="replace").read()
    s, e, line = frontend.cut_function(src, name)
    # the file-local macros the function text uses come along (verbatim directives of the same file; a duplicate of an included
    # header's macro is only a redefinition warning)
    ctx, _names = frontend.file_local_context(src, path, [(s, e)], [src[s:e]], "", kinds=("define",))
    if ctx:
        return ctx + '#line %d "%s"\n' % (line, path) + src[s:e], line
    return src[s:e], line


def kv_output(stdout):
    """parse `key=value` tokens printed by a harness"""
    out = {}
    for tok in stdout.split():
        if "=" in tok:
            k, v = tok.split("=", 1)
            try:
                out[k] = int(v)
            except ValueError:
                out[k] = v
    return out

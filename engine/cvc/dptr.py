"""CVC add-on: data pointers that live in memory, and prefix execution.  Used by C11 (contracts/c/mframe.py).

The base engine (interp.py) refuses to load a data pointer from memory.  The multiframe tables are tables OF pointers
(`sched_set_for_task[]` -> `mf_*[]` -> `*_sched_set[]`;  `layouts[].frames` -> `frame_*[]`;  `sched->ts[tn]->mf_layout`),
so `PtrEngine` adds exactly two sources of pointer values, both explicit:

  (1) constant tables      an initialiser `array`, `&object`, "string" or NULL of a pointer-typed leaf of a constant
                           global is recorded as a small integer code (semantic InitListExpr of the REAL file).  A load at
                           a concrete index yields the real pointer (`&array[0]`) when the target object is defined in the
                           translation unit; a load at a symbolic index, or of a pointer to an object that is only declared
                           (`extern const struct tdma_sched_item nb_sched_set[]`), yields an OPAQUE pointer code: it can be
                           compared with NULL and passed on, any dereference of it is `Unsupported` (exit 2).
  (2) contract-declared    `E.ptr_cells[(block id, shape)] = Ptr`: the contract's pre-state says "every element of this
      pointer cells        cell holds this pointer (or NULL, when the Ptr carries a symbolic null flag)".

Everything else (a store of a data pointer, a load from an undeclared pointer cell) stays `Unsupported`.

Prefix execution: `E.stop_after = <statement node id>` ends the function right after that statement has been executed
(as if it returned there; `E.stopped` tells the contract).  Used for the frame-lookup sites of sched_trx.c, whose
functions continue with list walks and indirect calls that are outside property C11.

`PtrEngine.last_return` keeps the value returned by the verified function (pointer-returning functions).
"""
import contextlib, os

import z3

from ..common import core
from ..pyvc.values import Unsupported
from . import contract as K
from . import frontend, tables
from .ctype import TPtr, TFunc, TArray, TRecord, HOST
from .interp import Engine, _Return
from .values import V, zt, FnPtr, Ptr


class PtrEngine(Engine):
    def __init__(self, tu):
        self.dnames = []                 # code k (1-based) -> ("g", global name) | ("s", string)   (stable across paths)
        Engine.__init__(self, tu)
        # sizeof values the engine computed are confirmed by clang with THIS unit's flags (dptr.verify), not by
        # frontend.check_layout, which only knows the fw/host/extract flag sets
        self.layout_checks = _Recorder()
        _PENDING_LAYOUT.append((tu, self.layout_checks))

    def reset(self, prefix):
        Engine.reset(self, prefix)
        self.ptr_cells = {}
        self.ptr_written = set()         # pointer cells stored to on this path
        self.stop_after = None           # statement node id (set by the contract's params() on every path)
        self.stopped = False
        self.last_return = None

    # ---- (1) pointer-valued initialisers of constant tables
    def dcode(self, key):
        if key not in self.dnames:
            self.dnames.append(key)
        return self.dnames.index(key) + 1

    def _const_fnptr(self, n):
        k = n.get("kind")
        if k == "DeclRefExpr" and n.get("referencedDecl", {}).get("kind") == "VarDecl":
            return self.dcode(("g", n["referencedDecl"]["name"]))
        if k == "StringLiteral":
            return self.dcode(("s", n.get("value", "")))
        return Engine._const_fnptr(self, n)

    def const_init(self, node, ct):
        return Engine.const_init(self, _explicit_filler(node, self.tu), ct)

    def global_block(self, name):
        if name not in self.globals:
            node = self.tu.globals.get(name)
            if node is not None and any((c.get("kind") or "").endswith("Comment") for c in node.get("inner", [])):
                # a documentation comment attached to the declaration is not its initialiser
                clean = dict(node)
                clean["inner"] = [c for c in node["inner"] if not (c.get("kind") or "").endswith("Comment")]
                self.tu.globals[name] = clean
        return Engine.global_block(self, name)

    def resolve(self, code, t):
        """pointer value of a concrete code read from a pointer-typed leaf of type t"""
        if code == 0:
            return Ptr.NULL(t.to)
        kind, name = self.dnames[code - 1]
        if kind == "g":
            node = self.tu.globals.get(name)
            if node is not None:
                ct = self.tt.parse(node["type"]["qualType"])
                if isinstance(ct, TArray):
                    if ct.n is not None:
                        b = self.global_block(name)
                        return Ptr(b, (("i", V(0)),), b.elem)
                else:
                    b = self.global_block(name)
                    return Ptr(b, (("i", V(0)),), b.elem)
        return FnPtr(V(code))            # opaque: declared-only object or string literal

    def load(self, ptr, node=None):
        if ptr.block is not None:
            _, t = self.walk(ptr)
            if isinstance(t, TPtr) and not isinstance(t.to, TFunc):
                b, shape = ptr.block, ptr.shape()
                key = (b.id, shape)
                in_table = key not in self.state.mem and key not in getattr(self.state, "pmem", {}) and b.init is not None and shape in b.init
                if key in self.ptr_cells or in_table:
                    return self.load_dptr(ptr, t, node)
        return Engine.load(self, ptr, node)

    def load_dptr(self, ptr, t, node):
        lin, _ = self.check_access(ptr, node, "load")
        shape = ptr.shape()
        b = ptr.block
        key = (b.id, shape)
        if key in self.ptr_cells:
            return self.ptr_cells[key]
        if key not in self.state.mem and b.init is not None and shape in b.init:
            tab = b.init[shape]
            vals = [tab.get(k, 0) for k in range(max(tab) + 1)]
            if lin.concrete:
                return self.resolve(vals[lin.t], t)
            term = tables.select(vals, zt(lin), self.assume)
            self.notes.add("a data pointer read from a constant table at a symbolic index is an opaque code (compared / passed on, never dereferenced)")
            return FnPtr(V(term, min(vals), max(vals)))
        raise Unsupported("load of a data pointer from memory that is neither a constant table nor a pointer cell declared by the contract (%r)" % (ptr,))

    def store(self, ptr, val, node=None):
        """a data pointer stored into a pointer cell the contract declared (or into any scalar pointer member): kept in
        ptr_cells, so that the load above sees it"""
        if isinstance(val, Ptr) and ptr.block is not None:
            _, t = self.walk(ptr)
            if isinstance(t, TPtr) and not isinstance(t.to, TFunc):
                self.check_access(ptr, node, "store")
                b, shape = ptr.block, ptr.shape()
                if b.const:
                    self.require("mem", "store.to_const_object", False, node)
                if not self.is_scalar_cell(b, shape):
                    raise Unsupported("store of a data pointer into an array cell (%r)" % (ptr,))
                self.guard_write(b, shape, node)
                self.ptr_cells[(b.id, shape)] = val
                self.state.written.add((b.id, shape))
                self.ptr_written.add((b.id, shape))
                return
        return Engine.store(self, ptr, val, node)

    # ---- prefix execution
    def exec(self, s, fr):
        r = Engine.exec(self, s, fr)
        if self.stop_after is not None and s.get("id") == self.stop_after and len(self.frames) == 1:
            self.stopped = True
            raise _Return(None)
        return r

    def call_function(self, name, args, node=None):
        ret = Engine.call_function(self, name, args, node)
        if len(self.frames) == 0:
            self.last_return = ret
        return ret


def _explicit_filler(n, tu):
    """clang's JSON prints a partially initialised array as `array_filler: [filler, e0, e1, ...]` (no `inner`): the filler
    expression followed by the explicitly initialised leading elements (semantic form, designators resolved).  Rewritten to
    `inner: [e0, e1, ...]`; the base engine zero-fills the rest, which is what an ImplicitValueInitExpr filler means.
    Integer constant expressions are folded here (typed, see safe_const) into literals."""
    if not isinstance(n, dict):
        return n
    if n.get("kind") == "InitListExpr":
        m = dict(n)
        if "array_filler" in n and not n.get("inner"):
            af = [x for x in n["array_filler"] if x.get("kind")]
            if not af or af[0].get("kind") != "ImplicitValueInitExpr":
                raise Unsupported("array filler that is not a value-initialisation")
            del m["array_filler"]
            items = af[1:]
        else:
            items = n.get("inner", [])
        m["inner"] = [_explicit_filler(x, tu) for x in items]
        return m
    if n.get("kind") in ("BinaryOperator", "ParenExpr", "CStyleCastExpr", "ImplicitCastExpr", "UnaryOperator", "ConstantExpr"):
        v = safe_const(n, tu)
        if v is not None:
            return {"kind": "IntegerLiteral", "value": str(v), "type": n.get("type"), "id": n.get("id")}
    return n


def safe_const(node, tu):
    """value of an integer constant expression, evaluated operator by operator in the node's C type as printed by clang
    (unsigned: mod 2^N; a signed result outside the type: None).  frontend.const_value evaluates every operator of its
    dispatch table eagerly, so `a | b` on two 2^36-sized masks computes `a << b`."""
    from .ctype import TInt
    k = node.get("kind")

    def typed(v):
        if v is None:
            return None
        try:
            t = tu.type_of(node)
        except Exception:
            return None
        if not isinstance(t, TInt):
            return None
        if t.lo <= v <= t.hi:
            return v
        if t.signed:
            return None
        return v % (1 << t.bits)
    if k in ("IntegerLiteral", "CharacterLiteral"):
        return int(node["value"])
    if k == "ConstantExpr" and "value" in node:
        return int(node["value"])
    if k in ("ParenExpr", "ConstantExpr"):
        return safe_const(node["inner"][0], tu)
    if k in ("ImplicitCastExpr", "CStyleCastExpr"):
        if node.get("castKind") not in ("IntegralCast", "NoOp", "LValueToRValue"):
            return None
        return typed(safe_const(node["inner"][0], tu))
    if k == "DeclRefExpr":
        rd = node.get("referencedDecl", {})
        return tu.enumval.get(rd.get("id")) if rd.get("kind") == "EnumConstantDecl" else None
    if k == "UnaryOperator" and node.get("opcode") in ("-", "+", "~"):
        v = safe_const(node["inner"][0], tu)
        if v is None:
            return None
        return typed({"-": -v, "+": v, "~": ~v}[node["opcode"]])
    if k == "BinaryOperator":
        a, b = safe_const(node["inner"][0], tu), safe_const(node["inner"][1], tu)
        if a is None or b is None:
            return None
        op = node["opcode"]
        if op == "+":
            return typed(a + b)
        if op == "-":
            return typed(a - b)
        if op == "*":
            return typed(a * b)
        if op == "|":
            return typed(a | b)
        if op == "&":
            return typed(a & b)
        if op == "^":
            return typed(a ^ b)
        if op == "<<":
            return typed(a << b) if 0 <= b < 64 and a >= 0 else None
        if op == ">>":
            return typed(a >> b) if 0 <= b < 64 and a >= 0 else None
        return None
    return None


@contextlib.contextmanager
def use_engine(cls=PtrEngine):
    """K.verify builds its engine with the class bound to the name `Engine` in engine/cvc/contract.py; this selects
    the add-on engine for the duration of one verify() call (restored afterwards)."""
    old = K.Engine
    K.Engine = cls
    try:
        yield
    finally:
        K.Engine = old


class _Recorder(dict):
    """records like a dict, but is `empty` for contract.note_engine (which would run frontend.check_layout)"""

    def __bool__(self):
        return False


_PENDING_LAYOUT = []


def verify(run, prop, tu, contract_cls, **kw):
    del _PENDING_LAYOUT[:]
    with use_engine(PtrEngine):
        r = K.verify(run, prop, tu, contract_cls, **kw)
    items = {}
    for t, rec in _PENDING_LAYOUT:
        if t is tu:
            items.update(dict.items(rec))
    del _PENDING_LAYOUT[:]
    if items:
        check_layout(tu, sorted(items.items()))
        run.extra.setdefault("layout_confirmed_by_clang", {}).update(items)
    return r


def check_layout(tu, items):
    """clang confirms the sizeof values the engine computed, with the flags the unit was parsed with"""
    import subprocess
    if not hasattr(tu, "clang_args"):
        return frontend.check_layout(tu, items)
    lines = ["_Static_assert(sizeof(%s) == %d, \"cvc layout\");" % (e, n) for e, n in items]
    text = (tu.stdin_text if tu.stdin_text is not None else '#include "%s"\n' % frontend.repo(tu.relfile)) + "\n" + "\n".join(lines) + "\n"
    p = subprocess.run(["clang", "-fsyntax-only", "-x", "c"] + tu.clang_args + ["-"], input=text, capture_output=True, text=True)
    if p.returncode != 0:
        raise Unsupported("clang disagrees with the engine's record layout: %s" % p.stderr.strip()[-800:])


# ---------------------------------------------------------------------- front end variants

TRXCON_INC = "src/host/trxcon/include"
MFRAME_SHIM = "trxcon_mframe_shim.h"


def trxcon_flags():
    return ["-include", os.path.join(frontend.SHIM, MFRAME_SHIM), "-I", frontend.repo("src/shared/libosmocore/include"),
            "-I", os.path.join(frontend.SHIM, "host", "a", "b"), "-I", frontend.repo(TRXCON_INC)]


_CACHE = {}


def parse_trxcon_whole(relfile):
    """the real trxcon file parsed whole behind the macro shim (shim/trxcon_mframe_shim.h)"""
    key = (core.REPO, relfile)
    if key in _CACHE:
        return _CACHE[key]
    path = frontend.repo(relfile)
    if not os.path.exists(path):
        raise Unsupported("source file %s missing" % path)
    args = trxcon_flags() + [path]
    ast, _ = frontend._run_clang(args)
    tu = frontend.TU(ast, HOST, relfile, "host", "clang -fsyntax-only -Xclang -ast-dump=json " + " ".join(args))
    tu.shim_text = open(os.path.join(frontend.SHIM, MFRAME_SHIM)).read()
    tu.clang_args, tu.stdin_text = trxcon_flags(), None
    _CACHE[key] = tu
    return tu


def parse_tables_plus_cut(tables_file, cut_file, names, prelude_file, defines=None):
    """TU = #include "<real tables_file>"  +  prelude  +  functions `names` cut verbatim from cut_file (with #line).
    The functions see the real (static) tables of tables_file."""
    import hashlib
    key = (core.REPO, tables_file, cut_file, tuple(names), prelude_file, defines)
    if key in _CACHE:
        return _CACHE[key]
    path = frontend.repo(cut_file)
    if not os.path.exists(path) or not os.path.exists(frontend.repo(tables_file)):
        raise Unsupported("source file %s missing" % path)
    src = open(path, encoding="utf-8", errors="replace").read()
    prelude = open(os.path.join(frontend.SHIM, prelude_file)).read()
    parts = ['#include "%s"\n#line 1 "shim/%s"\n%s' % (frontend.repo(tables_file), prelude_file, prelude)]
    if defines:
        parts.append(frontend.cut_defines(cut_file, defines))      # #define lines of the real file, verbatim (with #line)
    info = {"file": cut_file, "tables_included_whole": tables_file, "prelude": "shim/" + prelude_file,
            "prelude_sha256": hashlib.sha256(prelude.encode()).hexdigest(), "functions": {}, "defines_cut_verbatim": defines,
            "dropped": "logging macro calls (LOGP*) expand to nothing: their argument expressions are not evaluated; "
                       "everything else is the unmodified text"}
    texts = {}
    for nm in names:
        s, e, line = frontend.cut_function(src, nm)
        # frontend.cut_function stops skipping a preceding multi-line #define after its first line: skip its continuation lines
        while True:
            prev_nl = src.rfind("\n", 0, s)
            prev_line = src[src.rfind("\n", 0, max(prev_nl, 0)) + 1:max(prev_nl, 0)]
            if prev_nl >= 0 and src[prev_nl + 1:s].strip() == "" and prev_line.rstrip().endswith("\\"):
                nxt = src.find("\n", s)
                s, line = nxt + 1, line + 1
                while s < e and src[s] in " \t\r\n":
                    if src[s] == "\n":
                        line += 1
                    s += 1
            else:
                break
        text = src[s:e]
        texts[nm] = text
        info["functions"][nm] = {"first_line": line, "last_line": line + text.count("\n"),
                                 "sha256": hashlib.sha256(text.encode()).hexdigest(), "bytes": len(text)}
        parts.append('#line %d "%s"\n%s\n' % (line, path, text))
    tu_text = "\n".join(parts)
    args = ["-x", "c"] + trxcon_flags() + ["-"]
    ast, _ = frontend._run_clang(args, stdin_text=tu_text)
    tu = frontend.TU(ast, HOST, cut_file, "extract", "clang -fsyntax-only -Xclang -ast-dump=json " + " ".join(args) +
                     " < (#include real %s + prelude + verbatim cut)" % tables_file, extraction=info, source_text=tu_text)
    tu.cut_texts = texts
    tu.prelude_text = prelude
    tu.clang_args, tu.stdin_text = trxcon_flags(), tu_text
    _CACHE[key] = tu
    return tu


# ---------------------------------------------------------------------- table extraction (semantic InitListExpr)

class Extractor:
    """constant tables of one translation unit; pointer-typed columns hold codes shared by all tables of the unit:
    0 = NULL, k -> names[k-1] = ("g", global name) | ("s", string literal)"""

    def __init__(self, tu):
        self.tu, self.E = tu, PtrEngine(tu)

    @property
    def names(self):
        return self.E.dnames

    def target(self, code):
        return None if code == 0 else self.E.dnames[code - 1][1]

    def table(self, name):
        """(row count, {column: [value per row]}) of the constant global `name` (a scalar object is one row)"""
        b = self.E.global_block(name)
        if b.init is None:
            raise Unsupported("%s has no constant initialiser in %s" % (name, self.tu.relfile))
        n = b.count.t
        cols = {}
        for shape, tab in b.init.items():
            if shape.count("[]") != 1:
                raise Unsupported("table %s has a nested array column %r" % (name, shape))
            cols[".".join(shape[1:])] = [tab.get(k, 0) for k in range(n)]
            if max(tab) >= n:
                raise Unsupported("table %s: initialiser index beyond the array bound" % name)
        return n, cols


def line_of(tu, name):
    g = tu.globals.get(name) or {}
    loc = g.get("loc", {})
    return loc.get("line") or loc.get("expansionLoc", {}).get("line") or loc.get("spellingLoc", {}).get("line") or 0

"""C types as read off clang's AST (qualType strings + record/typedef/enum tables of the TU).

Only what the memory model needs: integer types with width and signedness for the *target the TU was
parsed for* (ARM ILP32 for the firmware, LP64 for host code), pointers, arrays, records, functions.
"""
import re

from ..pyvc.values import Unsupported


class CType:
    const = False

    def is_int(self):
        return False

    def is_ptr(self):
        return False

    def is_scalar(self):
        return self.is_int() or self.is_ptr()


class TInt(CType):
    def __init__(self, bits, signed, name="", is_bool=False, is_enum=False):
        self.bits, self.signed, self.name, self.is_bool, self.is_enum = bits, signed, name, is_bool, is_enum

    def is_int(self):
        return True

    @property
    def lo(self):
        if self.is_bool:
            return 0
        return -(1 << (self.bits - 1)) if self.signed else 0

    @property
    def hi(self):
        if self.is_bool:
            return 1
        return (1 << (self.bits - 1)) - 1 if self.signed else (1 << self.bits) - 1

    def __repr__(self):
        return self.name or ("%sint%d" % ("" if self.signed else "u", self.bits))

    def key(self):
        return ("int", self.bits, self.signed, self.is_bool)


class TVoid(CType):
    def __repr__(self):
        return "void"

    def key(self):
        return ("void",)


class TPtr(CType):
    def __init__(self, to):
        self.to = to

    def is_ptr(self):
        return True

    def __repr__(self):
        return "%r*" % (self.to,)

    def key(self):
        return ("ptr", self.to.key())


class TArray(CType):
    def __init__(self, elem, n, vla_expr=None):
        self.elem, self.n, self.vla_expr = elem, n, vla_expr     # n: int, or None (incomplete / VLA)

    def __repr__(self):
        return "%r[%s]" % (self.elem, self.n if self.n is not None else (self.vla_expr or ""))

    def key(self):
        return ("arr", self.elem.key(), self.n)


class TRecord(CType):
    def __init__(self, rec):
        self.rec = rec           # frontend.Record

    def __repr__(self):
        return "%s %s" % (self.rec.tag, self.rec.name or "<anon@%s>" % self.rec.id)

    def key(self):
        return ("rec", self.rec.id)


class TFunc(CType):
    def __init__(self, ret, params, variadic=False):
        self.ret, self.params, self.variadic = ret, params, variadic

    def __repr__(self):
        return "%r(%s)" % (self.ret, ",".join(map(repr, self.params)))

    def key(self):
        return ("fn", self.ret.key(), tuple(p.key() for p in self.params), self.variadic)


class Target:
    def __init__(self, name, long_bits, ptr_bits, char_signed):
        self.name, self.long_bits, self.ptr_bits, self.char_signed = name, long_bits, ptr_bits, char_signed

    def base(self, words):
        """integer type from a canonical list of specifier words, e.g. ['unsigned','long','long']"""
        w = [x for x in words if x not in ("int",)] if len(words) > 1 else list(words)
        signed = True
        if "unsigned" in w:
            signed = False
            w.remove("unsigned")
        explicit_signed = False
        if "signed" in w:
            w.remove("signed")
            explicit_signed = True
        name = " ".join(words)
        if w == ["char"]:
            if not explicit_signed and signed:
                signed = self.char_signed
            return TInt(8, signed, name)
        if w == ["short"]:
            return TInt(16, signed, name)
        if w in ([], ["int"]):
            return TInt(32, signed, name)
        if w == ["long"]:
            return TInt(self.long_bits, signed, name)
        if w == ["long", "long"]:
            return TInt(64, signed, name)
        if w in (["_Bool"], ["bool"]):
            return TInt(8, False, "_Bool", is_bool=True)
        raise Unsupported("base type %r" % name)


ARM = Target("arm-none-eabi", 32, 32, False)       # AAPCS: plain char is unsigned
HOST = Target("x86_64-linux-gnu", 64, 64, True)

_BASEWORDS = {"char", "short", "int", "long", "unsigned", "signed", "_Bool", "bool"}
_QUALS = {"const", "volatile", "restrict", "__restrict", "register"}


class TypeTable:
    """Resolves clang qualType strings against the typedef/record/enum declarations of one TU."""

    def __init__(self, target):
        self.target = target
        self.typedefs = {}       # name -> qualType string
        self.records = {}        # "struct x" / "union x" -> Record
        self.anon = {}           # qualType string of an anonymous record -> Record
        self.enums = {}          # "enum x" -> TInt
        self._cache = {}

    def parse(self, s):
        s = s.strip()
        if s in self._cache:
            return self._cache[s]
        t = self._parse(s)
        self._cache[s] = t
        return t

    # qualType grammar handled: [quals] base [quals] {'*' [quals]} [ '(' '*' ')' '(' params ')' ] | base '(' params ')' | ... '[' n ']'
    def _parse(self, s):
        s = s.strip()
        # typeof(((T *)0)->member): the container_of idiom of linuxlist.h
        m = re.match(r"^((?:const |volatile )*)typeof \(\(\(((?:struct|union) \w+) \*\)0\)->(\w+)\)(.*)$", s)
        if m:
            rec = self.parse(m.group(2))
            base = rec.rec.field(m.group(3)).ctype
            return self._suffix(base, m.group(4).strip(), s)
        # anonymous records carry a location in parentheses: take the whole thing as a base token
        m = re.match(r"^((?:const |volatile )*)((?:struct|union|enum) (?:[\w:]+::)?\((?:unnamed|anonymous)[^)]*\))(.*)$", s)
        if m:
            base = self._anon(m.group(2))
            return self._suffix(base, m.group(3).strip(), s)
        # function type / function pointer: find the first '(' at depth 0
        i = s.find("(")
        if i >= 0:
            head = s[:i].strip()
            rest = s[i:]
            ret = self.parse(head)
            return self._func_suffix(ret, rest, s)
        # arrays
        j = s.find("[")
        if j >= 0:
            base = self._parse(s[:j])
            return self._suffix(base, s[j:], s)
        # pointers
        if "*" in s:
            k = s.index("*")
            base = self._parse(s[:k])
            return self._suffix(base, s[k:], s)
        toks = s.split()
        const = "const" in toks
        toks = [t for t in toks if t not in _QUALS]
        if not toks:
            raise Unsupported("type %r" % s)
        if toks[0] in ("struct", "union"):
            key = " ".join(toks[:2])
            if key not in self.records:
                raise Unsupported("incomplete/unknown record %r" % key)
            return TRecord(self.records[key])
        if toks[0] == "enum":
            key = " ".join(toks[:2])
            return self.enums.get(key) or TInt(32, False, key, is_enum=True)
        if toks == ["void"]:
            return TVoid()
        if all(t in _BASEWORDS for t in toks):
            return self.target.base(toks)
        if len(toks) == 1 and toks[0] in self.typedefs:
            return self.parse(self.typedefs[toks[0]])
        if toks == ["__builtin_va_list"] or toks == ["__va_list"]:
            return TVoid()
        raise Unsupported("type %r" % s)

    def _anon(self, key):
        key = re.sub(r"^(const |volatile )+", "", key)
        if key.startswith("enum"):
            return TInt(32, False, "enum", is_enum=True)
        m = re.search(r" at ([^)]*)\)", key)
        loc = m.group(1) if m else key
        if loc not in self.anon:
            raise Unsupported("anonymous record %r not indexed" % key)
        return TRecord(self.anon[loc])

    def _suffix(self, base, suf, whole):
        """apply declarator suffix: sequence of '*' (with quals) then array dims"""
        suf = suf.strip()
        t = base
        while suf:
            if suf[0] == "*":
                t = TPtr(t)
                suf = suf[1:].strip()
                while True:
                    for q in _QUALS:
                        if suf.startswith(q) and (len(suf) == len(q) or not (suf[len(q)].isalnum() or suf[len(q)] == "_")):
                            suf = suf[len(q):].strip()
                            break
                    else:
                        break
            elif suf[0] == "[":
                # dims are outermost first: T[a][b] = array a of (array b of T)
                dims = []
                while suf.startswith("["):
                    d, suf = self._take_bracket(suf)
                    dims.append(d)
                    suf = suf.strip()
                for d in reversed(dims):
                    d = d.strip()
                    if re.fullmatch(r"\d+", d):
                        t = TArray(t, int(d))
                    elif d == "":
                        t = TArray(t, None)
                    else:
                        t = TArray(t, None, vla_expr=d)
            elif suf[0] == "(":
                return self._func_suffix(t, suf, whole)
            else:
                raise Unsupported("type suffix %r in %r" % (suf, whole))
        return t

    @staticmethod
    def _take_bracket(s, op="[", cl="]"):
        depth = 0
        for i, c in enumerate(s):
            if c == op:
                depth += 1
            elif c == cl:
                depth -= 1
                if depth == 0:
                    return s[1:i], s[i + 1:]
        raise Unsupported("unbalanced %r" % s)

    def _func_suffix(self, ret, rest, whole):
        rest = rest.strip()
        inner, after = self._take_bracket(rest, "(", ")")
        after = after.strip()
        if after.startswith("("):
            # `ret (*...)(params)` : inner is the declarator ("*", "*const", "*[8]")
            params, tail = self._take_bracket(after, "(", ")")
            if tail.strip():
                raise Unsupported("type %r" % whole)
            f = self._mkfunc(ret, params)
            return self._suffix(f, inner.strip(), whole)
        if after:
            raise Unsupported("type %r" % whole)
        return self._mkfunc(ret, inner)

    def _mkfunc(self, ret, params):
        ps, depth, cur = [], 0, ""
        for c in params:
            if c == "," and depth == 0:
                ps.append(cur)
                cur = ""
            else:
                depth += c in "(["
                depth -= c in ")]"
                cur += c
        if cur.strip():
            ps.append(cur)
        variadic = False
        out = []
        for p in ps:
            p = p.strip()
            if p == "...":
                variadic = True
            elif p == "void":
                pass
            else:
                out.append(self.parse(p))
        return TFunc(ret, out, variadic)

    # ------------------------------------------------------------ layout (verified against clang by frontend.check_layout)
    def sizeof(self, t):
        return self._layout(t)[0]

    def alignof(self, t):
        return self._layout(t)[1]

    def _layout(self, t):
        if isinstance(t, TInt):
            n = t.bits // 8
            return n, n
        if isinstance(t, TPtr):
            n = self.target.ptr_bits // 8
            return n, n
        if isinstance(t, TArray):
            if t.n is None:
                raise Unsupported("sizeof of array without constant bound")
            s, a = self._layout(t.elem)
            return s * t.n, a
        if isinstance(t, TRecord):
            r = t.rec
            if r.packed:
                raise Unsupported("packed record layout")
            if any(f.bitfield for f in r.fields):
                raise Unsupported("bit-field record layout")
            off, align = 0, 1
            for f in r.fields:
                s, a = self._layout(f.ctype)
                align = max(align, a)
                if r.tag == "union":
                    off = max(off, s)
                else:
                    off = (off + a - 1) // a * a + s
            size = (off + align - 1) // align * align
            return max(size, 0), align
        raise Unsupported("sizeof(%r)" % (t,))

"""Symbolic TRXD message objects (data_msg.TxMsg / RxMsg) and their spec views.

`mk_msg(E, cls, mod, ...)` builds an *arbitrary* message state: every field is a symbolic
int-or-None, the burst is None or a sequence of symbolic length, exactly the domain C13 quantifies over.
z3 constant names are deterministic, so a view built outside the path denotes the same terms.
"""
import z3
from engine.pyvc.values import SObj, SOpt, SInt, SBool, SSeq
from engine.pyvc import models
from engine.pyvc.harness import toolkit
from spec import valid_msg as V

OPT_FIELDS_TX = ("fn", "tn", "pwr")
OPT_FIELDS_RX = ("fn", "tn", "rssi", "toa256", "tsc", "tsc_set", "ci")


def opt_terms(pfx, name):
    return z3.Bool("%s%s?none" % (pfx, name)), z3.Int("%s%s" % (pfx, name))


class View:
    pass


def view(cls, mod, pfx="m."):
    """Spec view over the same z3 constants as mk_msg."""
    m = View()
    m.cls = cls
    m.ver = z3.Int(pfx + "ver")
    for f in (OPT_FIELDS_TX if cls == "tx" else OPT_FIELDS_RX):
        setattr(m, f, V.Opt(*opt_terms(pfx, f)))
    m.burst = V.Opt(z3.Bool(pfx + "burst?none"), z3.Int(pfx + "burst.len"))
    m.burst_arr = z3.Array(pfx + "burst", z3.IntSort(), z3.IntSort())
    m.nope = z3.Bool(pfx + "nope") if cls == "rx" else z3.BoolVal(False)
    m.mod = mod
    return m


def mod_cases():
    """Every Modulation member of the live enum, plus None and a non-Modulation value."""
    dm = toolkit("data_msg")
    cases = [(m.name, m) for m in dm.Modulation]
    cases.append(("None", None))
    cases.append(("int", 7))
    return cases


def mk_msg(E, cls, mod=None, pfx="m.", burst_range=None, ver=None):
    dm = toolkit("data_msg")
    klass = dm.TxMsg if cls == "tx" else dm.RxMsg
    attrs = {}
    attrs["ver"] = SInt(z3.Int(pfx + "ver")) if ver is None else ver
    if ver is not None:
        E.assume(z3.Int(pfx + "ver") == ver)
    for f in (OPT_FIELDS_TX if cls == "tx" else OPT_FIELDS_RX):
        n, v = opt_terms(pfx, f)
        attrs[f] = SOpt(n, SInt(v))
    blen = z3.Int(pfx + "burst.len")
    E.assume(blen >= 0)
    kind = "bytearray" if cls == "tx" else "array_b"
    lo, hi = burst_range or ((0, 255) if cls == "tx" else (-128, 127))
    seq = models.fresh_seq(E, pfx + "burst", kind, blen, lo, hi)
    attrs["burst"] = SOpt(z3.Bool(pfx + "burst?none"), seq)
    if cls == "rx":
        attrs["nope_ind"] = SBool(z3.Bool(pfx + "nope"))
        attrs["mod_type"] = mod
    obj = SObj(klass, attrs, label=pfx + cls)
    obj.seq = seq
    return obj


def concrete_fields(model, cls, mod, pfx="m."):
    """Concrete message fields from a z3 model (for native replay)."""
    from engine.common.core import mval
    out = {"cls": cls, "mod": getattr(mod, "name", repr(mod))}
    out["ver"] = mval(model, z3.Int(pfx + "ver"))
    for f in (OPT_FIELDS_TX if cls == "tx" else OPT_FIELDS_RX):
        n, v = opt_terms(pfx, f)
        out[f] = None if mval(model, n) else mval(model, v)
    if mval(model, z3.Bool(pfx + "burst?none")):
        out["burst"] = None
    else:
        ln = mval(model, z3.Int(pfx + "burst.len"))
        arr = z3.Array(pfx + "burst", z3.IntSort(), z3.IntSort())
        lo, hi = (0, 255) if cls == "tx" else (-128, 127)
        out["burst"] = [min(hi, max(lo, mval(model, z3.Select(arr, k)))) for k in range(min(ln, 4096))]
        out["burst_len"] = ln
    if cls == "rx":
        out["nope"] = bool(mval(model, z3.Bool(pfx + "nope")))
    return out


def build_native(fields):
    """Real message object from concrete fields (runs under the real interpreter)."""
    from array import array
    dm = toolkit("data_msg")
    if fields["cls"] == "tx":
        m = dm.TxMsg()
    else:
        m = dm.RxMsg()
    m.ver = fields["ver"]
    for k, v in fields.items():
        if k in ("cls", "mod", "burst", "nope", "ver", "burst_len"):
            continue
        setattr(m, k, v)
    if fields["cls"] == "rx":
        m.nope_ind = fields["nope"]
        mn = fields["mod"]
        m.mod_type = getattr(dm.Modulation, mn) if hasattr(dm.Modulation, mn) else (None if mn == "None" else 7)
    b = fields["burst"]
    if b is None:
        m.burst = None
    elif fields["cls"] == "tx":
        m.burst = bytearray(b)
    else:
        m.burst = array("b", b)
    return m


def concrete_view(fields):
    """Spec view with concrete terms, for evaluating the oracle natively."""
    dm = toolkit("data_msg")
    m = View()
    m.cls = fields["cls"]
    m.ver = z3.IntVal(fields["ver"])
    for f in (OPT_FIELDS_TX if m.cls == "tx" else OPT_FIELDS_RX):
        v = fields.get(f)
        setattr(m, f, V.Opt(v is None, z3.IntVal(v if v is not None else 0)))
    b = fields["burst"]
    m.burst = V.Opt(b is None, z3.IntVal(fields.get("burst_len", len(b) if b is not None else 0)))
    m.nope = z3.BoolVal(bool(fields.get("nope", False)))
    mn = fields["mod"]
    m.mod = getattr(dm.Modulation, mn) if hasattr(dm.Modulation, mn) else (None if mn == "None" else 7)
    return m

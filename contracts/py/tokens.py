"""TRXC token model: a command is a list of tokens; numeric arguments are `IntTok` (a decimal literal whose
value is the symbolic integer t), junk arguments are `BadTok` (not a number, not a known verb)."""
import z3
from engine.pyvc.values import *


class IntTok(FmtStr):
    def __init__(self, t):
        FmtStr.__init__(self, "inttok", (t,))
        self.t = t

    def pyvc_int(self, E):
        return wrap_int(self.t)

    def pyvc_eq(self, E, other):
        if isinstance(other, IntTok):
            return wrap_bool(self.t == other.t)      # canonical decimal literals
        return False

    def __repr__(self):
        return "IntTok(%s)" % self.t


class BadTok(FmtStr):
    """a token that is neither a decimal integer literal nor one of the protocol's verbs"""

    def __init__(self, label="junk"):
        FmtStr.__init__(self, "badtok", (label,))
        self.label = label

    def pyvc_int(self, E):
        E.raise_(ValueError, "invalid literal for int()", implicit="int")

    def pyvc_eq(self, E, other):
        return other is self


def install_token_model(E):
    return E

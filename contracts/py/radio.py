"""Contracts (spec predicates + call-site texts) for the simulated radio path of fake_trx.FakeTRX (C10/C18)."""
import z3
from engine.pyvc.values import *
from engine.pyvc import models
from engine.pyvc.harness import toolkit
from .common import attr

Z = models.zint

# 3GPP TS 45.002 burst layouts: offset of the training sequence inside the 148-bit burst
TS_OFFSET = {"NORMAL": 3 + 57 + 1, "ACCESS": 8, "SYNC": 3 + 39}


def ts_members():
    gs = toolkit("gsm_shared")
    return list(gs.TrainingSeqGMSK)


def occurs(ts, get):
    """the member's sequence stands at its burst type's offset; get(i) = i-th bit term"""
    off = TS_OFFSET[ts.bt.name]
    return z3.And([Z(get(off + j)) == int(b) for j, b in enumerate(ts.seq)])


def pick_spec(get):
    """[(member or None, condition)]: the first member in definition order that occurs, None when none does"""
    out = []
    earlier = []
    for ts in ts_members():
        oc = occurs(ts, get)
        out.append((ts, z3.And([oc] + [z3.Not(e) for e in earlier])))
        earlier.append(oc)
    out.append((None, z3.And([z3.Not(e) for e in earlier])))
    return out


def pick_summary(E, func, args, kwargs):
    """TrainingSeqGMSK.pick contract at call sites (verified in C10): pre len(burst) == 148."""
    burst = args[-1]
    if isinstance(burst, SOpt):
        burst = E.deopt(burst)
    if not isinstance(burst, SSeq):
        raise Unsupported("pick contract: burst is not a sequence")
    E.require("pre_pick_burst_len_148", Z(burst.length) == 148, kind="pre")
    cases = pick_spec(burst.get)
    k = E.choose(len(cases), "pick")
    E.assume(cases[k][1])
    return cases[k][0]


def window_summary(base, thr):
    """FakeTRX.toa256 / rssi / ci contract: base when thr == 0; a value in [base-thr, base+thr] when thr > 0;
    ValueError (random.randint on an empty range) when thr < 0."""
    def summ(E, func, args, kwargs):
        self = args[0]
        b, t = Z(self.attrs[base]), Z(self.attrs[thr])
        if E.branch(t < 0):
            E.raise_(ValueError, "empty range for randrange()", implicit="randint")
        r = E.fresh_int("window." + base)
        E.assume(z3.If(t == 0, r == b, z3.And(r >= b - t, r <= b + t)))
        return SInt(r)
    return summ


def hdm_v1_summary(E, func, args, kwargs):
    """FakeTRX._handle_data_msg_v1(src_msg, msg) contract (verified in C10):
       msg.ci in the C/I window; mod_type = the Modulation whose burst length is len(src_msg.burst) (148 -> GMSK, 444 -> 8-PSK);
       GMSK: (tsc, tsc_set) of the first training sequence present, (0, 0) when none; otherwise (0, 0)."""
    dm = toolkit("data_msg")
    self, src_msg, msg = args
    msg.attrs["ci"] = window_summary("ci_base", "ci_rand_threshold")(E, None, [self], {})
    b = attr(src_msg, "burst")
    if isinstance(b, SOpt):
        b = E.deopt(b)
    if b is None:
        E.raise_(TypeError, "object of type 'NoneType' has no len()", implicit="len")
    ln = Z(b.length)
    E.require("pre_v1_burst_len", z3.Or(ln == 148, ln == 444), kind="pre")
    if E.branch(ln == 148):
        msg.attrs["mod_type"] = dm.Modulation.ModGMSK
        tsc, tset = E.fresh_int("v1.tsc"), E.fresh_int("v1.tsc_set")
        E.assume(v1_tsc_relation(b.get, tsc, tset))
        msg.attrs["tsc"], msg.attrs["tsc_set"] = SInt(tsc), SInt(tset)
    else:
        msg.attrs["mod_type"] = dm.Modulation.Mod8PSK
        msg.attrs["tsc"] = 0
        msg.attrs["tsc_set"] = 0
    return None


def v1_tsc_relation(get, tsc, tset):
    """(tsc, tsc_set) are those of the first training sequence present in the burst, (0, 0) when none is"""
    alts = []
    for ts, cond in pick_spec(get):
        alts.append(z3.And(cond, tsc == (ts.tsc if ts is not None else 0), tset == (ts.tsc_set if ts is not None else 0)))
    return z3.Or(alts)


def radio_summaries():
    return {
        "fake_trx.FakeTRX.toa256": window_summary("toa256_base", "toa256_rand_threshold"),
        "fake_trx.FakeTRX.rssi": window_summary("rssi_base", "rssi_rand_threshold"),
        "fake_trx.FakeTRX.ci": window_summary("ci_base", "ci_rand_threshold"),
        "fake_trx.FakeTRX._handle_data_msg_v1": hdm_v1_summary,
        "gsm_shared.TrainingSeqGMSK.pick": pick_summary,
    }

"""Native replay helpers: real toolkit objects with the sockets replaced by recorders."""
import logging
from engine.pyvc.harness import toolkit


class Recorder:
    """stands for socket.socket in native replays"""

    def __init__(self, *a, **k):
        self.sent, self.inbox, self.bound = [], [], ("0.0.0.0", 0)

    def setsockopt(self, *a):
        pass

    def bind(self, addr):
        self.bound = addr

    def setblocking(self, b):
        pass

    def getsockname(self):
        return self.bound

    def sendto(self, data, addr):
        self.sent.append((bytes(data), addr))

    def recvfrom(self, n):
        if not self.inbox:
            raise BlockingIOError(11, "Resource temporarily unavailable")       # a non-blocking socket with nothing pending
        data, src = self.inbox.pop(0)
        return data[:n], src

    def close(self):
        pass


class _FakeSocketModule:
    AF_INET = SOCK_DGRAM = SOL_SOCKET = SO_REUSEADDR = 0
    socket = Recorder


def patch_sockets():
    ul = toolkit("udp_link")
    ul.socket = _FakeSocketModule
    logging.disable(logging.CRITICAL)


def native_trx(name="TRX", base_port=5700, **kw):
    patch_sockets()
    ft = toolkit("fake_trx")
    return ft.FakeTRX("0.0.0.0", "127.0.0.1", base_port, name=name, **kw)

"""Symbolic transceiver objects (fake_trx.FakeTRX) and the call-site texts of their callee contracts."""
import z3
from engine.pyvc.values import *
from engine.pyvc import models
from engine.pyvc.interp import SLock
from engine.pyvc.harness import toolkit, qualname
from spec import valid_msg as V
from spec import trxd_layout as L
from .common import view_of, mk_sock, attr

INT_FIELDS = ("tx_power_base", "tx_att_base", "toa256_base", "rssi_base", "ci_base", "ta",
              "toa256_rand_threshold", "rssi_rand_threshold", "ci_rand_threshold",
              "burst_drop_amount", "burst_drop_period")
BOOL_FIELDS = ("running", "rf_muted", "fake_rssi_enabled")


def fz(pfx, name):
    return z3.Int("%s%s" % (pfx, name))


def fb(pfx, name):
    return z3.Bool("%s%s" % (pfx, name))


def mk_trx(E, pfx="t.", fh=None, name="TRX", child_idx=0, with_clck=False, invariant=True):
    """A FakeTRX in an arbitrary state.  Class invariant (established by __init__ and preserved by every
    command, see C05/C18): burst_drop_amount >= 0, burst_drop_period >= 1, _hdr_ver in {0,1}."""
    ft = toolkit("fake_trx")
    di = toolkit("data_if")
    ci = toolkit("ctrl_if_trx")
    a = {}
    for f in INT_FIELDS:
        a[f] = SInt(fz(pfx, f))
    for f in BOOL_FIELDS:
        a[f] = SBool(fb(pfx, f))
    a["_rx_freq"] = SOpt(fb(pfx, "_rx_freq?none"), SInt(fz(pfx, "_rx_freq")))
    a["_tx_freq"] = SOpt(fb(pfx, "_tx_freq?none"), SInt(fz(pfx, "_tx_freq")))
    a["fh"] = fh
    a["name"], a["remote_addr"], a["bind_addr"], a["base_port"], a["child_idx"] = name, "127.0.0.1", "0.0.0.0", 5700, child_idx
    a["child_mgt"] = True
    a["pwr_meas"] = None
    a["clck_gen"] = None
    a["_tx_queue_lock"] = SLock(pfx + "_tx_queue_lock")
    a["_tx_queue"] = []
    a["data_if"] = SObj(di.DATAInterface, {"sock": mk_sock(E, pfx + "data.sock"), "remote_addr": "127.0.0.1",
                                           "remote_port": 5802 + 2 * child_idx, "_hdr_ver": SInt(fz(pfx, "_hdr_ver"))}, label=pfx + "data_if")
    obj = SObj(ft.FakeTRX, a, label=pfx + "trx")
    a["ctrl_if"] = SObj(ci.CTRLInterfaceTRX, {"sock": mk_sock(E, pfx + "ctrl.sock"), "remote_addr": "127.0.0.1",
                                              "remote_port": 5801 + 2 * child_idx, "trx": obj,
                                              "rsp_delay_ms": SInt(fz(pfx, "rsp_delay_ms"))}, label=pfx + "ctrl_if")
    if invariant:
        E.assume(class_invariant(pfx))
    from engine.pyvc.harness import bind_props
    for o in (a["data_if"], a["ctrl_if"], obj):
        bind_props(E, o)
    return obj


TRXC_DELAY_MAX_MS = 60 * 1000


def class_invariant(pfx):
    return z3.And(fz(pfx, "burst_drop_amount") >= 0, fz(pfx, "burst_drop_period") >= 1,
                  z3.Or(fz(pfx, "_hdr_ver") == 0, fz(pfx, "_hdr_ver") == 1),
                  fz(pfx, "rsp_delay_ms") >= 0, fz(pfx, "rsp_delay_ms") <= TRXC_DELAY_MAX_MS)


def invariant_of(obj):
    """The class invariant evaluated on the object's *current* attribute values."""
    a = obj.attrs
    hv = a["data_if"].attrs["_hdr_ver"]
    dl = models.zint(a["ctrl_if"].attrs["rsp_delay_ms"])
    return z3.And(models.zint(a["burst_drop_amount"]) >= 0, models.zint(a["burst_drop_period"]) >= 1,
                  z3.Or(models.zint(hv) == 0, models.zint(hv) == 1), dl >= 0, dl <= TRXC_DELAY_MAX_MS)


def send_msg_summary(E, func, args, kwargs):
    """DATAInterface.send_msg contract (C13): exactly one datagram == layout.enc(msg, legacy) to the link's remote
    iff valid(msg); nothing otherwise; never raises; msg unchanged."""
    self, msg = args[0], args[1]
    legacy = kwargs.get("legacy", args[2] if len(args) > 2 else False)
    v = view_of(msg)
    if E.branch(V.valid(v)):
        E.ghost.setdefault("sent", []).append((self.attrs["sock"], L.enc_seq(E, v, legacy),
                                               (self.attrs["remote_addr"], self.attrs["remote_port"])))
        E.ghost.setdefault("sent_views", []).append((self, v, legacy))
    else:
        E.ghost.setdefault("refused", []).append((self, v))
    return None


def mk_rx_from_trans(E, pfx="x.", burst_len=None):
    """The RxMsg handed to handle_data_msg by BurstForwarder (post-condition of TxMsg.trans + forward_msg):
    fn/tn ints in range, ver in {0,1}, burst = full-confidence soft bits (+-127) or None with nope_ind set."""
    dm = toolkit("data_msg")
    fn, tn, ver = fz(pfx, "fn"), fz(pfx, "tn"), fz(pfx, "ver")
    nope = fb(pfx, "nope")
    E.assume(z3.And(fn >= 0, fn < V.HYPERFRAME, tn >= 0, tn <= 7, z3.Or(ver == 0, ver == 1)))
    blen = fz(pfx, "burst.len")
    E.assume(z3.Or(blen == 148, blen == 444))
    seq = models.fresh_seq(E, pfx + "burst", "array_b", blen if burst_len is None else burst_len, -127, 127)
    if burst_len is not None:
        E.assume(blen == burst_len)
    a = {"fn": SInt(fn), "tn": SInt(tn), "ver": SInt(ver), "burst": SOpt(nope, seq), "nope_ind": SBool(nope)}
    return SObj(dm.RxMsg, a, label=pfx + "rxmsg")

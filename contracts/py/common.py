"""Shared contract pieces for the Python toolkit: object views, callee summaries (the contract text
used at call sites), ghost externals (sockets), frame conditions."""
import inspect
import z3
from engine.common.core import Obligation
from engine.pyvc.values import *
from engine.pyvc import models
from engine.pyvc.models import register
from engine.pyvc.harness import toolkit, qualname
from spec import valid_msg as V
from . import msgs


def attr(obj, name):
    if name in obj.attrs:
        return obj.attrs[name]
    return inspect.getattr_static(obj.cls, name)


def as_opt(v):
    if isinstance(v, SOpt):
        val = v.val
        return V.Opt(v.isnone, val.t if isinstance(val, SInt) else (z3.IntVal(val) if isinstance(val, int) else val))
    if v is None:
        return V.Opt(True, z3.IntVal(0))
    if isinstance(v, SInt):
        return V.Opt(False, v.t)
    if isinstance(v, bool):
        return V.Opt(False, z3.IntVal(int(v)))
    if isinstance(v, int):
        return V.Opt(False, z3.IntVal(v))
    raise Unsupported("field value %r outside the contract's type (int|None)" % (v,))


def burst_opt(v):
    if isinstance(v, SOpt):
        s = v.val
        return V.Opt(v.isnone, models.zint(s.length)), s
    if v is None:
        return V.Opt(True, z3.IntVal(0)), None
    if isinstance(v, SSeq):
        return V.Opt(False, models.zint(v.length)), v
    raise Unsupported("burst value %r outside the contract's type" % (v,))


def view_of(obj):
    """Spec view of an actual message object at a call site."""
    dm = toolkit("data_msg")
    m = msgs.View()
    m.cls = "tx" if issubclass(obj.cls, dm.TxMsg) else "rx"
    ver = attr(obj, "ver")
    m.ver = models.zint(ver) if isinstance(ver, (int, SInt)) else None
    if m.ver is None:
        raise Unsupported("ver is not an int")
    for f in (msgs.OPT_FIELDS_TX if m.cls == "tx" else msgs.OPT_FIELDS_RX):
        setattr(m, f, as_opt(attr(obj, f)))
    m.burst, m.burst_seq = burst_opt(attr(obj, "burst"))
    if m.cls == "rx":
        n = attr(obj, "nope_ind")
        m.nope = n.t if isinstance(n, SBool) else z3.BoolVal(bool(n))
        m.mod = attr(obj, "mod_type")
    else:
        m.nope = z3.BoolVal(False)
        m.mod = None
    return m


def raises_iff_summary(spec, exc=ValueError):
    """Call-site text of a contract `raises exc <=> not spec(self); modifies nothing`."""
    def summ(E, func, args, kwargs):
        ok = spec(view_of(args[0]))
        if E.branch(ok):
            return None
        E.raise_(exc, "contract: %s" % qualname(func))
    return summ


def install_validate_summaries():
    def v0_ok(v):
        return z3.And(z3.Not(v.burst.isnone), z3.Or(v.burst.val == 148, v.burst.val == 444))

    def v1_ok(v):
        mn = V.mod_name(v.mod)
        if mn is None:
            raise Unsupported("_validate_burst_v1 contract requires a Modulation")
        return z3.If(v.nope, v.burst.isnone, z3.And(z3.Not(v.burst.isnone), v.burst.val == V.MOD_TABLE[mn][1]))

    def vb(v):
        return z3.If(v.ver == 0, v0_ok(v), z3.If(v.ver >= 1, v1_ok(v) if V.mod_name(v.mod) else z3.And(v.nope, v.burst.isnone), z3.BoolVal(True)))

    def vb_summ(E, func, args, kwargs):
        v = view_of(args[0])
        if V.mod_name(v.mod) is None:
            # outside the burst validator's own contract domain: execute the body instead
            return E.inline(func, args, kwargs)
        return raises_iff_summary(lambda _v: vb(v))(E, func, args, kwargs)

    return {
        "data_msg.Msg.validate": raises_iff_summary(V.valid_common),
        "data_msg.TxMsg.validate": raises_iff_summary(V.valid_tx),
        "data_msg.RxMsg.validate": raises_iff_summary(V.valid_rx),
        "data_msg.RxMsg._validate_burst_v0": raises_iff_summary(v0_ok),
        "data_msg.RxMsg._validate_burst_v1": raises_iff_summary(v1_ok),
        "data_msg.RxMsg.validate_burst": vb_summ,
        "data_msg.Msg.gen_msg": gen_msg_summary,
        "data_msg.TxMsg.desc_hdr": desc_hdr_summary,
        "data_msg.RxMsg.desc_hdr": desc_hdr_summary,
    }


def desc_hdr_summary(E, func, args, kwargs):
    """desc_hdr contract at call sites: pure, never raises for int|None fields, result is an opaque str."""
    view_of(args[0])          # type pre-condition of the contract (raises Unsupported outside it)
    return FmtStr("desc_hdr", (args[0],))


def gen_msg_summary(E, func, args, kwargs):
    """Msg.gen_msg contract at call sites: ValueError iff invalid, else the layout of spec.trxd_layout."""
    self = args[0]
    legacy = args[1] if len(args) > 1 else kwargs.get("legacy", False)
    v = view_of(self)
    if not E.branch(V.valid(v)):
        E.raise_(ValueError, "contract: gen_msg refuses invalid message")
    from spec import trxd_layout as L
    return L.enc_seq(E, v, legacy)


# ------------------------------------------------------------------ ghost externals

class GhostSocket:
    """Stands for socket.socket: sendto appends (socket, payload, address) to the ghost datagram log."""

    def sendto(self, data, addr):
        raise NotImplementedError

    def recvfrom(self, n):
        raise NotImplementedError

    def getsockname(self):
        raise NotImplementedError

    def close(self):
        pass


@register(GhostSocket.sendto, "socket.sendto")
def _sendto(E, sock, data, addr):
    E.ghost.setdefault("sent", []).append((sock, data, addr))
    return None


@register(GhostSocket.getsockname, "socket.getsockname")
def _getsockname(E, sock):
    return sock.attrs.get("bound", ("0.0.0.0", 0))


@register(GhostSocket.recvfrom, "socket.recvfrom")
def _recvfrom(E, sock, n):
    """Returns the first n octets of the pending datagram (UDP truncation) and its source.  The sockets are non-blocking
    (UDPLink: setblocking(False)) and ONE datagram is pending per select() wake-up: a second read finds the queue empty."""
    if sock.attrs.get("pending_consumed"):
        E.raise_(BlockingIOError, "no datagram pending", implicit="socket")
    sock.attrs["pending_consumed"] = True
    d = sock.attrs["pending"]
    src = sock.attrs.get("pending_src", ("peer", 1))
    if not isinstance(n, int):
        raise Unsupported("symbolic recv size")
    ln = d.length
    if isinstance(ln, int):
        cut = SSeq("bytes", min(ln, n), d.get)
    else:
        cut = SSeq("bytes", z3.If(ln > n, z3.IntVal(n), ln), d.get)
    E.ghost.setdefault("recv_sizes", []).append(n)
    return (cut, src)


def mk_sock(E, label="sock", bound=("0.0.0.0", 0)):
    return SObj(GhostSocket, {"bound": bound}, label=label)


def mk_data_if(E, hdr_ver=0, label="data_if"):
    di = toolkit("data_if")
    return SObj(di.DATAInterface, {"sock": mk_sock(E, label + ".sock"), "remote_addr": "127.0.0.1",
                                   "remote_port": 5702, "_hdr_ver": hdr_ver}, label=label)


# ------------------------------------------------------------------ frames

def snapshot(obj):
    snap = {}
    for k, v in obj.attrs.items():
        if isinstance(v, SOpt) and isinstance(v.val, SSeq):
            snap[k] = (v, v.val.length, v.val.get)
        elif isinstance(v, SSeq):
            snap[k] = (v, v.length, v.get)
        else:
            snap[k] = (v, None, None)
    return snap


def same_value(a, b):
    """z3 Bool (or python bool) stating that two engine values are equal"""
    if a is b:
        return True
    if isinstance(a, SOpt) and isinstance(b, SOpt):
        inner = same_value(a.val, b.val)
        return z3.And(a.isnone == b.isnone, z3.Or(a.isnone, models.to_z3bool(inner) if not isinstance(inner, bool) else z3.BoolVal(inner)))
    if isinstance(a, (int, SInt, SBool, bool)) and isinstance(b, (int, SInt, SBool, bool)):
        if isinstance(a, (bool, SBool)) or isinstance(b, (bool, SBool)):
            return models.to_z3bool(a) == models.to_z3bool(b)
        return models.zint(a) == models.zint(b)
    return False


def frame_obligations(prop, fn, p, obj, pre, case, where_):
    """`obj` must be exactly as in the snapshot `pre` (contract: modifies nothing on obj)."""
    out = []
    for k in set(pre) | set(obj.attrs):
        if k not in pre:
            out.append(Obligation(prop, fn, "frame_no_new_attr_%s" % k, p.pc, z3.BoolVal(False), kind="frame", case=case, where=where_))
            continue
        if k not in obj.attrs:
            out.append(Obligation(prop, fn, "frame_attr_deleted_%s" % k, p.pc, z3.BoolVal(False), kind="frame", case=case, where=where_))
            continue
        v0, l0, g0 = pre[k]
        v1 = obj.attrs[k]
        if v1 is v0:
            s = v0.val if isinstance(v0, SOpt) else v0
            if isinstance(s, SSeq) and (s.length is not l0 or s.get is not g0):
                out.append(Obligation(prop, fn, "frame_%s_content" % k, p.pc, z3.BoolVal(False), kind="frame", case=case, where=where_))
            continue
        sv = same_value(v0, v1)
        if sv is True:
            continue
        goal = z3.BoolVal(False) if sv is False else sv
        out.append(Obligation(prop, fn, "frame_%s" % k, p.pc, goal, kind="frame", case=case, where=where_))
    return out


def outcome_obligations(*a, **k):
    raise NotImplementedError

"""C07 contracts (C side): pow_nbin_mask, rfch_hop_seq_gen, rfch_get_params in src/target/firmware/layer1/rfch.c.

Oracle: spec/mai_45002.py (3GPP TS 45.002 6.2.3, shared with the Python side).  The spec takes the bit length NBIN of N
as a python int, so every contract is verified once per NBIN in 1..7 (N in 2^(NBIN-1) .. min(2^NBIN - 1, 64)); the cyclic
case HSN = 0 does not depend on NBIN and is one case over all N in 1..64.
Helper pre-conditions (value ranges of HSN/MAIO/N, consistency of struct gsm_time) come from the statement's quantifier and
from C19 (struct gsm_time is only produced by gsm_fn2gsmtime / l1s_time_inc).
"""
import z3

from engine.cvc.contract import Contract
from spec import gsm_time as G
from spec import mai_45002 as M

RFCH = "src/target/firmware/layer1/rfch.c"
NBINS = tuple(range(1, 8))


def n_range(nb):
    return 1 << (nb - 1), min((1 << nb) - 1, 64)


def in_nb(n, nb):
    lo, hi = n_range(nb)
    return z3.And(n >= lo, n <= hi)


def nb_known(c, n):
    """python int NBIN when the current path condition fixes the bit length of n, else None"""
    if c.case is not None and isinstance(c.case, tuple) and c.case[0] in ("nb", "hop"):
        return c.case[1]
    for nb in NBINS:
        if c.E.entails(in_nb(n, nb)):
            return nb
    return None


def wrap_s16(x):
    """value of (int16_t)x for 0 <= x <= 65535 (implementation-defined wrap, gcc/clang)"""
    return z3.If(x >= 32768, x - 65536, x)


def time_init(c, t):
    """pre-state: *t is the decomposition of the ghost frame number fn (terms, not equations)"""
    E = c.E
    c.fn = z3.Int("ghost.fn")
    c.inputs["fn"] = c.fn
    E.assume(z3.And(c.fn >= 0, c.fn < G.HYPERFRAME))
    t1, t2, t3, tc = G.gsm_time(c.fn)
    for f, term in (("fn", c.fn), ("t1", t1), ("t2", t2), ("t3", t3), ("tc", tc)):
        E.state.mem[(t.block.id, ("[]", f))] = term


def time_pre_call(c, t):
    v = c.view_pre
    c.fn = v.get(t, "fn")
    return [("time.fn_in_hyperframe", c.fn < G.HYPERFRAME),
            ("time.consistent", G.consistent(c.fn, v.get(t, "t1"), v.get(t, "t2"), v.get(t, "t3")))]


class PowNbinMask(Contract):
    """pow_nbin_mask(n): 1 <= n <= 64  ==>  returns 2^NBIN(n) - 1.
    Verified by complete enumeration of the 64 values (ground cases): the or-cascade of seven shifted copies is
    evaluated by the engine on each concrete n."""
    name = "pow_nbin_mask"
    helper = True          # static helper of rfch_hop_seq_gen (the mechanism); its callers' contracts use this one
    cases = tuple(("n", n) for n in range(1, 65))

    def params(self, c):
        if c.mode == "verify":
            c.int("n", value=c.case[1])
        else:
            c.int("n")

    def requires(self, c):
        n = c.a.n
        if c.mode == "verify":
            return []
        return [("n_range", z3.And(n >= 1, n <= 64))]

    def returns(self, c, old):
        n = c.a.n
        if c.mode == "verify":
            return (1 << M.nbin(c.case[1])) - 1
        nb = nb_known(c, n)
        if nb is not None:
            return (1 << nb) - 1
        r = z3.IntVal(127)
        for k in range(6, 0, -1):
            r = z3.If(n < (1 << k), z3.IntVal((1 << k) - 1), r)
        return r


class HopSeqGen(Contract):
    """rfch_hop_seq_gen(t, hsn, maio, n, tbl): returns tbl[MAI] (as int16_t), or MAI when tbl == NULL,
    MAI = spec.mai_45002.mai(hsn, maio, n, NBIN, t->fn)"""
    name = "rfch_hop_seq_gen"
    uses = (PowNbinMask,)
    trusted_init = ("rn_table",)
    cases = (("cyclic", 0),) + tuple(("hop", nb) for nb in NBINS)

    def params(self, c):
        t = c.ptr("t")
        hsn = c.int("hsn", hi=63)          # declared bounds: part of the pre-condition, and the engine's interval
        c.int("maio", hi=63)
        n = c.int("n", lo=1, hi=64)
        c.ptr("arfcn_tbl", count=c.a.n_v, nullable=True, single=False)
        if c.mode == "verify":
            time_init(c, t)

    def requires(self, c):
        a = c.a
        reqs = [("hsn_range", a.hsn <= 63), ("maio_range", a.maio <= 63), ("n_range", z3.And(a.n >= 1, a.n <= 64))]
        if c.mode == "verify":
            kind, nb = c.case
            if kind == "cyclic":
                reqs.append(("case_cyclic", a.hsn == 0))
            else:
                reqs += [("case_hopping", a.hsn >= 1), ("case_nbin", in_nb(a.n, nb))]
        else:
            reqs += time_pre_call(c, a.t)
        return reqs

    def spec_mai(self, c):
        a = c.a
        if c.mode == "verify":
            kind, nb = c.case
            if kind == "cyclic":
                return M.mai(0, a.maio, a.n, 1, c.fn)
            return M.mai(a.hsn, a.maio, a.n, nb, c.fn)
        nb = nb_known(c, a.n)
        if nb is not None:
            return M.mai(a.hsn, a.maio, a.n, nb, c.fn)
        r = M.mai(a.hsn, a.maio, a.n, 7, c.fn)
        for k in range(6, 0, -1):
            r = z3.If(a.n < (1 << k), M.mai(a.hsn, a.maio, a.n, k, c.fn), r)
        return r

    def ensures(self, c, old, new, ret):
        a = c.a
        mai = self.spec_mai(c)
        tbl = a.arfcn_tbl
        if tbl.block is None:
            return [("mai_when_no_table", ret == mai)]
        entry = old.get(c.at(tbl, mai))
        isnull = tbl.null if not isinstance(tbl.null, bool) else z3.BoolVal(tbl.null)
        return [("mai_when_no_table", z3.Implies(isnull, ret == mai)),
                ("table_entry_at_mai", z3.Implies(z3.Not(isnull), ret == wrap_s16(entry)))]


class GetParams(Contract):
    """rfch_get_params(t, arfcn_p, tsc_p, tn_p): with a hopping dedicated channel configured,
    *arfcn_p == l1s.dedicated.h1.ma[ mai(h1.hsn, h1.maio, h1.n, t->fn) ]; the non-hopping / serving-cell outputs and
    tsc/tn are the configured values (from the code's own comments)."""
    name = "rfch_get_params"
    uses = (HopSeqGen,)
    cases = (("nohop", 0),) + tuple(("hop", nb) for nb in NBINS)
    D = "dedicated"

    def params(self, c):
        t = c.ptr("t")
        c.ptr("arfcn_p", nullable=True)
        c.ptr("tsc_p", nullable=True)
        c.ptr("tn_p", nullable=True)
        c.l1s = c.glob("l1s")
        if c.mode == "verify":
            time_init(c, t)
            v = c.view_pre
            g = c.l1s
            c.inputs.update(dtype=v.get(g, "dedicated.type"), h=v.get(g, "dedicated.h"), hsn=v.get(g, "dedicated.h1.hsn"),
                            maio=v.get(g, "dedicated.h1.maio"), n=v.get(g, "dedicated.h1.n"),
                            ma=("array", v.cell(g, "dedicated.h1.ma[]"), 64),
                            h0_arfcn=v.get(g, "dedicated.h0.arfcn"), serv_arfcn=v.get(g, "serving_cell.arfcn"))

    def hopping(self, v, c):
        g = c.l1s
        return z3.And(v.get(g, "dedicated.type") != 0, v.get(g, "dedicated.h") != 0)

    def requires(self, c):
        v, g = c.view_pre, c.l1s
        hsn, maio, n = v.get(g, "dedicated.h1.hsn"), v.get(g, "dedicated.h1.maio"), v.get(g, "dedicated.h1.n")
        hop = self.hopping(v, c)
        reqs = [("hopping_params_in_range", z3.Implies(hop, z3.And(hsn <= 63, maio <= 63, n >= 1, n <= 64)))]
        if c.mode == "verify":
            kind, nb = c.case
            reqs.append(("case", z3.Not(hop) if kind == "nohop" else z3.And(hop, in_nb(n, nb))))
        else:
            reqs += time_pre_call(c, c.a.t)
        return reqs

    def assigns(self, c):
        return [c.region(p) for p in (c.a.arfcn_p, c.a.tsc_p, c.a.tn_p) if p.block is not None]

    def ensures(self, c, old, new, ret):
        g, a = c.l1s, c.a
        o = lambda path, *i: old.get(g, path, *i)
        none = o("dedicated.type") == 0
        hop = self.hopping(old, c)

        def nn(p):
            return z3.Not(p.null) if not isinstance(p.null, bool) else z3.BoolVal(not p.null)
        posts = []
        if c.mode == "verify" and c.case[0] == "hop":
            nb = c.case[1]
            mai = M.mai(o("dedicated.h1.hsn"), o("dedicated.h1.maio"), o("dedicated.h1.n"), nb, c.fn)
            posts.append(("arfcn_hopping_is_ma_at_mai", z3.Implies(nn(a.arfcn_p), new.get(a.arfcn_p) == o("dedicated.h1.ma[]", mai))))
        else:
            posts.append(("arfcn_serving_cell", z3.Implies(z3.And(nn(a.arfcn_p), none), new.get(a.arfcn_p) == o("serving_cell.arfcn"))))
            posts.append(("arfcn_non_hopping", z3.Implies(z3.And(nn(a.arfcn_p), z3.Not(none), z3.Not(hop)),
                                                         new.get(a.arfcn_p) == o("dedicated.h0.arfcn"))))
        posts.append(("tsc", z3.Implies(nn(a.tsc_p), new.get(a.tsc_p) == z3.If(none, o("serving_cell.bsic") % 8, o("dedicated.tsc")))))
        posts.append(("tn", z3.Implies(nn(a.tn_p), new.get(a.tn_p) == z3.If(none, 0, o("dedicated.tn")))))
        return posts

"""C19 contracts (C side): gsm_fn2gsmtime, gsm_gsmtime2fn (libosmocore gsm_utils.c), l1s_time_inc (firmware sync.c).

Top-level post-conditions come from the statement of C19 through spec/gsm_time.py; pre-conditions and frames
from the code and its call sites (struct gsm_time is only ever filled by gsm_fn2gsmtime / stepped by l1s_time_inc).
"""
import z3

from engine.cvc.contract import Contract
from spec import gsm_time as G

GSM_UTILS = "src/shared/libosmocore/src/gsm/gsm_utils.c"
SYNC = "src/target/firmware/layer1/sync.c"
FIELDS = ("t1", "t2", "t3", "tc")


def time_fields(view, p):
    return [view.get(p, f) for f in ("fn",) + FIELDS]


def consistent_with(view, p, fn):
    """struct gsm_time at p holds exactly the decomposition of frame number fn"""
    t1, t2, t3, tc = G.gsm_time(fn)
    return [("fn", view.get(p, "fn") == fn), ("t1", view.get(p, "t1") == t1), ("t2", view.get(p, "t2") == t2),
            ("t3", view.get(p, "t3") == t3), ("tc", view.get(p, "tc") == tc)]


class Fn2GsmTime(Contract):
    """gsm_fn2gsmtime(time, fn): fn < 2715648  ==>  *time == gsm_time(fn)   (all five members)"""
    name = "gsm_fn2gsmtime"

    def params(self, c):
        c.ptr("time")
        c.int("fn")

    def requires(self, c):
        return [("fn_in_hyperframe", c.a.fn < G.HYPERFRAME)]

    def assigns(self, c):
        return [c.region(c.a.time)]

    def ensures(self, c, old, new, ret):
        return consistent_with(new, c.a.time, c.a.fn)


class GsmTime2Fn(Contract):
    """gsm_gsmtime2fn(time): t1,t2,t3 == decomposition of some f < 2715648  ==>  returns f; *time unchanged.
    (time->fn and time->tc are not read by the function and are left unconstrained.)"""
    name = "gsm_gsmtime2fn"

    def params(self, c):
        t = c.ptr("time")
        if c.mode == "verify":
            c.f = z3.Int("ghost.f")
            c.inputs["f"] = c.f
            v = c.view_pre
            c.inputs.update(t1=v.get(t, "t1"), t2=v.get(t, "t2"), t3=v.get(t, "t3"))

    def requires(self, c):
        t = c.a.time
        v = c.view_pre
        if c.mode == "verify":
            f = c.f
            return [("f_in_hyperframe", z3.And(f >= 0, f < G.HYPERFRAME)),
                    ("consistent", G.consistent(f, v.get(t, "t1"), v.get(t, "t2"), v.get(t, "t3")))]
        # call mode: existence of f, witnessed by the spec's own recomposition
        t1, t2, t3 = v.get(t, "t1"), v.get(t, "t2"), v.get(t, "t3")
        f = 51 * ((t3 - t2) % 26) + t3 + 1326 * t1
        c.f = f
        return [("consistent", z3.And(f < G.HYPERFRAME, G.consistent(f, t1, t2, t3)))]

    def ensures(self, c, old, new, ret):
        return [("returns_f", ret == c.f)]


class L1sTimeInc(Contract):
    """l1s_time_inc(time, delta): *time == gsm_time(fn), fn < H, 1 <= delta < H
       ==>  *time == gsm_time((fn + delta) mod H)    (incremental branch delta == 1 and recompute branch)"""
    name = "l1s_time_inc"
    uses = (Fn2GsmTime,)

    def params(self, c):
        c.ptr("time")
        c.int("delta_fn")
        if c.mode == "verify":
            c.fn0 = z3.Int("ghost.fn0")
            c.inputs["fn"] = c.fn0

    def init_state(self, c):
        # the pre-state *is* the decomposition of fn0 (terms, not equations)
        E, t = c.E, c.a.time
        t1, t2, t3, tc = G.gsm_time(c.fn0)
        E.assume(z3.And(c.fn0 >= 0, c.fn0 < G.HYPERFRAME))
        for f, term in (("fn", c.fn0), ("t1", t1), ("t2", t2), ("t3", t3), ("tc", tc)):
            E.state.mem[(t.block.id, ("[]", f))] = term

    def requires(self, c):
        v = c.view_pre
        reqs = [("delta_range", z3.And(c.a.delta_fn >= 1, c.a.delta_fn < G.HYPERFRAME))]
        if c.mode == "call":
            c.fn0 = v.get(c.a.time, "fn")
            reqs += [("fn_in_hyperframe", c.fn0 < G.HYPERFRAME)]
            reqs += [("consistent." + n, g) for n, g in consistent_with(v, c.a.time, c.fn0)]
        return reqs

    def assigns(self, c):
        return [c.region(c.a.time)]

    def ensures(self, c, old, new, ret):
        fn1 = (c.fn0 + c.a.delta_fn) % G.HYPERFRAME
        return consistent_with(new, c.a.time, fn1)

"""C11 contracts: firmware mframe_schedule_set(); trxcon l1sched_mframe_layout() and the frame-lookup sites of sched_trx.c.

Top-level post-conditions come from the statement of C11 through spec/mframe_correspondence.py (`triggers`, `first_match`);
pre-conditions, frames and the loop invariant come from the code:
  * l1s.current_time.fn is a frame number (< GSM_MAX_FN; maintained by l1s_time_inc, property C19),
  * task_id is an enumerator of enum mframe_task (mframe_schedule() only calls it for bits set by mframe_enable/mframe_set),
  * tdma_schedule_set() obeys its C08 contract (returns -1 or the number of frames of the set, at most 24),
  * ts->mf_layout is only ever assigned in l1sched_configure_ts (the result of l1sched_mframe_layout(), then possibly NULL:
    prefix under contract, ConfigureTs) and NULL elsewhere (checked textually / on the AST by the property part on every run),
    so `NULL or a layout with period > 0 and frames != NULL` is a representation invariant of every timeslot; 0 <= tn <= 7.
All table contents the contracts mention are read from the verifying engine's own view of the REAL initialisers.
"""
import z3

from engine.cvc.contract import Contract, LoopSpec
from engine.cvc.values import V, Ptr
from engine.pyvc.values import Unsupported
from spec import mframe_correspondence as MC

MFRAME_SCHED = "src/target/firmware/layer1/mframe_sched.c"
SCHED_MFRAME = "src/host/trxcon/src/sched_mframe.c"
SCHED_TRX = "src/host/trxcon/src/sched_trx.c"
LOOKUP_PRELUDE = "trxcon_sched_lookup_prelude.h"

GSM_MAX_FN = 26 * 51 * 2048
SCHEDULE_AHEAD = 2          # checked against the real macro by the property part (C11/mframe_sched.c/SCHEDULE_AHEAD)
I = z3.IntSort()


def column(E, block, member):
    """python list: the `member` column of a constant table block, from the engine's semantic initialiser"""
    if block.init is None:
        raise Unsupported("%s has no constant initialiser" % block.name)
    tab = block.init.get(("[]", member))
    if tab is None:
        raise Unsupported("%s has no member %s" % (block.name, member))
    return [tab.get(k, 0) for k in range(block.count.t)]


# ====================================================================== firmware

class TdmaScheduleSetUsed(Contract):
    """tdma_schedule_set(frame_offset, item_set, p3) as USED by mframe_schedule_set: the part of its C08 contract the caller
    needs (verified in property C08 for well-formed sets that fit the ring): writes only l1s.tdma_sched, returns -1 or the
    number of frame separators of the set (< 25).  Ghost effect: the call is logged under the index of the table entry
    `si` points to."""
    name = "tdma_schedule_set"

    def params(self, c):
        c.int("frame_offset")
        c.fnptr("item_set")          # opaque pointer code of a scheduler set (declared `extern` in layer1/prim.h)
        c.int("p3")
        c.g = c.glob("l1s")

    def requires(self, c):
        return [("item_set_not_null", c.a.item_set != 0)]

    def assigns(self, c):
        return [c.region(c.g, "tdma_sched", whole=True)]

    def ghost_effect(self, c, old):
        E = c.E
        fr = E.frames[-1]
        did = fr.names.get("si")
        si = fr.locals.get(did) if did is not None else None
        if not isinstance(si, Ptr) or not si.steps or si.steps[-1][0] != "i":
            raise Unsupported("tdma_schedule_set called while `si` is not a pointer into the task's table")
        k = si.steps[-1][1].z()
        g = E.state.ghost
        g["fired"] = z3.Store(g["fired"], k, z3.Select(g["fired"], k) + 1)
        g["a_off"] = z3.Store(g["a_off"], k, c.a.frame_offset)
        g["a_set"] = z3.Store(g["a_set"], k, c.a.item_set)
        g["a_p3"] = z3.Store(g["a_p3"], k, c.a.p3)
        g["ncalls"] = g["ncalls"] + 1

    def ensures(self, c, old, new, ret):
        return [("returns_minus1_or_frames_of_the_set", z3.And(ret >= -1, ret <= 24))]


class MframeScheduleSet(Contract):
    """mframe_schedule_set(task_id), one case per enumerator of enum mframe_task.

    fn = l1s.current_time.fn < GSM_MAX_FN, T = the task's NULL-terminated table with n entries  ==>
      for every entry j < n:  tdma_schedule_set is called for it exactly once iff  triggers(fn + SCHEDULE_AHEAD, modulo_j, frame_nr_j),
      and then as tdma_schedule_set(SCHEDULE_AHEAD - SCHEDULE_LATENCY = 1, T[j].sched_set, task_id | T[j].flags << 8);
      no other call; only l1s.tdma_sched (by the callee) and l1s.mframe_sched.safe_fn are written.
    Loop 1 (`for (si = set; si->sched_set != NULL; si++)`): invariant over the index k of si in T, entries < k handled."""
    name = "mframe_schedule_set"
    uses = (TdmaScheduleSetUsed,)
    trusted_init = ("sched_set_for_task",)
    merge_ifs = True
    AHEAD = SCHEDULE_AHEAD

    def __init__(self, cases):
        self.cases = tuple(cases)
        self.loops = {1: LoopSpec(self.inv, self.loop_assigns, ptr_locals={"si": self.si_ptr})}

    def params(self, c):
        E = c.E
        c.int("task_id", value=c.case)
        c.g = c.glob("l1s")
        m = c.memo
        m["fn"] = c.view_pre.get(c.g, "current_time.fn")
        c.inputs["fn"] = m["fn"]
        # the task's table, as the engine sees it
        root = E.global_block("sched_set_for_task")
        code = column2(E, root)[c.case]
        if code == 0:
            raise Unsupported("sched_set_for_task[%d] is NULL although %d is an enumerator of enum mframe_task" % (c.case, c.case))
        kind, tname = E.dnames[code - 1]
        tb = E.global_block(tname)
        sets = column(E, tb, "sched_set")
        # a table without NULL terminator: the loop runs off its end (the in-bounds obligation of `si->sched_set` fails)
        n = sets.index(0) if 0 in sets else len(sets)
        m.update(table=tb, tname=tname, n=n, sets=sets, modulo=column(E, tb, "modulo"), frame_nr=column(E, tb, "frame_nr"),
                 flags=column(E, tb, "flags"))
        g = E.state.ghost
        g["fired"] = z3.K(I, z3.IntVal(0))
        g["a_off"] = z3.K(I, z3.IntVal(0))
        g["a_set"] = z3.K(I, z3.IntVal(0))
        g["a_p3"] = z3.K(I, z3.IntVal(0))
        g["ncalls"] = z3.IntVal(0)

    def requires(self, c):
        return [("current_fn_is_a_frame_number", c.memo["fn"] < GSM_MAX_FN)]

    def assigns(self, c):
        return [c.region(c.g, "tdma_sched", whole=True), c.region(c.g, "mframe_sched.safe_fn")]

    # ---- loop 1
    def k_of(self, c, L):
        """index of `si` in the table: read off the pointer when it has a value; the ghost index while it is havocked"""
        try:
            p = L.si
        except Unsupported:
            if "k" not in c.memo:
                c.memo["k"] = z3.Int(c.E.fresh("ghost.k"))
            return c.memo["k"]
        if not isinstance(p, Ptr) or p.block is not c.memo["table"] or len(p.steps) != 1:
            raise Unsupported("`si` does not point into %s" % c.memo["tname"])
        return p.steps[-1][1].z()

    def si_ptr(self, c, L, cur):
        try:
            return L.si
        except Unsupported:
            m = c.memo
            tb = m["table"]
            return Ptr(tb, (("i", V(self.k_of(c, L), 0, m["n"])),), tb.elem)

    def loop_assigns(self, c, L):
        # ghost call log: havocked with the loop (fresh symbols), constrained again by the invariant
        E = c.E
        g = E.state.ghost
        for nm in ("fired", "a_off", "a_set", "a_p3"):
            g[nm] = z3.Array(E.fresh("ghost.%s" % nm), I, I)
        g["ncalls"] = z3.Int(E.fresh("ghost.ncalls"))
        return self.assigns(c)

    def handled(self, c, g, upto):
        """entries j < upto have been handled: called iff triggered, with the right arguments; later entries not yet"""
        m = c.memo
        fn = m["fn"]
        task = c.case
        trig = [MC.triggers(fn + self.AHEAD, m["modulo"][j], m["frame_nr"][j]) if m["modulo"][j] else z3.BoolVal(False)
                for j in range(m["n"])]
        done = [z3.BoolVal(j < upto) if isinstance(upto, int) else (j < upto) for j in range(m["n"])]
        called, args = [], []
        for j in range(m["n"]):
            p3 = task | (m["flags"][j] << 8)
            called.append(z3.Select(g["fired"], j) == z3.If(z3.And(done[j], trig[j]), 1, 0))
            args.append(z3.Implies(z3.And(done[j], trig[j]),
                                   z3.And(z3.Select(g["a_off"], j) == 1, z3.Select(g["a_set"], j) == m["sets"][j],
                                          z3.Select(g["a_p3"], j) == p3)))
        return [("every_entry_called_once_iff_triggered", z3.And(called + [z3.BoolVal(True)])),
                ("call_arguments_are_1_set_task_flags", z3.And(args + [z3.BoolVal(True)])),
                ("no_other_call", g["ncalls"] == z3.Sum([z3.If(z3.And(done[j], trig[j]), 1, 0) for j in range(m["n"])] + [z3.IntVal(0)]))]

    def inv(self, c, L, entry, cur):
        m = c.memo
        k = self.k_of(c, L)
        g = {nm: cur.ghost(nm) for nm in ("fired", "a_off", "a_set", "a_p3", "ncalls")}
        return [("si_inside_table", z3.And(0 <= k, k <= m["n"])),
                ("fn_unchanged", cur.get(c.g, "current_time.fn") == m["fn"])] + self.handled(c, g, k)

    def ensures(self, c, old, new, ret):
        m = c.memo
        g = {nm: new.ghost(nm) for nm in ("fired", "a_off", "a_set", "a_p3", "ncalls")}
        return self.handled(c, g, m["n"]) + [("fn_unchanged", new.get(c.g, "current_time.fn") == m["fn"])]


def column2(E, block):
    """the single (unnamed) column of an array of scalars"""
    tab = block.init.get(("[]",)) if block.init else None
    if tab is None:
        raise Unsupported("%s has no constant initialiser" % block.name)
    return [tab.get(k, 0) for k in range(block.count.t)]


# ====================================================================== trxcon: layout lookup

def first_match_term(cfgs, masks, config, tn, upto=None):
    """z3: `no entry j < upto matches (config, tn)`; entries are concrete, config/tn terms"""
    def bit(mask):
        return z3.Or([tn == b for b in range(8) if (mask >> b) & 1] + [z3.BoolVal(False)])
    return [z3.And(config == cfgs[j], bit(masks[j])) for j in range(len(cfgs) if upto is None else upto)]


class MframeLayout(Contract):
    """l1sched_mframe_layout(config, tn), 0 <= tn <= 7, any config value:
       returns &layouts[r] for the first r with layouts[r].chan_config == config and bit tn in layouts[r].slotmask, else NULL;
       writes nothing.  (The ARRAY_SIZE(layouts) iterations are unrolled: structural constant.)"""
    name = "l1sched_mframe_layout"

    def params(self, c):
        c.int("config")
        c.int("tn", hi=7)
        E = c.E
        b = E.global_block("layouts")
        c.memo.update(layouts=b, cfgs=column(E, b, "chan_config"), masks=column(E, b, "slotmask"))

    def ensures(self, c, old, new, ret):
        m = c.memo
        r = c.E.last_return
        if not isinstance(r, Ptr):
            raise Unsupported("l1sched_mframe_layout returned %r" % (r,))
        matches = first_match_term(m["cfgs"], m["masks"], c.a.config, c.a.tn)
        if r.block is None:
            return [("null_only_if_no_entry_matches", z3.Not(z3.Or(matches + [z3.BoolVal(False)])))]
        if r.block is not m["layouts"] or len(r.steps) != 1 or not r.steps[0][1].concrete:
            raise Unsupported("l1sched_mframe_layout returned a pointer that is not &layouts[const]")
        i = r.steps[0][1].t
        return [("returned_entry_matches", matches[i] if i < len(matches) else z3.BoolVal(False)),
                ("returned_entry_is_the_first_match", z3.Not(z3.Or(matches[:i] + [z3.BoolVal(False)])))]


# ====================================================================== trxcon: frame lookup sites (prefix contracts)

def find_lookup_site(tu, fname):
    """The frame-lookup statements of a function of sched_trx.c, located on the typed AST:
         S1  the statement containing `<fn> % <...>->period`
         S2..Sn  the following sibling statements that mention the pointer variable assigned from `<...>->frames`
                 and contain no call
       -> (id of Sn, info)."""
    f = tu.function(fname)

    def has(n, pred):
        if pred(n):
            return True
        return any(has(c, pred) for c in n.get("inner", []) if isinstance(c, dict))

    def is_mod_period(n):
        return n.get("kind") == "BinaryOperator" and n.get("opcode") == "%" and \
            has(n["inner"][1], lambda x: x.get("kind") == "MemberExpr" and x.get("name") == "period")

    def mentions_frames(n):
        return has(n, lambda x: x.get("kind") == "MemberExpr" and x.get("name") == "frames")

    def refs(n, did):
        return has(n, lambda x: x.get("kind") == "DeclRefExpr" and x.get("referencedDecl", {}).get("id") == did)

    def assigned_var(n):
        if n.get("kind") == "BinaryOperator" and n.get("opcode") == "=":
            l = n["inner"][0]
            while l.get("kind") == "ParenExpr":
                l = l["inner"][0]
            if l.get("kind") == "DeclRefExpr":
                return l["referencedDecl"]["id"], l["referencedDecl"].get("name")
        return None, None

    found = []

    def walk(n):
        if n.get("kind") == "CompoundStmt":
            kids = [c for c in n.get("inner", []) if c.get("kind")]
            for a, s in enumerate(kids):
                if s.get("kind") in ("CompoundStmt", "ForStmt", "WhileStmt", "IfStmt", "DoStmt"):
                    continue
                if has(s, is_mod_period):
                    found.append((kids, a))
        for c in n.get("inner", []):
            if isinstance(c, dict):
                walk(c)
    walk(f)
    if len(found) != 1:
        raise Unsupported("%s: expected exactly one `fn %% ...->period` statement, found %d" % (fname, len(found)))
    kids, a = found[0]
    # the statement that forms the pointer into ->frames, found by SHAPE (`p = &...->frames[e]` / `...->frames + e` / `...->frames[e]`):
    # S1 itself or a later sibling; statements in between (an assertion on the offset, a log line) are part of the executed prefix
    var = None
    b = a
    for b in range(a, min(a + 8, len(kids))):
        if mentions_frames(kids[b]):
            var = assigned_var(kids[b])
            if var[0] is None and kids[b].get("kind") == "DeclStmt":
                # `const struct l1sched_tdma_frame *frame = &...->frames[offset];`
                ds = [d for d in kids[b].get("inner", []) if d.get("kind") == "VarDecl" and mentions_frames(d)]
                if len(ds) == 1:
                    var = (ds[0]["id"], ds[0].get("name"))
            break
    if not var or var[0] is None:
        raise Unsupported("%s: no `p = ...->frames[...]` statement within 8 statements of the `fn %% period` computation" % fname)
    last = b
    while last + 1 < len(kids) and refs(kids[last + 1], var[0]) and not has(kids[last + 1], lambda x: x.get("kind") == "CallExpr"):
        last += 1
    if last == b:
        raise Unsupported("%s: the frame pointer is not used after the lookup" % fname)

    return kids[last]["id"], {"frame_pointer": var[1], "statements": last - a + 1, "first_line": orig_line(tu, kids[a]),
                              "last_line": orig_line(tu, kids[last])}


def orig_line(tu, node):
    """line of a statement in the REAL file: clang's JSON prints `line` only when it changes, so the byte offset in the
    generated unit is mapped back through the #line directives that precede the verbatim cuts"""
    import re
    text = getattr(tu, "source_text", None)
    b = node.get("range", {}).get("begin", {})
    off = b.get("offset", b.get("expansionLoc", {}).get("offset"))
    if text is None or off is None:
        return 0
    ln = text.count("\n", 0, off) + 1
    lines = text.split("\n")
    for k in range(ln - 1, -1, -1):
        m = re.match(r'#line (\d+) "', lines[k])
        if m:
            return int(m.group(1)) + (ln - 1 - k) - 1
    return 0


class LookupSite(Contract):
    """Prefix contract of a frame-lookup function of sched_trx.c (executed from its entry up to and including the lookup
    statements, see find_lookup_site), one case per layouts[] entry i:

      sched->ts[tn] is NULL or a timeslot whose mf_layout is NULL or &layouts[i], for the entries i that
      l1sched_configure_ts can install (ConfigureTs.REP: period > 0, frames != NULL);  0 <= tn <= 7;  any fn   ==>
      no undefined behaviour (period != 0 at `fn % period`), every access through the frame pointer stays inside
      layouts[i].frames[] (the table's real length), and the lookup reads row fn mod period."""
    arg2 = "br"

    def __init__(self, fname, arg2, stop_id, cases, out_member=None, col=None):
        self.name, self.arg2, self.stop_id, self.cases, self.out_member, self.col = fname, arg2, stop_id, tuple(cases), out_member, col

    def params(self, c):
        E = c.E
        E.stop_after = self.stop_id
        sched = c.ptr("sched")
        arg = c.ptr(self.arg2)
        i = c.case
        lay = E.global_block("layouts")
        rec_state = sched.ctype
        ts_field = rec_state.rec.field("ts").ctype             # struct l1sched_ts *[8]
        rec_ts = ts_field.elem.to
        ts0 = E.new_block("ts", rec_ts, 1, "param", single=True)
        ts_null = z3.Bool("ts.isnull")
        mf_null = z3.Bool("ts.mf_layout.isnull")
        E.ptr_cells[(sched.block.id, ("[]", "ts", "[]"))] = Ptr(ts0, (("i", V(0)),), rec_ts, ts_null)
        E.ptr_cells[(ts0.id, ("[]", "mf_layout"))] = Ptr(lay, (("i", V(i)),), lay.elem, mf_null)
        v = c.view_pre
        m = c.memo
        m.update(arg=arg, fn=v.get(arg, "fn"), tn=v.get(arg, "tn"), period=column(E, lay, "period")[i], layouts=lay)
        c.inputs.update(fn=m["fn"], tn=m["tn"], ts_isnull=ts_null, mf_layout_isnull=mf_null)

    def requires(self, c):
        return [("timeslot_number_0_to_7", c.memo["tn"] <= 7)]

    def assigns(self, c):
        if self.out_member:
            return [c.region(c.memo["arg"], self.out_member)]
        return []

    def ensures(self, c, old, new, ret):
        m = c.memo
        E = c.E
        if not E.stopped:
            return [("timeslot_not_configured_or_no_handler", z3.BoolVal(True))]
        posts = []
        try:
            off = c.ret_locals.offset
        except Unsupported:
            off = None
        if off is not None and m["period"]:
            posts.append(("row_is_fn_mod_period", off == m["fn"] % m["period"]))
        return posts or [("lookup_done", z3.BoolVal(True))]


class SubstFrameLossSite(Contract):
    """subst_frame_loss(lchan, handler, fn): prefix contract for the lookup inside its loop
    (`fp = &mf->frames[GSM_TDMA_FN_INC(bi.fn) % mf->period]; if (fp->dl_chan != lchan->type) continue;`), one case per
    layouts[] entry i.  lchan->ts is a timeslot whose mf_layout is &layouts[i] (the caller l1sched_handle_rx_burst has
    checked both for NULL)  ==>  no undefined behaviour and every access through fp stays inside layouts[i].frames[].
    Loop 1: the loop state (i, bi.fn, bi.bid, lchan->tdma.*) is arbitrary at the head of every iteration (invariant
    `true`), so the lookup is verified for ANY frame number in bi.fn."""
    name = "subst_frame_loss"

    def __init__(self, stop_id, cases):
        self.stop_id, self.cases = stop_id, tuple(cases)
        self.loops = {1: LoopSpec(self.inv, self.loop_assigns)}

    def params(self, c):
        E = c.E
        E.stop_after = self.stop_id
        lchan = c.ptr("lchan")
        c.fnptr("handler")
        c.int("fn")
        i = c.case
        lay = E.global_block("layouts")
        rec_ts = lchan.ctype.rec.field("ts").ctype.to
        ts0 = E.new_block("ts", rec_ts, 1, "param", single=True)
        E.ptr_cells[(lchan.block.id, ("[]", "ts"))] = Ptr(ts0, (("i", V(0)),), rec_ts)
        E.ptr_cells[(ts0.id, ("[]", "mf_layout"))] = Ptr(lay, (("i", V(i)),), lay.elem)
        c.memo.update(lchan=lchan, period=column(E, lay, "period")[i])
        v = c.view_pre
        c.inputs.update(fn=c.a.fn, last_proc=v.get(lchan, "tdma.last_proc"), num_proc=v.get(lchan, "tdma.num_proc"))

    def assigns(self, c):
        lc = c.memo["lchan"]
        return [c.region(lc, "tdma.last_proc"), c.region(lc, "tdma.num_proc"), c.region(lc, "tdma.num_lost")]

    def loop_assigns(self, c, L):
        return self.assigns(c) + [c.region(L.bi, "fn"), c.region(L.bi, "bid")]

    def inv(self, c, L, entry, cur):
        return [("true", z3.BoolVal(True))]

    def ensures(self, c, old, new, ret):
        return [("lookup_done" if c.E.stopped else "no_frame_to_substitute", z3.BoolVal(True))]


# ====================================================================== trxcon: l1sched_configure_ts (prefix) - the invariant of ts->mf_layout

def find_configure_prefix(tu, fname="l1sched_configure_ts"):
    """the part of l1sched_configure_ts that decides ts->mf_layout: from the entry up to and including the last of the `if`
    statements that directly follow `ts->mf_layout = l1sched_mframe_layout(...)` (the validation of the chosen layout).
    -> (id of that last `if` (or of the assignment when no `if` follows), info)"""
    f = tu.function(fname)
    body = [c for c in f["inner"] if c.get("kind") == "CompoundStmt"][0]
    kids = [c for c in body.get("inner", []) if c.get("kind")]

    def has(n, pred):
        return pred(n) or any(has(c, pred) for c in n.get("inner", []) if isinstance(c, dict))

    def is_assignment_from_lookup(n):
        if n.get("kind") != "BinaryOperator" or n.get("opcode") != "=":
            return False
        lhs, rhs = n["inner"]
        return has(lhs, lambda x: x.get("kind") == "MemberExpr" and x.get("name") == "mf_layout") and \
            has(rhs, lambda x: x.get("kind") == "DeclRefExpr" and x.get("referencedDecl", {}).get("name") == "l1sched_mframe_layout")
    at = [k for k, s in enumerate(kids) if is_assignment_from_lookup(s)]
    if len(at) != 1:
        raise Unsupported("%s: expected exactly one top-level `ts->mf_layout = l1sched_mframe_layout(...)`, found %d" % (fname, len(at)))
    last = at[0]
    while last + 1 < len(kids) and kids[last + 1].get("kind") == "IfStmt":
        last += 1
    # nothing after the prefix may assign mf_layout
    for s in kids[last + 1:]:
        if has(s, lambda x: x.get("kind") == "BinaryOperator" and x.get("opcode") == "=" and
               has(x["inner"][0], lambda y: y.get("kind") == "MemberExpr" and y.get("name") == "mf_layout")):
            raise Unsupported("%s assigns ts->mf_layout after the validation of the layout" % fname)
    return kids[last]["id"], {"assignment_line": orig_line(tu, kids[at[0]]), "validation_ifs": last - at[0],
                              "last_line_of_prefix": orig_line(tu, kids[last]), "first_line": tu.extraction["functions"][fname]["first_line"]}


class ConfigureTs(Contract):
    """l1sched_configure_ts(sched, tn, config), 0 <= tn <= 7, ANY config value: prefix contract (entry .. validation of the layout,
    see find_configure_prefix; the rest of the function does not assign ts->mf_layout - checked on the AST).
    l1sched_mframe_layout is interpreted from its real body (inline).  Assumed callees (their only effect on mf_layout, from
    sched_trx.c): l1sched_reset_ts sets sched->ts[tn]->mf_layout = NULL; l1sched_add_ts returns NULL or a new timeslot.

      at every exit of the prefix, for the timeslot ts the function worked on (if any):
        REP   ts->mf_layout == NULL  or  ts->mf_layout == &layouts[i] with layouts[i].chan_config == config, bit tn in
              layouts[i].slotmask, layouts[i].period > 0, layouts[i].frames != NULL
        the prefix is passed (the function goes on to return 0 or -ENOMEM)  ==>  ts->mf_layout != NULL
        the prefix returns (always a negative value)                        ==>  ts == NULL or ts->mf_layout == NULL"""
    name = "l1sched_configure_ts"
    inline = ("l1sched_mframe_layout",)

    def __init__(self, stop_id):
        self.stop_id = stop_id

    def params(self, c):
        E = c.E
        E.stop_after = self.stop_id
        sched = c.ptr("sched")
        c.int("tn", lo=0, hi=7)
        c.int("config")
        rec_ts = sched.ctype.rec.field("ts").ctype.elem.to
        ts0 = E.new_block("ts", rec_ts, 1, "param", single=True)
        ts_null = z3.Bool("ts.isnull")
        E.ptr_cells[(sched.block.id, ("[]", "ts", "[]"))] = Ptr(ts0, (("i", V(0)),), rec_ts, ts_null)
        m = c.memo
        m.update(sched=sched, ts0=ts0, rec_ts=rec_ts, layouts=E.global_block("layouts"))
        c.inputs.update(tn=c.a.tn, config=c.a.config, ts_isnull=ts_null)

        def reset_ts(E_, args, node):
            # ASSUMED (sched_trx.c l1sched_reset_ts): sched->ts[tn]->mf_layout = NULL; channel states freed
            E_.used_externals.discard("l1sched_reset_ts")       # not a no-effect external: the property part states the assumption
            E_.ptr_cells[(ts0.id, ("[]", "mf_layout"))] = Ptr.NULL(E_.global_block("layouts").elem)
            E_.ptr_written.add((ts0.id, ("[]", "mf_layout")))
            return E_.fresh_int("ret_reset_ts", E_.ntype(node))

        def add_ts(E_, args, node):
            # ASSUMED (sched_trx.c l1sched_add_ts): NULL, or a newly allocated timeslot
            E_.used_externals.discard("l1sched_add_ts")
            nb = E_.new_block("new_ts", rec_ts, 1, "param", single=True)
            return Ptr(nb, (("i", V(0)),), rec_ts, z3.Bool(E_.fresh("add_ts.isnull")))
        E.externals["l1sched_reset_ts"] = reset_ts
        E.externals["l1sched_add_ts"] = add_ts

    def assigns(self, c):
        m = c.memo
        return [c.region(Ptr(m["ts0"], (("i", V(0)),), m["rec_ts"]), "mf_layout")]

    def ensures(self, c, old, new, ret):
        E, m = c.E, c.memo
        lay = m["layouts"]
        try:
            ts = c.ret_locals.ts
        except Unsupported:
            ts = None
        if not isinstance(ts, Ptr):
            raise Unsupported("l1sched_configure_ts: local `ts` is not a pointer at the exit")
        stopped = E.stopped
        posts = []
        if not stopped:
            posts.append(("prefix_returns_a_negative_value", ret < 0 if ret is not None else z3.BoolVal(False)))
        if ts.block is None:
            # no timeslot object (allocation failed)
            posts.append(("no_timeslot_only_on_error", z3.BoolVal(not stopped)))
            return posts
        ts_exists = z3.Not(ts.null) if not isinstance(ts.null, bool) else z3.BoolVal(not ts.null)
        key = (ts.block.id, ("[]", "mf_layout"))
        mf = E.ptr_cells.get(key)
        if mf is None:
            # never assigned on this path: only possible when there is no timeslot (ts == NULL) and the prefix returned
            posts.append(("mf_layout_decided_for_every_timeslot", z3.And(z3.BoolVal(not stopped), z3.Not(ts_exists))))
            return posts
        if mf.block is None:
            valid, is_null = False, True
        else:
            if mf.block is not lay or len(mf.steps) != 1 or not mf.steps[0][1].concrete or not isinstance(mf.null, bool) or mf.null:
                raise Unsupported("ts->mf_layout is not NULL / &layouts[const] at the exit of the prefix")
            i = mf.steps[0][1].t
            is_null = False
            frames = E.resolve(column(E, lay, "frames")[i], lay.elem.rec.field("frames").ctype)
            rows = frames.block.count.t if isinstance(frames, Ptr) and frames.block is not None else 0
            period = column(E, lay, "period")[i]
            valid = z3.And(z3.BoolVal(period > 0 and rows > 0), c.a.config == column(E, lay, "chan_config")[i],
                           z3.Or([c.a.tn == b for b in range(8) if (column(E, lay, "slotmask")[i] >> b) & 1] + [z3.BoolVal(False)]))
        posts.append(("REP_mf_layout_is_NULL_or_a_layout_with_period_and_frames",
                      z3.Implies(ts_exists, z3.BoolVal(True) if is_null else valid)))
        if stopped:
            posts.append(("configured_timeslot_has_a_layout", z3.And(ts_exists, z3.BoolVal(not is_null))))
        else:
            posts.append(("error_return_leaves_the_timeslot_unconfigured", z3.Implies(ts_exists, z3.BoolVal(is_null))))
        return posts

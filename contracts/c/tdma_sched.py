"""C08 contracts: the firmware TDMA scheduler, src/target/firmware/layer1/tdma_sched.c (ARM parse).

Concrete state: l1s.tdma_sched = { bucket[25] = { item[8] = {cb, p1, p2, p3, prio, flags}, num_items }, cur_bucket }.
The contracts are stated on the concrete arrays (exact `Store` equalities, so the frame is part of each post-condition);
props/cparts/C08.py derives the statement's ring-view formulation (spec/ring_view.py) from them as lemmas.
Pre-conditions/frames come from the code: WF (cur_bucket < 25, num_items <= 8) is established by the zero-initialised
global and preserved by every operation (obligation of every contract).
"""
import z3

from engine.cvc.contract import Contract, LoopSpec
from engine.cvc.values import V, FnPtr
from engine.pyvc.values import Unsupported
from spec import ring_view as RV

TDMA = "src/target/firmware/layer1/tdma_sched.c"
ITEM_FIELDS = ("cb", "p1", "p2", "p3", "prio", "flags")
B = "tdma_sched.bucket[]"


def sched_of(view, g):
    """spec.ring_view.Sched over the concrete arrays of l1s in a memory view"""
    fld = {f: view.cell(g, B + ".item[].%s" % f) for f in ITEM_FIELDS}
    return RV.Sched(view.get(g, "tdma_sched.cur_bucket"), view.cell(g, B + ".num_items"), fld)


def item_regions(c, g, fields=ITEM_FIELDS):
    return [c.region(g, B + ".item[].%s" % f, whole=True) for f in fields]


def callbacks_non_null(s, b):
    """every used slot of bucket b holds a callable item"""
    return z3.And([z3.Implies(k < z3.Select(s.num, b), z3.Select(s.fld["cb"], b * RV.CAP + k) != 0) for k in range(RV.CAP)])


class WrapBucket(Contract):
    """wrap_bucket(offset): cur_bucket < 25  ==>  returns (cur_bucket + offset) mod 25; nothing written"""
    name = "wrap_bucket"
    helper = True          # static; which bucket stands for `offset frames ahead` is a representation choice of tdma_sched.c (the callers' contracts
                           # use this contract; whether the scheduler as a whole still behaves is the statement-level oracle's question)

    def params(self, c):
        c.int("offset")
        c.g = c.glob("l1s")

    def requires(self, c):
        cur = c.view_pre.get(c.g, "tdma_sched.cur_bucket")
        return [("cur_in_ring", cur < RV.DEPTH)]

    def returns(self, c, old):
        return (old.get(c.g, "tdma_sched.cur_bucket") + c.a.offset) % RV.DEPTH


class TdmaSchedule(Contract):
    """tdma_schedule(N, cb, p1, p2, p3, prio): WF ==> if the list N frames ahead is full: -1, nothing changes;
    else 0 and the item (cb, p1, p2, p3, prio) is appended to it; every other slot, every other count, cur unchanged
    (the new slot's `flags` member is left as found)."""
    name = "tdma_schedule"
    uses = (WrapBucket,)

    def params(self, c):
        c.int("frame_offset")
        c.fnptr("cb")
        for p in ("p1", "p2", "p3", "prio"):
            c.int(p)
        c.g = c.glob("l1s")
        if c.mode == "verify":
            s = sched_of(c.view_pre, c.g)
            c.inputs.update(cur=s.cur, num=("array", s.num, RV.DEPTH))

    def requires(self, c):
        return [("WF", RV.wf(sched_of(c.view_pre, c.g))), ("callback_not_null", c.a.cb != 0)]

    def assigns(self, c):
        return [c.region(c.g, B + ".num_items", whole=True)] + item_regions(c, c.g, ("cb", "p1", "p2", "p3", "prio"))

    def ensures(self, c, old, new, ret):
        a = c.a
        o, n = sched_of(old, c.g), sched_of(new, c.g)
        b = (o.cur + a.frame_offset) % RV.DEPTH
        cnt = z3.Select(o.num, b)
        full = cnt >= RV.CAP
        slot = b * RV.CAP + cnt
        vals = {"cb": a.cb, "p1": a.p1, "p2": a.p2, "p3": a.p3, "prio": a.prio}
        unchanged = z3.And([n.num == o.num] + [n.fld[f] == o.fld[f] for f in ITEM_FIELDS])
        appended = z3.And([n.num == z3.Store(o.num, b, cnt + 1)] + [n.fld[f] == z3.Store(o.fld[f], slot, vals[f]) for f in vals]
                          + [n.fld["flags"] == o.fld["flags"]])
        return [("returns_minus1_iff_full", ret == z3.If(full, -1, 0)),
                ("full_changes_nothing", z3.Implies(full, unchanged)),
                ("item_appended", z3.Implies(z3.Not(full), appended)),
                ("cur_unchanged", n.cur == o.cur),
                ("WF_preserved", RV.wf(n)),
                ("callbacks_stay_non_null", z3.Implies(callbacks_non_null(o, b), callbacks_non_null(n, b)))]


class TdmaSchedAdvance(Contract):
    """tdma_sched_advance(): cur_bucket' = (cur_bucket + 1) mod 25; nothing else written"""
    name = "tdma_sched_advance"
    uses = (WrapBucket,)

    def params(self, c):
        c.g = c.glob("l1s")
        if c.mode == "verify":
            c.inputs.update(cur=sched_of(c.view_pre, c.g).cur)

    def requires(self, c):
        return [("WF", RV.wf(sched_of(c.view_pre, c.g)))]

    def assigns(self, c):
        return [c.region(c.g, "tdma_sched.cur_bucket")]

    def ensures(self, c, old, new, ret):
        o, n = sched_of(old, c.g), sched_of(new, c.g)
        return [("cur_advances", n.cur == (o.cur + 1) % RV.DEPTH), ("WF_preserved", RV.wf(n))]


class TdmaSchedReset(Contract):
    """tdma_sched_reset(): every list except the current one becomes empty; slots and cur untouched"""
    name = "tdma_sched_reset"
    merge_ifs = True

    def params(self, c):
        c.g = c.glob("l1s")
        if c.mode == "verify":
            s = sched_of(c.view_pre, c.g)
            c.inputs.update(cur=s.cur, num=("array", s.num, RV.DEPTH))

    def requires(self, c):
        return [("WF", RV.wf(sched_of(c.view_pre, c.g)))]

    def assigns(self, c):
        return [c.region(c.g, B + ".num_items", whole=True)]

    def ensures(self, c, old, new, ret):
        o, n = sched_of(old, c.g), sched_of(new, c.g)
        posts = [("bucket_%d" % b, z3.Select(n.num, b) == z3.If(o.cur == b, z3.Select(o.num, b), 0)) for b in range(RV.DEPTH)]
        return posts + [("WF_preserved", RV.wf(n))]


class BucketSort(Contract):
    """_tdma_sched_bucket_sort(bucket, seq): num_items <= 8  ==>  seq[0..8) is a permutation of 0..7 that fixes every
    index >= num_items, and the priorities are ascending along seq[0..num_items).  The bucket is not written.
    Loop 1 (seq[i] = i, 8 iterations: structural constant) is unrolled; loops 2 and 3 (selection sort) carry the usual
    invariants, written out over the 8 slots (no quantifier)."""
    name = "_tdma_sched_bucket_sort"
    helper = True
    N = RV.CAP
    roles = {"i": ("ivar", 2), "j": ("ivar", 3)}      # outer / inner index of the selection sort (loops 2 and 3), whatever they are called

    def __init__(self):
        self.loops = {2: LoopSpec(self.outer, self.assigns_seq),
                      3: LoopSpec(self.inner, self.assigns_seq, ptr_locals={"item_i": self.item_i})}

    def params(self, c):
        c.ptr("bucket")
        c.ptr("seq", count=RV.CAP, single=False)
        if c.mode == "verify":
            v = c.view_pre
            c.inputs.update(num=v.get(c.a.bucket, "num_items"), prio=("array", v.cell(c.a.bucket, "item[].prio"), RV.CAP))

    def requires(self, c):
        return [("count_within_capacity", c.view_pre.get(c.a.bucket, "num_items") <= RV.CAP)]

    def assigns(self, c):
        return [c.region(c.a.seq, count=RV.CAP)]

    def assigns_seq(self, c, L):
        return [c.region(c.a.seq, count=RV.CAP)]

    # ---- pieces of the invariants
    def seq_of(self, c, view):
        return [view.get(c.at(c.a.seq, k)) for k in range(self.N)]

    def prio_fn(self, c, view):
        return lambda s: view.get(c.a.bucket, "item[].prio", s)

    @staticmethod
    def perm(seq, num):
        n = len(seq)
        return [("values_in_range", z3.And([z3.And(0 <= s, s < n) for s in seq])),
                ("pairwise_distinct", z3.And([seq[a] != seq[b] for a in range(n) for b in range(a + 1, n)])),
                ("unused_indices_fixed", z3.And([z3.Implies(k >= num, seq[k] == k) for k in range(n)])),
                ("used_prefix_stays_used", z3.And([z3.Implies(k < num, seq[k] < num) for k in range(n)]))]

    def sorted_below(self, seq, prio, num, i):
        """positions a < i hold their final element: not larger than anything after them"""
        n = len(seq)
        return z3.And([z3.Implies(z3.And(a < i, b < num), prio(seq[a]) <= prio(seq[b])) for a in range(n) for b in range(a + 1, n)])

    def outer(self, c, L, entry, cur):
        i = L.i
        num = cur.get(c.a.bucket, "num_items")
        seq, prio = self.seq_of(c, cur), self.prio_fn(c, cur)
        return [("i_range", z3.And(0 <= i, z3.Or(i <= num, i == 0)))] + self.perm(seq, num) + \
               [("prefix_sorted_and_minimal", self.sorted_below(seq, prio, num, i))]

    def inner(self, c, L, entry, cur):
        i, j = L.i, L.j
        num = cur.get(c.a.bucket, "num_items")
        seq, prio = self.seq_of(c, cur), self.prio_fn(c, cur)
        seq_i = cur.get(c.at(c.a.seq, i))
        n = self.N
        return [("ij_range", z3.And(0 <= i, i < num, i + 1 <= j, j <= num))] + self.perm(seq, num) + \
               [("prefix_sorted_and_minimal", self.sorted_below(seq, prio, num, i)),
                ("seq_i_is_minimum_so_far", z3.And([z3.Implies(z3.And(i < b, b < j), prio(seq_i) <= prio(seq[b])) for b in range(n)]))]

    def item_i(self, c, L, cur):
        """item_i == &bucket->item[seq[i]]"""
        from engine.cvc.values import Ptr
        b = c.a.bucket
        fld = b.ctype.rec.field("item")
        idx = cur.get(c.at(c.a.seq, L.i))
        return Ptr(b.block, b.steps + (("f", "item"), ("i", V(idx, 0, self.N - 1))), fld.ctype.elem)

    def ensures(self, c, old, new, ret):
        num = old.get(c.a.bucket, "num_items")
        seq, prio = self.seq_of(c, new), self.prio_fn(c, old)
        n = self.N
        return self.perm(seq, num) + [("ascending_priority", z3.And([z3.Implies(b < num, prio(seq[a]) <= prio(seq[b]))
                                                                      for a in range(n) for b in range(a + 1, n)]))]


class TdmaSchedExecute(Contract):
    """tdma_sched_execute(): WF, callable items in the current list, callbacks obey the assumed callback contract
    ==> the callbacks of exactly the items of the current list are called, each once with its own (p1, p2, p3), in
    ascending priority order; returns their number; the current list becomes empty; nothing else changes."""
    name = "tdma_sched_execute"
    uses = (BucketSort,)

    def params(self, c):
        c.g = c.glob("l1s")
        if c.mode == "verify":
            s = sched_of(c.view_pre, c.g)
            c.inputs.update(cur=s.cur, num=("array", s.num, RV.DEPTH), prio=("array", s.fld["prio"], RV.DEPTH * RV.CAP))

    def requires(self, c):
        s = sched_of(c.view_pre, c.g)
        return [("WF", RV.wf(s)), ("callbacks_not_null", callbacks_non_null(s, s.cur))]

    def assigns(self, c):
        return [c.region(c.g, B + ".num_items", whole=True)]

    def callback(self, E, fp, args, node):
        """ASSUMED contract of item->cb(p1, p2, p3): reports success (>= 0) and does not touch l1s.tdma_sched"""
        E.state.ghost.setdefault("calls", [])
        E.state.ghost["calls"] = E.state.ghost["calls"] + [(fp.code.z(),) + tuple(a.z() for a in args)]
        rc = E.fresh_int("cb_rc")
        E.assume(z3.And(rc.t >= 0, rc.t <= 2147483647))
        return V(rc.t, 0, 2147483647)

    def ensures(self, c, old, new, ret):
        o, n = sched_of(old, c.g), sched_of(new, c.g)
        cnt = z3.Select(o.num, o.cur)
        calls = new.ghost("calls", [])
        k_calls = len(calls)
        posts = [("returns_number_of_items", ret == cnt),
                 ("one_call_per_item", z3.IntVal(k_calls) == cnt),
                 ("current_list_emptied", n.num == z3.Store(o.num, o.cur, 0)),
                 ("cur_unchanged", n.cur == o.cur),
                 ("WF_preserved", RV.wf(n))]
        # the order of the calls: a permutation of the list's slots with ascending priority (witness: the sort's seq)
        try:
            seqp = c.ret_locals.seq
        except Unsupported:
            seqp = None
        if seqp is not None and k_calls:
            seq = [new.get(c.at(seqp, k)) for k in range(k_calls)]
            base = o.cur * RV.CAP
            posts.append(("order_is_permutation_of_the_list",
                          z3.And([z3.And(0 <= s, s < cnt) for s in seq] + [seq[x] != seq[y] for x in range(k_calls) for y in range(x + 1, k_calls)])))
            posts.append(("ascending_priority", z3.And([z3.Select(o.fld["prio"], base + seq[x]) <= z3.Select(o.fld["prio"], base + seq[x + 1])
                                                         for x in range(k_calls - 1)] or [z3.BoolVal(True)])))
            for x, call in enumerate(calls):
                posts.append(("call_%d_is_item_with_its_parameters" % x,
                              z3.And(call[0] == z3.Select(o.fld["cb"], base + seq[x]), call[1] == z3.Select(o.fld["p1"], base + seq[x]),
                                     call[2] == z3.Select(o.fld["p2"], base + seq[x]), call[3] == z3.Select(o.fld["p3"], base + seq[x]))))
        return posts


def mono_nul(cb, p, q):
    """lemma (induction in props/cparts/C08.py): 0 <= p <= q  ==>  nul(p) <= nul(q)"""
    return z3.Implies(z3.And(0 <= p, p <= q), RV.nul(cb, p) <= RV.nul(cb, q))


def pos_run(cb, m, i):
    """lemma: inside one frame the position grows with the entry index"""
    return z3.Implies(z3.And(0 <= m, m <= i, RV.nul(cb, i) == RV.nul(cb, m)), RV.pos(cb, i) == RV.pos(cb, m) + i - m)


def pos_nonneg(cb, m):
    """lemma: m >= 0  ==>  pos(m) >= 0"""
    return z3.Implies(m >= 0, RV.pos(cb, m) >= 0)


class TdmaScheduleSet(Contract):
    """tdma_schedule_set(N, set, p3).  The set: `slen` entries, the last one (and only it) has cb == &tdma_end_set, entries
    with cb == NULL separate frames, N + (number of separators) < 25.
      success: returns the number of separators; entry m (a real item) is stored, with p3 replaced, in the list N + nul(m)
               frames ahead at position (old length + pos(m)); each frame's list grows by exactly its number of items; lists
               that no frame maps to keep their length; no item that was in a list before is touched
      overflow: -1, and still no item that was in a list before is touched (items of the set placed before the overflow stay)"""
    name = "tdma_schedule_set"
    uses = (WrapBucket,)

    def __init__(self):
        self.loops = {1: LoopSpec(self.inv, self.loop_assigns)}

    def params(self, c):
        c.int("frame_offset")
        c.int("p3")
        c.g = c.glob("l1s")
        if c.mode != "verify":
            raise Unsupported("tdma_schedule_set contract is only used for verification here")
        slen = z3.Int("ghost.slen")
        c.E.assume(z3.And(slen >= 1, slen <= 100000))
        c.memo["slen"] = slen
        st = c.ptr("item_set", count=V(slen, 1, 100000), single=False)
        v = c.view_pre
        m = c.memo
        m["set"] = {f: v.cell(st, f) for f in ITEM_FIELDS}
        m["END"] = c.func_code("tdma_end_set")
        m["o"] = sched_of(v, c.g)
        c.inputs.update(slen=slen, cur=m["o"].cur, num=("array", m["o"].num, RV.DEPTH), set_cb=("array_n", m["set"]["cb"], slen),
                        END=z3.IntVal(m["END"]))

    # ---- the set's well-formedness (universally quantified parts are instantiated on demand)
    def set_pre(self, c, x):
        m = c.memo
        cb, slen, END = m["set"]["cb"], m["slen"], m["END"]
        return z3.And(z3.Implies(z3.And(0 <= x, x < slen - 1), z3.Select(cb, x) != END),
                      z3.Implies(z3.And(0 <= x, x <= slen - 1), c.a.frame_offset + RV.nul(cb, x) < RV.DEPTH))

    def requires(self, c):
        m = c.memo
        cb, slen, END = m["set"]["cb"], m["slen"], m["END"]
        return [("WF", RV.wf(m["o"])), ("set_ends_with_END", z3.Select(cb, slen - 1) == END),
                ("END_only_at_the_end_and_frames_fit_the_ring", c.forall(lambda x: self.set_pre(c, x), "m", at=[slen - 1, 0], sort="set"))]

    def assigns(self, c):
        return [c.region(c.g, B + ".num_items", whole=True)] + item_regions(c, c.g)

    def loop_assigns(self, c, L):
        return self.assigns(c)

    # ---- helpers over the symbolic set
    def bkt(self, c, x):
        m = c.memo
        return (m["o"].cur + c.a.frame_offset + RV.nul(m["set"]["cb"], x)) % RV.DEPTH

    def facts(self, c, n, i_bound, upto):
        """the part of the state description shared by the loop invariant and the post-condition, for the processed
        prefix [0, upto) of the set; n = current scheduler arrays"""
        m = c.memo
        o, st, p3 = m["o"], m["set"], c.a.p3
        cb = st["cb"]
        fo = c.a.frame_offset
        j = RV.nul(cb, upto)

        def frame_done(x):
            c.lemma(RV.set_unfold(cb, x))
            c.lemma(mono_nul(cb, 0, x))
            c.lemma(mono_nul(cb, x + 1, upto))
            b = self.bkt(c, x)
            return z3.Implies(z3.And(0 <= x, x < upto, z3.Select(cb, x) == 0), z3.Select(n.num, b) == z3.Select(o.num, b) + RV.pos(cb, x))

        def untouched_lists(b):
            kb = (b - o.cur - fo) % RV.DEPTH
            return z3.Implies(z3.And(0 <= b, b < RV.DEPTH, kb > j), z3.Select(n.num, b) == z3.Select(o.num, b))

        def placed_fn(which):
            def placed(x):
                c.lemma(RV.set_unfold(cb, x))
                c.lemma(pos_nonneg(cb, x))
                b = self.bkt(c, x)
                off = z3.Select(o.num, b) + RV.pos(cb, x)
                if which == "inside":
                    body = z3.And(0 <= off, off < z3.Select(n.num, b))            # the slot is inside the list
                else:
                    body = z3.Select(n.fld[which], b * RV.CAP + off) == (p3 if which == "p3" else z3.Select(st[which], x))
                return z3.Implies(z3.And(0 <= x, x < upto, z3.Select(cb, x) != 0), body)
            return placed

        def old_items_intact(s):
            return z3.Implies(z3.And(0 <= s, s < RV.DEPTH * RV.CAP, s % RV.CAP < z3.Select(o.num, s / RV.CAP)),
                              z3.And([z3.Select(n.fld[f], s) == z3.Select(o.fld[f], s) for f in ITEM_FIELDS]))
        return [("finished_frames_grew_by_their_size", c.forall(frame_done, "m", sort="set")),
                ("lists_of_no_frame_keep_their_length", c.forall(untouched_lists, "b", sort="bucket")),
                ("items_placed_inside_their_list", c.forall(placed_fn("inside"), "pm", shared=True, sort="set"))] + \
               [("items_placed_in_order.%s" % f, c.forall(placed_fn(f), "pm", shared=True, sort="set")) for f in ITEM_FIELDS] + [
                ("previous_items_untouched", c.forall(old_items_intact, "s", sort="slot"))]

    def inv(self, c, L, entry, cur):
        m = c.memo
        o, cb, slen = m["o"], m["set"]["cb"], m["slen"]
        n = sched_of(cur, c.g)
        i, j = L.i, L.j
        fo_cur, bnr = L.frame_offset, L.bucket_nr
        c.lemma(RV.set_unfold(cb, i))
        c.lemma(mono_nul(cb, 0, i))
        c.lemma(mono_nul(cb, i, slen - 1))
        c.lemma(pos_nonneg(cb, i))
        c.instantiate(i, sort="set")
        c.instantiate(bnr, sort="bucket")
        return [("i_range", z3.And(0 <= i, i <= slen - 1)),
                ("j_counts_separators", j == RV.nul(cb, i)),
                ("frame_offset_tracks_frames", z3.And(fo_cur == c.a.frame_offset + j, fo_cur < RV.DEPTH)),
                ("bucket_nr_is_current_frame", bnr == (o.cur + fo_cur) % RV.DEPTH),
                ("current_list_grew_by_pos", z3.Select(n.num, bnr) == z3.Select(o.num, bnr) + RV.pos(cb, i)),
                ("WF", RV.wf(n)), ("cur_unchanged", n.cur == o.cur)] + self.facts(c, n, i, i)

    def ensures(self, c, old, new, ret):
        m = c.memo
        o, cb, slen = m["o"], m["set"]["cb"], m["slen"]
        n = sched_of(new, c.g)
        try:
            i = c.ret_locals.i
        except Unsupported:
            i = None
        posts = [("returns_separators_or_minus1", z3.Or(ret == -1, ret == RV.nul(cb, slen - 1))),
                 ("WF_preserved", RV.wf(n)), ("cur_unchanged", n.cur == o.cur)]

        def old_items_intact(s):
            return z3.Implies(z3.And(0 <= s, s < RV.DEPTH * RV.CAP, s % RV.CAP < z3.Select(o.num, s / RV.CAP)),
                              z3.And([z3.Select(n.fld[f], s) == z3.Select(o.fld[f], s) for f in ITEM_FIELDS]))
        posts.append(("previous_items_never_overwritten", c.forall(old_items_intact, "s", sort="slot")))
        if i is None:
            return posts
        # success: the whole set is placed
        ok = ret != -1
        c.lemma(RV.set_unfold(cb, slen - 1))
        last_b = self.bkt(c, slen - 1)
        succ = self.facts(c, n, slen - 1, slen - 1)
        posts += [("success." + nm, z3.Implies(ok, g)) for nm, g in succ]
        posts.append(("success.last_frame_grew_by_its_size",
                      z3.Implies(ok, z3.Select(n.num, last_b) == z3.Select(o.num, last_b) + RV.pos(cb, slen - 1))))
        posts.append(("overflow_only_when_a_list_is_full",
                      z3.Implies(ret == -1, z3.And(0 <= i, i < slen - 1,
                                                   z3.Select(o.num, self.bkt(c, i)) + RV.pos(cb, i) >= RV.CAP))))
        return posts

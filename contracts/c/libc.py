"""ASSUMED contracts of libc / libosmocore / trxcon externals used by the anchored C functions (DESIGN 4.2).

Each model is `fn(E, args, node) -> value`; every property part that uses one lists it with run.assume (the engine does
that through `E.used_externals`, the texts are in DESCR).  Byte strings are arrays of `char`/`uint8_t` cells; effects on
ghost state (datagram read, datagrams sent, upper-layer indications) are recorded in E.state.ghost.
"""
import z3

from engine.pyvc.values import Unsupported
from engine.cvc.values import V, Ptr, FnPtr, zt
from engine.cvc.ctype import TInt, TPtr, TVoid, TRecord

DESCR = {
    "read": "read(fd, buf, n): buf valid for n octets required; returns r with -1 <= r <= n and stores an arbitrary datagram "
            "into buf[0..r) (the whole buffer is havocked); nothing else changes",
    "send": "send(fd, buf, len, flags): buf valid for len octets required; the octets buf[0..len) are appended to the ghost log of "
            "datagrams sent on fd; program memory unchanged",
    "strerror_r": "strerror_r(errnum, buf, n): buf valid for n octets required; buf is overwritten with some string",
    "__errno_location": "errno is an int object of its own",
    "memcpy_bytes": "memcpy(dst, src, n) on octet buffers: dst and src valid for n octets and not overlapping required; "
                    "dst[0..n) = src[0..n), everything else unchanged",
}


def leaf_type(blk, shape):
    """C type of the scalar a cell (blk, shape) holds"""
    from engine.cvc.ctype import TArray
    t = TArray(blk.elem, None)
    for st in shape:
        if st == "[]":
            t = t.elem if isinstance(t, TArray) else t
        else:
            t = t.rec.field(st).ctype
    return t


def byte_region(E, p, n, node, what, writable=False):
    """obligations: p points to at least n octets of a live object; -> (block, shape, lin term)"""
    if not isinstance(p, Ptr):
        raise Unsupported("%s: pointer argument is %r" % (what, p))
    if p.block is None:
        E.require("mem", "%s.non_null" % what, False, node)
    if not isinstance(p.null, bool) or p.null:
        E.require("mem", "%s.non_null" % what, z3.Not(p.null) if not isinstance(p.null, bool) else False, node)
    if p.block.kind == "unknown":
        E.require("mem", "%s.pointer_target_known_valid" % what, False, node)
    if not p.block.live:
        E.require("mem", "%s.live" % what, False, node)
    if writable and p.block.const:
        E.require("mem", "%s.writable" % what, False, node)
    idx, t = E.walk(p)
    if not isinstance(t, TInt) or t.bits != 8:
        raise Unsupported("%s: not an octet buffer (%r)" % (what, t))
    if not idx or len(idx[-1]) == 3:
        raise Unsupported("%s: pointer without an array index" % what)
    lin = None
    for k, ent in enumerate(idx):
        i, dim = ent[0], ent[1]
        last = k == len(idx) - 1
        if last:
            E.require("mem", "%s.valid_for_length" % what, z3.And(zt(i) >= 0, zt(n) >= 0, zt(i) + zt(n) <= zt(dim)), node)
        else:
            E.require("mem", "%s.in_bounds" % what, z3.And(zt(i) >= 0, zt(i) < zt(dim)), node)
        lin = zt(i) if lin is None else lin * zt(dim) + zt(i)
    return p.block, p.shape(), lin


def ext_read(E, args, node):
    fd, buf, n = args
    blk, shape, lin = byte_region(E, buf, n, node, "read.buf", writable=True)
    r = E.fresh_int("read_len")
    E.assume(z3.And(r.t >= -1, r.t <= zt(n)))
    E.havoc_cell(blk, shape)                      # over-approximation: the whole buffer holds arbitrary octets afterwards
    arr = E.get_cell(E.state, blk, shape)
    E.state.ghost["datagram"] = {"array": arr, "base": lin, "len": r.t, "block": blk, "shape": shape, "count": zt(n)}     # count: what the caller asked for
    hook = getattr(E, "read_hook", None)
    if hook is not None:
        hook(E, arr, lin, r.t)         # the contract's assumption about the datagram (who sent it, in which format)
    hi = n.hi if isinstance(n, V) else None
    return V(r.t, -1, hi)


def ext_send(E, args, node):
    fd, buf, n, flags = args
    blk, shape, lin = byte_region(E, buf, n, node, "send.buf")
    arr = E.get_cell(E.state, blk, shape)
    E.state.ghost["sent"] = E.state.ghost.get("sent", []) + [{"fd": fd.z() if isinstance(fd, V) else fd, "array": arr, "base": lin, "len": zt(n),
                                                                "view": buf.view, "elem": leaf_type(blk, shape)}]
    r = E.fresh_int("send_rc")
    E.assume(z3.And(r.t >= -1, r.t <= zt(n)))
    E.state.ghost["sent"][-1]["rc"] = r.t          # what the socket reports: -1 (error) .. n (all octets taken)
    return V(r.t, -1, n.hi if isinstance(n, V) else None)


def ext_strerror_r(E, args, node):
    errnum, buf, n = args
    blk, shape, lin = byte_region(E, buf, n, node, "strerror_r.buf", writable=True)
    E.havoc_cell(blk, shape)
    t = E.ntype(node)
    if isinstance(t, TPtr):
        return buf
    return E.fresh_int("strerror_rc", t)


def ext_errno_location(E, args, node):
    b = E.globals.get("errno")
    if b is None:
        b = E.new_block("errno", TInt(32, True, "int"), 1, "global", single=True)
        E.globals["errno"] = b
    return Ptr(b, (("i", V(0)),), b.elem)


def ext_memcpy(E, args, node):
    """struct copy (member-wise, engine builtin) or octet-buffer copy of symbolic length"""
    from engine.cvc.interp import BUILTIN_MODELS
    dst, src, n = args
    if isinstance(dst, Ptr) and isinstance(dst.ctype, TRecord):
        return BUILTIN_MODELS["memcpy"](E, args, node)
    db, dsh, dlin = byte_region(E, dst, n, node, "memcpy.dst", writable=True)
    sb, ssh, slin = byte_region(E, src, n, node, "memcpy.src")
    if db is sb and dsh == ssh:
        E.require("mem", "memcpy.no_overlap", z3.Or(dlin + zt(n) <= slin, slin + zt(n) <= dlin), node)
    old = E.get_cell(E.state, db, dsh)
    sarr = E.get_cell(E.state, sb, ssh)
    E.havoc_cell(db, dsh)
    new = E.get_cell(E.state, db, dsh)
    nz = zt(n)
    # raw cell values are copied; an 8-bit source of the other signedness is re-read in the destination's element type
    s_el, d_el = leaf_type(sb, ssh), leaf_type(db, dsh)

    def conv(x):
        if s_el.signed == d_el.signed:
            return x
        return z3.If(x >= 128, x - 256, x) if d_el.signed else z3.If(x < 0, x + 256, x)

    def copied(j):
        return z3.And(z3.Implies(z3.And(j >= dlin, j < dlin + nz), z3.Select(new, j) == conv(z3.Select(sarr, j - dlin + slin))),
                      z3.Implies(z3.Or(j < dlin, j >= dlin + nz), z3.Select(new, j) == z3.Select(old, j)))
    # universally quantified effect, instantiated on demand (engine/cvc/contract.py quantifier discipline)
    E.add_universal(copied, None)
    return dst


EXTERNALS = {"read": ext_read, "send": ext_send, "strerror_r": ext_strerror_r, "__xpg_strerror_r": ext_strerror_r,
             "__errno_location": ext_errno_location, "memcpy": ext_memcpy}


# ---------------------------------------------------------------------- NUL-terminated strings

DESCR.update({
    "strncmp": "strncmp(a, b, n): a and b must be readable up to their terminator or n octets; result 0 iff the first n octets (up to a "
               "terminator) are equal (exact for small constant n; for symbolic n a non-zero result exhibits a position of difference)",
    "strchr": "strchr(s, c): s must be a NUL-terminated string; returns NULL or a pointer to the first occurrence of c in s (up to and "
              "including the terminator)",
    "strlen": "strlen(s): s must be a NUL-terminated string; returns the offset of its first NUL",
    "sscanf": "sscanf(str, fmt, ...): str must be a non-NULL NUL-terminated string, the outputs valid objects; assigns a prefix of its "
              "outputs (possibly none: they may stay unassigned) with arbitrary values and returns their number (or EOF)",
    "talloc_free": "talloc_free(p): p must be a live heap object; afterwards the object is dead (any use is an error)",
    "_talloc_free": "talloc_free(p): p must be a live heap object; afterwards the object is dead (any use is an error)",
    "osmo_timer_del": "osmo_timer_del / osmo_timer_schedule: touch only the timer's internal bookkeeping members",
    "osmo_timer_schedule": "osmo_timer_del / osmo_timer_schedule: touch only the timer's internal bookkeeping members",
    "verif_fsm_state_chg": "osmo_fsm_inst_state_chg(fi, st, ..): fi must be valid; fi->state becomes st or (transition refused) stays",
    "verif_fsm_term": "osmo_fsm_inst_term(fi, cause, data): fi must be valid; recorded in the ghost log (the caller returns right after it)",
    "trxcon_phyif_handle_rsp": "trxcon_phyif_handle_rsp(priv, rsp): reads *rsp; modifies nothing trx_if.c owns; recorded in the ghost log",
})


def elem(E, blk, shape, idx):
    """term of the octet cell (blk, shape)[idx] in the current state (literal contents included), with its range fact"""
    from engine.cvc import tables
    key = (blk.id, shape)
    if key not in E.state.mem and blk.init is not None and shape in blk.init:
        tab = blk.init[shape]
        vals = [tab.get(k, 0) for k in range(max(tab) + 1)]
        s = z3.simplify(idx) if not isinstance(idx, int) else z3.IntVal(idx)
        if z3.is_int_value(s) and 0 <= s.as_long() < len(vals):
            return z3.IntVal(vals[s.as_long()])
        return tables.select(vals, idx, E.assume)
    c = E.get_cell(E.state, blk, shape)
    t = z3.simplify(z3.Select(c, idx))
    if not z3.is_int_value(t):
        lo, hi = (-128, 127) if leaf_type(blk, shape).signed else (0, 255)
        E.assume(z3.And(t >= lo, t <= hi))
    return t


def string_arg(E, p, node, what):
    """common pointer checks of a string argument -> (block, shape, start term, dim term)"""
    if not isinstance(p, Ptr):
        raise Unsupported("%s: argument is %r" % (what, p))
    if p.block is None:
        E.require("mem", "%s.non_null" % what, False, node)
    if not isinstance(p.null, bool) or p.null:
        E.require("mem", "%s.non_null" % what, z3.Not(p.null) if not isinstance(p.null, bool) else False, node)
        p = Ptr(p.block, p.steps, p.ctype, False, p.view)
    if p.block.kind == "unknown":
        E.require("mem", "%s.pointer_target_known_valid" % what, False, node)
    if not p.block.live:
        E.require("mem", "%s.live" % what, False, node)
    idx, t = E.walk(p)
    if not isinstance(t, TInt) or t.bits != 8 or not idx or len(idx[-1]) == 3:
        raise Unsupported("%s: not a pointer into an octet array (%r)" % (what, p))
    lin = None
    for k, ent in enumerate(idx):
        i, dim = ent[0], ent[1]
        if k < len(idx) - 1:
            E.require("mem", "%s.in_bounds" % what, z3.And(zt(i) >= 0, zt(i) < zt(dim)), node)
        lin = zt(i) if lin is None else lin * zt(dim) + zt(i)
    i, dim = idx[-1][0], idx[-1][1]
    # base of the innermost array in linear terms, and its end
    base = lin - zt(i)
    E.require("mem", "%s.in_bounds" % what, z3.And(zt(i) >= 0, zt(i) <= zt(dim)), node)
    return p.block, p.shape(), lin, base + zt(dim)


def require_string(E, p, node, what, bound=None):
    """obligation: p is a NUL-terminated string inside its array (or, with bound, at least `bound` octets are readable);
    returns the ghost length L (offset of the first NUL) with its defining facts, or None when only the bound is known"""
    blk, shape, start, end = string_arg(E, p, node, what)
    cands = E.state.ghost.get("nul", {}).get((blk.id, shape), [])
    alts = [z3.And(z >= start, z < end, elem(E, blk, shape, z) == 0) for z in cands]
    has_nul = z3.Or(alts) if alts else z3.BoolVal(False)
    if bound is not None:
        E.require("mem", "%s.readable_for_n_or_terminated" % what, z3.Or(z3.And(zt(bound) >= 0, start + zt(bound) <= end), has_nul), node)
        if not alts or not E.entails(has_nul):
            return None, (blk, shape, start, end)
    else:
        E.require("mem", "%s.nul_terminated_string" % what, has_nul, node)
    cell = E.get_cell(E.state, blk, shape)
    memo = E.state.ghost.setdefault("strlen_memo", {})
    key = (blk.id, shape, cell.get_id(), z3.simplify(start).sexpr())
    if key in memo:
        return memo[key], (blk, shape, start, end)
    L = z3.Int(E.fresh("strlen!%s" % blk.name))
    E.assume(z3.And(L >= 0, start + L < end, elem(E, blk, shape, start + L) == 0))
    for z in cands:
        E.assume(z3.Implies(z3.And(z >= start, z < end, elem(E, blk, shape, z) == 0), L <= z - start))

    def no_nul_before(j):
        return z3.Implies(z3.And(0 <= j, j < L), elem(E, blk, shape, start + j) != 0)
    E.add_universal(no_nul_before, "stroff")
    E.add_universal(lambda i: no_nul_before(i - start), "stroff")      # the same fact for i an index of the array
    E.instantiate(L, "stroff")                 # relative to the string's start ...
    E.instantiate(start + L, "stroff")         # ... and as an index of the array (contracts state facts in either form)
    memo[key] = L
    return L, (blk, shape, start, end)


def ext_strlen(E, args, node):
    L, _ = require_string(E, args[0], node, "strlen.s")
    return V(L, 0, None)


def ext_strchr(E, args, node):
    s, ch = args
    L, (blk, shape, start, end) = require_string(E, s, node, "strchr.s")
    k = z3.Int(E.fresh("strchr.k"))
    isnull = z3.Bool(E.fresh("strchr.null"))
    cz = zt(ch)
    if not leaf_type(blk, shape).signed:
        cz = z3.If(cz < 0, cz + 256, cz) if not (isinstance(ch, V) and ch.lo is not None and ch.lo >= 0) else cz
    E.assume(z3.Implies(z3.Not(isnull), z3.And(k >= 0, k <= L, elem(E, blk, shape, start + k) == cz)))

    def first(j):
        return z3.And(z3.Implies(z3.And(z3.Not(isnull), 0 <= j, j < k), elem(E, blk, shape, start + j) != cz),
                      z3.Implies(z3.And(isnull, 0 <= j, j <= L), elem(E, blk, shape, start + j) != cz))
    E.add_universal(first, "stroff")
    E.add_universal(lambda i: first(i - start), "stroff")              # the same fact for i an index of the array
    E.instantiate(k, "stroff")
    E.instantiate(start + k, "stroff")
    last = s.steps[-1][1]
    return Ptr(s.block, s.steps[:-1] + (("i", V(zt(last) + k, None, None)),), s.ctype, isnull, s.view)


def ext_strncmp(E, args, node):
    a, b, n = args
    La, (ab, ash, astart, _) = require_string(E, a, node, "strncmp.s1", bound=n)
    Lb, (bb, bsh, bstart, _) = require_string(E, b, node, "strncmp.s2", bound=n)
    ret = E.fresh_int("strncmp_rc", TInt(32, True, "int"))
    ea = lambda j: elem(E, ab, ash, astart + j)
    eb = lambda j: elem(E, bb, bsh, bstart + j)
    if n.concrete and 0 <= n.t <= 32:
        eq = z3.BoolVal(True)
        for j in range(n.t - 1, -1, -1):
            eq = z3.And(ea(j) == eb(j), z3.Or(ea(j) == 0, eq))
        E.assume((ret.t == 0) == eq)
        return ret
    w = z3.Int(E.fresh("strncmp.diff"))
    E.assume(z3.Implies(ret.t != 0, z3.And(0 <= w, w < zt(n), ea(w) != eb(w))))

    def before_diff(j):
        return z3.Implies(z3.And(ret.t != 0, 0 <= j, j < w), z3.And(ea(j) == eb(j), ea(j) != 0))
    E.add_universal(before_diff, "stroff")
    if La is not None:
        def equal_prefix(j):
            return z3.Implies(z3.And(ret.t == 0, 0 <= j, j < zt(n), j <= La), ea(j) == eb(j))
        E.add_universal(equal_prefix, "stroff")
    E.instantiate(w, "stroff")
    E.instantiate(astart + w, "stroff")
    E.instantiate(bstart + w, "stroff")
    return ret


def ext_sscanf(E, args, node):
    s, fmt = args[0], args[1]
    require_string(E, s, node, "sscanf.str")
    outs = args[2:]
    assigned = 0
    oracle = getattr(E, "sscanf_oracle", None)
    if oracle is not None:
        blk, shape, start, _ = string_arg(E, s, node, "sscanf.str")
        vals = oracle(E, blk, shape, start, literal_bytes(E, fmt, "sscanf"))
        if vals is not None:
            # ASSUMED: applied to the decimal numeral(s) the contract's datagram format places there, the conversions yield their values
            for o, val in zip(outs, vals):
                idx, t = E.walk(o)
                E.store(o, V(val, t.lo, t.hi), node)
            for o in outs[len(vals):]:
                E.check_access(o, node, "sscanf.output")
            return V(len(vals))
    for o in outs:
        if not isinstance(o, Ptr):
            raise Unsupported("sscanf output %r" % (o,))
        if not E.branch(z3.Bool(E.fresh("sscanf.assigns_next"))):
            break
        idx, t = E.walk(o)
        if not isinstance(t, TInt):
            raise Unsupported("sscanf output of type %r" % (t,))
        E.store(o, E.fresh_int("sscanf.value", t), node)
        assigned += 1
    for o in outs[assigned:]:
        E.check_access(o, node, "sscanf.output")
    if assigned == 0:
        r = E.fresh_int("sscanf_rc")
        E.assume(z3.Or(r.t == 0, r.t == -1))
        return V(r.t, -1, 0)
    return V(assigned)


def ext_talloc_free(E, args, node):
    p = args[0]
    if not isinstance(p, Ptr) or p.block is None:
        E.require("mem", "talloc_free.valid_pointer", False, node)
    if not isinstance(p.null, bool):
        E.require("mem", "talloc_free.non_null", z3.Not(p.null), node)
    if p.block.kind == "unknown" or not p.block.live:
        E.require("mem", "talloc_free.live_object", False, node)
    p.block.live = False
    E.state.ghost["freed"] = E.state.ghost.get("freed", []) + [p.block.name]
    return V(0)


def ext_timer(E, args, node):
    t = E.ntype(node)
    return None if isinstance(t, TVoid) else E.fresh_int("timer_rc", t)


def ext_fsm_state_chg(E, args, node):
    fi, st = args
    ft = fi.ctype.rec.field("state").ctype
    cur = E.load(fi.field("state", ft), node)
    new = E.fresh_int("fsm_state", ft)
    E.assume(z3.Or(new.t == zt(st), new.t == zt(cur)))
    E.store(fi.field("state", ft), new, node)
    E.state.ghost["fsm_chg"] = E.state.ghost.get("fsm_chg", []) + [zt(st)]
    r = E.fresh_int("fsm_rc", TInt(32, True, "int"))
    return r


def ext_fsm_term(E, args, node):
    fi, cause, data = args
    ft = fi.ctype.rec.field("state").ctype
    E.load(fi.field("state", ft), node)
    E.state.ghost["fsm_term"] = E.state.ghost.get("fsm_term", []) + [zt(cause)]
    return None


def ext_handle_rsp(E, args, node):
    priv, rsp = args
    tt = rsp.ctype.rec.field("type").ctype
    rec = {"type": E.load(rsp.field("type", tt), node).z()}
    E.state.ghost["phyif_rsp"] = E.state.ghost.get("phyif_rsp", []) + [rec]
    return E.fresh_int("rsp_rc", E.ntype(node))


STRING_EXTERNALS = {"strlen": ext_strlen, "strchr": ext_strchr, "strncmp": ext_strncmp, "sscanf": ext_sscanf, "__isoc99_sscanf": ext_sscanf,
                    "_talloc_free": ext_talloc_free, "talloc_free": ext_talloc_free, "osmo_timer_del": ext_timer, "osmo_timer_schedule": ext_timer,
                    "verif_fsm_state_chg": ext_fsm_state_chg, "verif_fsm_term": ext_fsm_term, "trxcon_phyif_handle_rsp": ext_handle_rsp}


# ---------------------------------------------------------------------- formatted output, allocation

DESCR.update({
    "snprintf": "snprintf(buf, size, literal format with %s %u %d, ...): buf valid for size octets required; writes min(T, size-1) octets of the "
                "formatted text (literal characters as given, %s the argument string, %u/%d a decimal numeral: 1..10 digits, optional '-') and "
                "a NUL; returns the untruncated length T",
    "vsnprintf": "vsnprintf(buf, size, fmt, ap): buf valid for size >= 1 octets and fmt a string required; writes a NUL-terminated text of at "
                 "most size-1 non-NUL octets",
    "_talloc_zero": "talloc_zero(ctx, type): returns NULL or a fresh, zero-filled, live heap object of that type",
})


def parse_format(bs):
    segs, cur, i = [], [], 0
    while i < len(bs):
        ch = bs[i]
        if ch == 0x25:          # '%'
            if i + 1 >= len(bs):
                raise Unsupported("format ends with %")
            nx = chr(bs[i + 1])
            if nx == "%":
                cur.append(0x25)
            elif nx in "sud":
                if cur:
                    segs.append(("lit", cur))
                    cur = []
                segs.append((nx,))
            else:
                raise Unsupported("format conversion %%%s" % nx)
            i += 2
            continue
        cur.append(ch)
        i += 1
    if cur:
        segs.append(("lit", cur))
    return segs


def literal_bytes(E, p, what):
    if not isinstance(p, Ptr) or p.block is None or p.block.kind != "string" or p.block.init is None:
        raise Unsupported("%s: format is not a string literal" % what)
    tab = p.block.init[("[]",)]
    start = p.steps[-1][1]
    if not start.concrete:
        raise Unsupported("%s: symbolic offset into a literal" % what)
    out = []
    k = start.t
    while tab.get(k, 0) != 0:
        out.append(tab[k] & 255)
        k += 1
    return out


def ndigits(x):
    return len(str(abs(int(x))))


def ext_snprintf(E, args, node):
    buf, size, fmt = args[0], args[1], args[2]
    rest = list(args[3:])
    segs = parse_format(literal_bytes(E, fmt, "snprintf"))
    blk, shape, start = byte_region(E, buf, size, node, "snprintf.buf", writable=True)
    pieces = []          # (length term, min, max, content fn(offset) -> constraint on the octet term)
    for sg in segs:
        if sg[0] == "lit":
            vals = list(sg[1])

            def lit(o, x, vals=vals):
                r = x == vals[-1]
                for k in range(len(vals) - 2, -1, -1):
                    r = z3.If(o == k, x == vals[k], r)
                return r
            pieces.append((z3.IntVal(len(vals)), len(vals), len(vals), lit))
        elif sg[0] == "s":
            a = rest.pop(0)
            L, (sb, ssh, sstart, _) = require_string(E, a, node, "snprintf.string_argument")
            signed_src = leaf_type(sb, ssh).signed

            def cp(o, x, sb=sb, ssh=ssh, sstart=sstart, signed_src=signed_src):
                src = elem(E, sb, ssh, sstart + o)
                if signed_src != leaf_type(blk, shape).signed:
                    src = z3.If(src < 0, src + 256, src) if signed_src else z3.If(src >= 128, src - 256, src)
                return x == src
            pieces.append((L, 0, None, cp))
        else:
            a = rest.pop(0)
            if not isinstance(a, V):
                raise Unsupported("snprintf numeric argument %r" % (a,))
            D = z3.Int(E.fresh("numeral.len"))
            hi = a.hi if a.hi is not None else (1 << 32) - 1
            lo = a.lo if a.lo is not None else -(1 << 31)
            dmax = max(ndigits(hi), ndigits(lo)) + (1 if lo < 0 else 0)
            dmin = ndigits(lo) if lo >= 0 else 1
            E.assume(z3.And(D >= dmin, D <= dmax))

            def num(o, x):
                return z3.Or(x == 45, z3.And(x >= 48, x <= 57))
            pieces.append((D, dmin, dmax, num))
    T = z3.Sum([p[0] for p in pieces]) if len(pieces) > 1 else (pieces[0][0] if pieces else z3.IntVal(0))
    tmin = sum(p[1] for p in pieces)
    tmax = None if any(p[2] is None for p in pieces) else sum(p[2] for p in pieces)
    sz = zt(size)
    W = z3.If(T < sz, T, sz - 1)
    old = E.get_cell(E.state, blk, shape)
    E.havoc_cell(blk, shape)
    new = E.get_cell(E.state, blk, shape)
    E.assume(z3.Implies(sz >= 1, z3.Select(new, start + W) == 0))
    nul = dict(E.state.ghost.get("nul", {}))
    nul[(blk.id, shape)] = nul.get((blk.id, shape), []) + [start + W]
    E.state.ghost["nul"] = nul
    offs = []
    acc = z3.IntVal(0)
    for p in pieces:
        offs.append(acc)
        acc = acc + p[0]

    def written(j):
        o = j - start
        x = z3.Select(new, j)
        body = z3.BoolVal(True)
        for k in range(len(pieces) - 1, -1, -1):
            inside = z3.And(o >= offs[k], o < offs[k] + pieces[k][0])
            body = z3.If(inside, pieces[k][3](o - offs[k], x), body)
        return z3.And(z3.Implies(z3.And(sz >= 1, j >= start, j < start + W), body),
                      z3.Implies(z3.Or(sz < 1, j < start, j > start + W), x == z3.Select(old, j)))
    E.add_universal(written, None)
    E.state.ghost["last_snprintf"] = {"T": T, "W": W, "start": start}
    return V(T, tmin, tmax)


def ext_vsnprintf(E, args, node):
    buf, size, fmt = args[0], args[1], args[2]
    require_string(E, fmt, node, "vsnprintf.fmt")
    blk, shape, start = byte_region(E, buf, size, node, "vsnprintf.buf", writable=True)
    sz = zt(size)
    E.require("mem", "vsnprintf.size_at_least_1", sz >= 1, node)
    old = E.get_cell(E.state, blk, shape)
    E.havoc_cell(blk, shape)
    new = E.get_cell(E.state, blk, shape)
    W = z3.Int(E.fresh("vsnprintf.len"))
    E.assume(z3.And(W >= 0, W <= sz - 1, z3.Select(new, start + W) == 0))
    nul = dict(E.state.ghost.get("nul", {}))
    nul[(blk.id, shape)] = nul.get((blk.id, shape), []) + [start + W]
    E.state.ghost["nul"] = nul

    def written(j):
        x = z3.Select(new, j)
        return z3.And(z3.Implies(z3.And(j >= start, j < start + W), x != 0),
                      z3.Implies(z3.Or(j < start, j >= start + sz), x == z3.Select(old, j)))
    E.add_universal(written, None)
    r = E.fresh_int("vsnprintf_rc", TInt(32, True, "int"))
    E.assume(r.t >= -1)
    return V(r.t, -1, None)


def ext_talloc_zero(E, args, node):
    ctx, size, name = args
    if not (isinstance(size, V) and size.concrete):
        raise Unsupported("talloc_zero of a symbolic size")
    blk = E.new_block(E.fresh("heap"), TInt(8, False, "byte"), size.t, "heap_raw")
    blk.zeroed = True
    return Ptr(blk, (("i", V(0)),), TVoid(), z3.Bool(E.fresh("alloc_failed")))


STRING_EXTERNALS.update({"snprintf": ext_snprintf, "vsnprintf": ext_vsnprintf, "_talloc_zero": ext_talloc_zero})

"""Contracts for src/host/trxcon/src/trx_if.c (verbatim extraction behind shim/trxcon_trx_if_prelude.h).

C04: trx_data_rx_cb (TRXD Rx path) and trx_if_handle_phyif_burst_req (TRXD Tx path) against spec/trxd_layout.py - the
same oracle the Python codec is verified against.
"""
import z3

from engine.cvc.contract import Contract, LoopSpec
from engine.cvc.values import V, Ptr, zt
from engine.pyvc.values import Unsupported
from contracts.c import libc
from spec import trxd_layout as L

TRX_IF_C = "src/host/trxcon/src/trx_if.c"
H = "src/host/trxcon/include/osmocom/bb/trxcon/"
PRELUDE = "trxcon_trx_if_prelude.h"
DECLS = ((H + "trx_if.h", "define TRX[CD]_BUF_SIZE"), (H + "trx_if.h", "enum trx_fsm_states"), (H + "trx_if.h", "struct trx_instance"),
         (H + "trx_if.h", "struct trx_ctrl_msg"), (TRX_IF_C, "define TRXDv0_HDR_LEN"))
INCLUDES = ("src/host/trxcon/include",)
HYPERFRAME = 2715648
ACCEPTED_BURST_PARTS = (148, 150, 444, 446)
# the largest datagram of the statement's quantifier that reaches trx_data_rx_cb: TRXD version 0 towards L1 = 8 header octets + the longest
# version-0 burst (8-PSK, 444 soft bits; spec/valid_msg.py MOD_TABLE) + the two legacy padding octets
LARGEST_VALID_RX_DATAGRAM = 8 + max(ACCEPTED_BURST_PARTS)


def s8(x):
    """value of (int8_t)x for an octet x"""
    return z3.If(x >= 128, x - 256, x)


# ---------------------------------------------------------------------- assumed contracts of the upper layer (l1sched)

def ext_burst_ind(E, args, node):
    """trxcon_phyif_handle_burst_ind(priv, bi): may read *bi and bi->burst[0..burst_len); changes no memory of trx_if.c"""
    priv, bi = args
    rec = {}
    for f in ("fn", "tn", "toa256", "rssi", "burst_len"):
        ft = bi.ctype.rec.field(f).ctype
        rec[f] = E.load(bi.field(f, ft), node).z()
    bt = bi.ctype.rec.field("burst").ctype
    bp = E.load(bi.field("burst", bt), node)
    blk, shape, lin = libc.byte_region(E, bp, V(rec["burst_len"], 0, None), node, "burst_ind.burst")
    rec.update(array=E.get_cell(E.state, blk, shape), base=lin, elem=libc.leaf_type(blk, shape), view=bp.view)
    E.state.ghost["burst_ind"] = E.state.ghost.get("burst_ind", []) + [rec]
    return E.fresh_int("burst_ind_rc", E.ntype(node))


def ext_rts_ind(E, args, node):
    priv, rts = args
    rec = {f: E.load(rts.field(f, rts.ctype.rec.field(f).ctype), node).z() for f in ("fn", "tn")}
    E.state.ghost["rts_ind"] = E.state.ghost.get("rts_ind", []) + [rec]
    return E.fresh_int("rts_ind_rc", E.ntype(node))


UPPER = {"trxcon_phyif_handle_burst_ind": ext_burst_ind, "trxcon_phyif_handle_rts_ind": ext_rts_ind}
NOTES = dict(libc.DESCR)
NOTES.update({
    "trxcon_phyif_handle_burst_ind": "trxcon_phyif_handle_burst_ind(priv, bi): reads *bi and bi->burst[0..burst_len) (must be valid), "
                                     "modifies nothing trx_if.c owns; the indication is appended to the ghost log",
    "trxcon_phyif_handle_rts_ind": "trxcon_phyif_handle_rts_ind(priv, rts): reads *rts, modifies nothing trx_if.c owns; appended to the ghost log",
})


class TrxDataRxCb(Contract):
    """trx_data_rx_cb(ofd, what), ofd->data = the trx instance.  With D[0..n) the datagram read() returns (any content, n <= 512):
      n <= 0                                       nothing indicated
      n < 8                                        nothing indicated
      D[0] >> 4 != 0                               nothing indicated
      n - 8 not in {148, 150, 444, 446}            nothing indicated
      FN (octets 1..4, big endian) >= 2715648      nothing indicated
      (the value returned is NOT part of the contract: the statement is silent about it and the only caller, libosmocore's select loop
       `ufd->cb(ufd, flags);` in select.c, ignores it.  The first version of this contract transcribed the present codes n / -EINVAL /
       -ENOTSUP / 0: clauses read_error_returned, short_pdu_rejected, other_version_rejected, bad_burst_length_rejected,
       illegal_fn_rejected, accepted_returns_0 - dropped)
      otherwise  exactly one BURST.ind with tn, fn, toa256, burst length and soft bits as spec.trxd_layout.dec("rx"),
                 rssi = -(int8_t)D[5]; then exactly one RTS.ind with the same tn and fn' = (fn + fn_advance) mod 2715648."""
    name = "trx_data_rx_cb"
    inline = ("osmo_load32be",)
    externals = dict(libc.EXTERNALS, **UPPER)
    external_notes = NOTES

    def __init__(self, einval=22, enotsup=95, bufsize=512):
        self.EINVAL, self.ENOTSUP, self.BUF = einval, enotsup, bufsize
        self.loops = {1: LoopSpec(self.inv, self.loop_assigns)}

    def params(self, c):
        ofd = c.ptr("ofd")
        c.int("what")
        if c.mode != "verify":
            raise Unsupported("trx_data_rx_cb: verification only")
        trx = c.obj("trx", "struct trx_instance")
        c.set_ptr(ofd, "data", trx)
        c.trx = trx
        c.inputs.update(fn_advance=c.view_pre.get(trx, "fn_advance"))

    def requires(self, c):
        return [("fn_advance_below_hyperframe", c.view_pre.get(c.trx, "fn_advance") < HYPERFRAME)]

    # ---- the datagram as the spec sees it
    def dgram(self, c, view):
        g = view.ghost("datagram")
        if g is None:
            return None
        D = g["array"]
        E = c.E

        def octet(i):
            t = z3.Select(D, g["base"] + i)
            E.assume(z3.And(t >= 0, t <= 255))        # typed memory: every cell of a uint8_t buffer holds an octet
            return t
        return g, octet, g["len"]

    def loop_assigns(self, c, L_):
        return [c.region(L_.buf, whole=True)]

    def inv(self, c, L_, entry, cur):
        """in-place conversion: octets 8 .. 8+i-1 hold the soft bits (as int8), everything else is still the datagram"""
        g, octet, n = self.dgram(c, cur)
        i = L_.i
        buf = cur.cell(L_.buf)
        blen = cur.get(L_.bi, "burst_len")
        d = L.dec("rx", octet, n)
        if c.polarity == "assume":
            c.instantiate(8 + i, sort="octet")

        def converted(k):
            soft = d["bget"](k - 8)
            raw = z3.Select(buf, k)
            return z3.Implies(z3.And(0 <= k, k < self.BUF),
                              z3.If(z3.And(8 <= k, k < 8 + i), raw == z3.If(soft < 0, soft + 256, soft), raw == octet(k)))
        return [("i_range", z3.And(0 <= i, i <= blen)),
                ("burst_len_is_payload_length", z3.And(blen == d["blen"], L.in_set(blen, (148, 444)), n == 8 + blen + z3.If(L.in_set(n - 8, (148, 444)), 0, 2))),
                ("converted_prefix_untouched_rest", c.forall(converted, "k", sort="octet"))]

    def ensures(self, c, old, new, ret):
        dg = self.dgram(c, new)
        inds, rts = new.ghost("burst_ind", []), new.ghost("rts_ind", [])
        if dg is None:
            return [("read_called", z3.BoolVal(False))]
        g, octet, n = dg
        c.inputs.update(n=n, dgram=("array_n", g["array"], n))
        d = L.dec("rx", octet, n)
        P = n - 8
        fn = d["fn"]
        ok = z3.And(n >= 8, octet(0) / 16 == 0, L.in_set(P, ACCEPTED_BURST_PARTS), fn < HYPERFRAME)
        # the contract above speaks about the octets read() returned; that they ARE the datagram on the socket needs the call to ask for enough:
        # a datagram longer than the count is truncated by the socket layer (that count octets fit the buffer is the memory obligation
        # read.buf.valid_for_length of the call)
        posts = [("reads_with_room_for_the_largest_valid_datagram", g["count"] >= LARGEST_VALID_RX_DATAGRAM),
                 ("indications_iff_accepted", z3.If(ok, z3.BoolVal(len(inds) == 1 and len(rts) == 1), z3.BoolVal(len(inds) == 0 and len(rts) == 0)))]
        if len(inds) == 1:
            bi = inds[0]
            posts += [("ind.tn", bi["tn"] == d["tn"]), ("ind.fn", bi["fn"] == fn), ("ind.toa256", bi["toa256"] == d["toa256"]),
                      ("ind.rssi_is_minus_int8_of_octet5", bi["rssi"] == z3.If(-s8(octet(5)) > 127, -s8(octet(5)) - 256, -s8(octet(5)))),
                      ("ind.burst_len", bi["burst_len"] == d["blen"])]
            arr, base = bi["array"], bi["base"]
            signed_view = (bi["view"].signed if bi["view"] is not None else bi["elem"].signed)

            def soft_bits(k):
                c.instantiate(base + k, sort="octet")
                raw = z3.Select(arr, base + k)
                val = raw
                if signed_view and not bi["elem"].signed:
                    val = z3.If(raw >= 128, raw - 256, raw)
                return z3.Implies(z3.And(0 <= k, k < d["blen"]), val == d["bget"](k))
            posts.append(("ind.soft_bits", c.forall(soft_bits, "k", sort="bit")))
        if len(rts) == 1:
            fa = old.get(c.trx, "fn_advance")
            posts += [("rts.tn", rts[0]["tn"] == d["tn"]), ("rts.fn_is_fn_plus_advance_mod_hyperframe", rts[0]["fn"] == (fn + fa) % HYPERFRAME)]
        return posts


class _TxView:
    """message view for spec.trxd_layout.enc (cls tx, version 0)"""

    class _F:
        def __init__(self, val, isnone=False):
            self.val, self.isnone = val, z3.BoolVal(isnone)

    def __init__(self, tn, fn, pwr, blen):
        self.cls, self.ver = "tx", z3.IntVal(0)
        self.tn, self.fn, self.pwr = self._F(tn), self._F(fn), self._F(pwr)
        self.burst = self._F(blen)
        self.burst.isnone = blen == 0


class BurstReq(Contract):
    """trx_if_handle_phyif_burst_req(trx, br) for the burst requests trxcon's scheduler produces (the statement's domain: tn <= 7,
       fn < 2715648, burst_len in {0, 148, 444}, burst valid for burst_len octets; what the function does with anything else - send it,
       refuse it - is free)
       ==> exactly one datagram sent on the DATA socket: spec.trxd_layout.enc of (ver 0, tn, fn, pwr, hard bits), 6 + burst_len octets;
           the result is negative only when the socket did not take the whole datagram (the statement is silent about the value and no
           caller in the tree uses it: trxcon_phyif_handle_burst_req just passes it on; was: returns 0)"""
    name = "trx_if_handle_phyif_burst_req"
    inline = ("osmo_store32be",)
    externals = dict(libc.EXTERNALS)
    external_notes = NOTES

    def __init__(self, bufsize=512):
        self.BUF = bufsize

    def params(self, c):
        trx = c.ptr("trx")
        br = c.ptr("br")
        if c.mode != "verify":
            raise Unsupported("burst_req: verification only")
        v = c.view_pre
        blen = v.get(br, "burst_len")
        burst = c.obj("burst", "ubit_t", count=V(blen, 0, None), single=False)
        c.set_ptr(br, "burst", burst)
        c.burst = burst
        c.inputs.update(tn=v.get(br, "tn"), fn=v.get(br, "fn"), pwr=v.get(br, "pwr"), burst_len=blen,
                        burst=("array_n", v.cell(burst), blen))

    def requires(self, c):
        v = c.view_pre
        bl = v.get(c.a.br, "burst_len")
        return [("tn_range", v.get(c.a.br, "tn") <= 7), ("fn_below_hyperframe", v.get(c.a.br, "fn") < HYPERFRAME),
                ("burst_len_as_the_scheduler_produces", L.in_set(bl, (0, 148, 444))), ("burst_fits_buffer", bl <= self.BUF - 6)]

    def ensures(self, c, old, new, ret):
        br = c.a.br
        tn, fn, pwr, blen = (old.get(br, f) for f in ("tn", "fn", "pwr", "burst_len"))
        sent = new.ghost("sent", [])
        posts = [("exactly_one_datagram", z3.BoolVal(len(sent) == 1))]
        if len(sent) != 1:
            return posts
        s = sent[0]
        posts.append(("negative_only_when_the_socket_did_not_take_it", z3.Implies(ret < 0, s["rc"] != s["len"])))
        bits = old.cell(c.burst)
        length, octet = L.enc(_TxView(tn, fn, pwr, blen), False, lambda i: z3.Select(bits, i))
        posts.append(("sent_on_data_socket", s["fd"] == old.get(c.a.trx, "trx_ofd_data.fd")))
        posts.append(("length_is_6_plus_burst_len", z3.And(s["len"] == length, s["len"] == 6 + blen)))

        def same_octet(i):
            c.instantiate(s["base"] + i)
            return z3.Implies(z3.And(0 <= i, i < length), z3.Select(s["array"], s["base"] + i) == octet(i))
        posts.append(("octets_follow_the_layout", c.forall(same_octet, "i")))
        return posts


# ====================================================================== C14: memory safety of the receive paths

CTRL_FUNCS = ("trx_ctrl_send", "trx_ctrl_timer_cb", "trx_if_measure_rsp_cb", "trx_ctrl_read_cb")
CTRL_DECLS = DECLS + ((TRX_IF_C, "proto trx_ctrl_timer_cb"),)
CTRL_EXTERNALS = dict(libc.EXTERNALS, **libc.STRING_EXTERNALS)


def ext_freq2arfcn(E, args, node):
    return E.fresh_int("arfcn", E.ntype(node))


CTRL_EXTERNALS["gsm_freq102arfcn"] = ext_freq2arfcn
NOTES["gsm_freq102arfcn"] = "gsm_freq102arfcn(freq10, uplink): pure, returns some uint16_t"


def known_nul(c, arr_ptr, idx):
    """contract-level: the char array arr_ptr[...] has a NUL at index idx (candidate terminator for the string obligations)"""
    E = c.E
    q = arr_ptr
    nul = dict(E.state.ghost.get("nul", {}))
    shape = q.shape()
    from engine.cvc.ctype import TArray as _TA
    if isinstance(q.ctype, _TA):
        shape = shape + ("[]",)            # the cell of the array's elements
    key = (q.block.id, shape)
    nul[key] = nul.get(key, []) + [idx]
    E.state.ghost["nul"] = nul


class DataRxSafety(TrxDataRxCb):
    """C14 view of trx_data_rx_cb: for EVERY datagram content and length only the mem/ub side conditions are of interest"""
    frame = False

    def ensures(self, c, old, new, ret):
        return []


class MeasureRspCb(Contract):
    """trx_if_measure_rsp_cb(trx, resp): resp must be a NUL-terminated string (memory safety only)"""
    name = "trx_if_measure_rsp_cb"
    frame = False
    externals = CTRL_EXTERNALS
    external_notes = NOTES

    def params(self, c):
        trx = c.ptr("trx")
        if c.mode == "verify":
            rlen = z3.Int("ghost.resp_len")
            c.E.assume(z3.And(rlen >= 0, rlen <= 1009))
            resp = c.ptr("resp", count=V(rlen + 1, 1, 1010), single=False)
            c.rlen = rlen
            c.inputs.update(resp_len=rlen, resp=("array_n", c.view_pre.cell(resp), rlen + 1))
            known_nul(c, resp, rlen)
        else:
            resp = c.ptr("resp", count=0)
            libc.require_string(c.E, resp, c.node, "call_trx_if_measure_rsp_cb.resp")

    def requires(self, c):
        if c.mode == "verify":
            return [("resp_terminated", c.view_pre.get(c.at(c.a.resp, c.rlen)) == 0)]
        return []


class CtrlReadCb(Contract):
    """trx_ctrl_read_cb(ofd, what): for EVERY datagram read() returns and every state of the pending-command list
    (empty / one command / more), under the representation invariant of the list (every queued trx_ctrl_msg is a live
    heap object whose cmd is a NUL-terminated string of at least 4 octets, as trx_ctrl_cmd builds it): all memory-safety
    and undefined-behaviour side conditions."""
    name = "trx_ctrl_read_cb"
    frame = False
    inline = ("trx_ctrl_send", "llist_empty", "llist_del", "__llist_del")
    uses = (MeasureRspCb,)
    externals = CTRL_EXTERNALS
    external_notes = NOTES
    cases = (("list", 0), ("list", 1), ("list", 2))

    def params(self, c):
        ofd = c.ptr("ofd")
        c.int("what")
        if c.mode != "verify":
            raise Unsupported("trx_ctrl_read_cb: verification only")
        v = c.view_pre
        trx = c.obj("trx", "struct trx_instance")
        fi = c.obj("fi", "struct osmo_fsm_inst")
        c.set_ptr(ofd, "data", trx)
        c.set_ptr(trx, "fi", fi)
        c.trx, c.fi = trx, fi
        head = v._resolve(trx, "trx_ctrl_list", [])
        n = c.case[1]
        c.tcms = []
        for k in range(n):
            t = c.obj("tcm%d" % (k + 1), "struct trx_ctrl_msg", kind="heap")
            ln = z3.Int("ghost.cmdlen%d" % (k + 1))
            c.E.assume(z3.And(ln >= 4, ln <= 1022))
            known_nul(c, v._resolve(t, "cmd", []), ln)
            c.tcms.append((t, ln))
            c.inputs["cmdlen%d" % (k + 1)] = ln
            c.inputs["cmd%d" % (k + 1)] = ("array_n", v.cell(t, "cmd[]"), ln + 1)
        lst = lambda t: v._resolve(t, "list", [])
        if n == 0:
            c.set_ptr(head, "next", head)
            c.set_ptr(head, "prev", head)
        else:
            t1 = c.tcms[0][0]
            c.set_ptr(head, "next", lst(t1))
            c.set_ptr(lst(t1), "prev", head)
            if n == 1:
                c.set_ptr(head, "prev", lst(t1))
                c.set_ptr(lst(t1), "next", head)
            else:
                t2 = c.tcms[1][0]
                c.set_ptr(lst(t1), "next", lst(t2))
                c.set_ptr(lst(t2), "prev", lst(t1))
                # the rest of the list is not modelled: tcm2->list.next and head.prev stay unknown pointers (never followed here)

    def requires(self, c):
        v = c.view_pre
        return [("cmd%d_terminated" % (k + 1), v.get(t, "cmd[]", ln) == 0) for k, (t, ln) in enumerate(c.tcms)]

    def ensures(self, c, old, new, ret):
        g = new.ghost("datagram")
        if g is not None:
            c.inputs.update(n=g["len"], dgram=("array_n", g["array"], g["len"]))
        return []


# ====================================================================== C05: commands trxcon emits, responses it accepts

ENOMEM, ENOSPC, ENOTSUP_, EIO = 12, 28, 95, 5
CMD_FUNCS = ("trx_ctrl_send", "trx_ctrl_timer_cb", "trx_ctrl_cmd", "trx_if_cmd_echo", "trx_if_cmd_poweroff", "trx_if_cmd_poweron",
             "trx_if_cmd_setslot", "trx_if_cmd_rxtune", "trx_if_cmd_txtune", "trx_if_cmd_measure", "trx_if_measure_rsp_cb",
             "trx_if_cmd_setta", "trx_if_cmd_setfh", "trx_ctrl_read_cb")
VERB_MAX = 16


def ext_arfcn2freq(E, args, node):
    return E.fresh_int("freq10", E.ntype(node))


CTRL_EXTERNALS["gsm_arfcn2freq10"] = ext_arfcn2freq
NOTES["gsm_arfcn2freq10"] = "gsm_arfcn2freq10(arfcn, uplink): pure, returns some uint16_t (0xffff = undefined)"
for _k in ("snprintf", "vsnprintf", "_talloc_zero", "strncmp", "strchr", "strlen", "sscanf", "talloc_free", "_talloc_free", "osmo_timer_del",
           "osmo_timer_schedule", "verif_fsm_state_chg", "verif_fsm_term", "trxcon_phyif_handle_rsp"):
    NOTES.setdefault(_k, libc.DESCR.get(_k, _k))


def setup_trx(c, n_pending):
    """pre-state shared by the CTRL contracts: trx instance with its fsm and a pending-command list of n_pending (0/1) messages"""
    v = c.view_pre
    trx = c.obj("trx", "struct trx_instance")
    fi = c.obj("fi", "struct osmo_fsm_inst")
    c.set_ptr(trx, "fi", fi)
    head = v._resolve(trx, "trx_ctrl_list", [])
    c.trx, c.fi, c.head, c.tcms = trx, fi, head, []
    if n_pending == 0:
        c.set_ptr(head, "next", head)
        c.set_ptr(head, "prev", head)
    else:
        t = c.obj("tcm1", "struct trx_ctrl_msg", kind="heap")
        ln = z3.Int("ghost.cmdlen1")
        c.E.assume(z3.And(ln >= 4, ln <= 1022))
        known_nul(c, v._resolve(t, "cmd", []), ln)
        lst = v._resolve(t, "list", [])
        c.set_ptr(head, "next", lst)
        c.set_ptr(head, "prev", lst)
        c.set_ptr(lst, "next", head)
        c.set_ptr(lst, "prev", head)
        c.tcms.append((t, ln))
    return trx


def text_is(view, ptr, path, off, text):
    """the octets ptr.path[off ..] are the ASCII text"""
    return z3.And([view.get(ptr, path, off + k) == b for k, b in enumerate(text.encode())])


class TrxCtrlCmd(Contract):
    """trx_ctrl_cmd(trx, critical, cmd, fmt, ...): cmd = verb of 1..16 octets without space/NUL, fmt a string.
       returns 0 or -ENOMEM.  On 0 a new message is linked at the tail of trx_ctrl_list whose text is
       "CMD " verb, followed by NUL (empty fmt) or by ' ' and a NUL-terminated argument text; it fits cmd[1024];
       cmd_len = strlen(verb), critical as given; if the list was empty the text (with its NUL) is sent on the CTRL socket."""
    name = "trx_ctrl_cmd"
    inline = ("trx_ctrl_send", "llist_empty", "llist_add_tail", "__llist_add")
    externals = CTRL_EXTERNALS
    external_notes = NOTES
    cases = (("pending", 0), ("pending", 1))

    def params(self, c):
        if c.mode == "verify":
            trx = setup_trx(c, c.case[1])
            c.ptr("trx", target=trx)
            c.int("critical")
            v = z3.Int("ghost.verb_len")
            f = z3.Int("ghost.fmt_len")
            c.E.assume(z3.And(v >= 1, v <= VERB_MAX, f >= 0, f <= 64))
            cmd = c.ptr("cmd", count=V(v + 1, 2, VERB_MAX + 1), single=False)
            fmt = c.ptr("fmt", count=V(f + 1, 1, 65), single=False)
            known_nul(c, cmd, v)
            known_nul(c, fmt, f)
            c.v, c.f = v, f
            c.inputs.update(verb_len=v, fmt_len=f, verb=("array_n", c.view_pre.cell(cmd), v + 1))
        else:
            c.ptr("trx")
            c.int("critical")
            cmd = c.ptr("cmd", count=0)
            fmt = c.ptr("fmt", count=0)
            c.v, _ = libc.require_string(c.E, cmd, c.node, "call_trx_ctrl_cmd.cmd")
            c.f, _ = libc.require_string(c.E, fmt, c.node, "call_trx_ctrl_cmd.fmt")
            # the variadic arguments consumed by %s conversions must be strings
            try:
                segs = libc.parse_format(libc.literal_bytes(c.E, fmt, "trx_ctrl_cmd"))
            except Unsupported:
                segs = []
            extra = list(c.actuals[4:])
            for sg in segs:
                if sg[0] in ("s", "u", "d") and extra:
                    a = extra.pop(0)
                    if sg[0] == "s":
                        libc.require_string(c.E, a, c.node, "call_trx_ctrl_cmd.string_argument")

    def verb_ok(self, c, view):
        cmd = c.a.cmd

        def ch(k):
            x = view.get(c.at(cmd, k))
            return z3.Implies(z3.And(0 <= k, k < c.v), z3.And(x != 0, x != 32))
        return ch

    def requires(self, c):
        v = c.view_pre
        reqs = []
        if c.mode == "verify":
            reqs += [("verb_terminated", v.get(c.at(c.a.cmd, c.v)) == 0), ("fmt_terminated", v.get(c.at(c.a.fmt, c.f)) == 0),
                     ("verb_has_no_space_or_nul", c.forall(self.verb_ok(c, v), "k", sort="stroff")),
                     ("fmt_has_no_nul", c.forall(lambda k: z3.Implies(z3.And(0 <= k, k < c.f), v.get(c.at(c.a.fmt, k)) != 0), "k", sort="stroff"))]
            reqs += [("cmd%d_terminated" % (k + 1), v.get(t, "cmd[]", ln) == 0) for k, (t, ln) in enumerate(c.tcms)]
        else:
            reqs += [("verb_length", z3.And(c.v >= 1, c.v <= VERB_MAX)),
                     ("verb_has_no_space_or_nul", c.forall(self.verb_ok(c, v), "k", sort="stroff"))]
        return reqs

    def assigns(self, c):
        trx = c.a.trx
        return [c.region(trx, "trx_ctrl_list.next"), c.region(trx, "trx_ctrl_list.prev"), c.region(trx, "prev_state"),
                c.region(trx, "trx_ctrl_timer.data"), c.region(trx, "trx_ctrl_timer.cb")] + \
               ([c.region(c.fi, "state")] + [c.region(t, "list.next") for t, _ in c.tcms] if c.mode == "verify" else [])

    def ghost_effect(self, c, old):
        E = c.E
        cmd = c.a.cmd
        verb = None
        try:
            verb = bytes(libc.literal_bytes(E, cmd, "trx_ctrl_cmd")).decode()
        except Unsupported:
            pass
        E.state.ghost["queued"] = E.state.ghost.get("queued", []) + [{"verb": verb, "critical": c.a.critical, "fmt_len": c.f}]

    def ensures(self, c, old, new, ret):
        posts = [("returns_0_or_ENOMEM", z3.Or(ret == 0, ret == -ENOMEM))]
        if c.mode != "verify":
            return posts
        trx, head = c.a.trx, c.head
        tail = new.get(trx, "trx_ctrl_list.prev")
        old_tail = old.get(trx, "trx_ctrl_list.prev")
        sent = new.ghost("sent", [])
        if tail is old_tail:
            # nothing was linked: only legal on allocation failure
            return posts + [("unlinked_only_on_ENOMEM", ret == -ENOMEM), ("nothing_sent", z3.BoolVal(len(sent) == 0))]
        msg = Ptr(tail.block, tail.steps[:-1], tail.block.elem)          # container of the new tail link
        v, f = c.v, c.f
        cm = lambda k: new.get(msg, "cmd[]", k)
        E = c.E
        for k in (0, 1, 2, 3):
            c.instantiate(k)
        c.instantiate(4 + v, 5 + v)

        def verb_copied(k):
            c.instantiate(4 + k)
            c.instantiate(k, sort="stroff")
            return z3.Implies(z3.And(0 <= k, k < v), cm(4 + k) == old.get(c.at(c.a.cmd, k)))
        L = z3.Int("ghost.text_len")
        posts += [("linked_returns_0", ret == 0),
                  ("is_heap_message", z3.BoolVal(tail.block.kind == "heap" and tail.block.live)),
                  ("linked_at_tail", z3.BoolVal(new.get(msg, "list.next") is not None and new.get(msg, "list.next").block is head.block
                                               and new.get(msg, "list.next").shape() == head.shape())),
                  ("text_starts_with_CMD", text_is(new, msg, "cmd[]", 0, "CMD ")),
                  ("verb_follows", c.forall(verb_copied, "k", sort="verbidx")),
                  ("verb_ends_with_space_or_nul", cm(4 + v) == z3.If(f > 0, 32, 0)),
                  ("cmd_len_is_verb_length", new.get(msg, "cmd_len") == v),
                  ("critical_stored", new.get(msg, "critical") == c.a.critical),
                  ("retry_cnt_zero", new.get(msg, "retry_cnt") == 0)]
        cands = E.state.ghost.get("nul", {}).get((msg.block.id, ("[]", "cmd", "[]")), [])
        posts.append(("text_is_terminated_inside_cmd", z3.Or([z3.And(z >= 4 + v, z <= 1023, cm(z) == 0) for z in cands] or [z3.BoolVal(False)])))
        if c.case[1] == 0:
            posts.append(("first_command_is_sent", z3.BoolVal(len(sent) == 1)))
            if len(sent) == 1:
                s = sent[0]
                posts.append(("sent_on_ctrl_socket", s["fd"] == old.get(trx, "trx_ofd_ctrl.fd")))
                posts.append(("sent_text_is_the_command", z3.BoolVal(s["array"].eq(new.cell(msg, "cmd[]")))))
        else:
            posts.append(("queued_behind_pending_not_sent", z3.BoolVal(len(sent) == 0)))
        return posts


class _Emitter(Contract):
    """trx_if_cmd_<x>(trx[, cmdp]): queues exactly one command with the given verb through trx_ctrl_cmd (or none, with an error)"""
    uses = (TrxCtrlCmd,)
    externals = CTRL_EXTERNALS
    external_notes = NOTES
    verb, critical, cmdp_type = None, 1, None

    def params(self, c):
        c.ptr("trx")
        if self.cmdp_type:
            c.ptr("cmdp")

    def errors(self, c, old, ret):
        return z3.BoolVal(False)

    def assigns(self, c):
        trx = c.a.trx
        return [c.region(trx, "trx_ctrl_list.next"), c.region(trx, "trx_ctrl_list.prev"), c.region(trx, "prev_state"),
                c.region(trx, "trx_ctrl_timer.data"), c.region(trx, "trx_ctrl_timer.cb")]

    def ensures(self, c, old, new, ret):
        q = new.ghost("queued", [])
        ok = len(q) == 1 and q[0]["verb"] == self.verb
        posts = [("at_most_one_command", z3.BoolVal(len(q) <= 1))]
        if len(q) == 1:
            posts += [("verb_is_%s" % self.verb, z3.BoolVal(ok)), ("critical_flag", q[0]["critical"] == self.critical),
                      ("returns_result_of_trx_ctrl_cmd", z3.Or(ret == 0, ret == -ENOMEM))]
        else:
            posts.append(("no_command_only_with_error", self.errors(c, old, ret)))
        return posts


def emitter(fn, verb_, critical_=1, cmdp=None, err=None):
    cls = type("Emit_" + fn, (_Emitter,), {"name": fn, "verb": verb_, "critical": critical_, "cmdp_type": cmdp})
    if err is not None:
        cls.errors = lambda self, c, old, ret: err(c, old, ret)
    return cls


EMITTERS = [
    emitter("trx_if_cmd_echo", "ECHO"), emitter("trx_if_cmd_poweroff", "POWEROFF"), emitter("trx_if_cmd_poweron", "POWERON"),
    emitter("trx_if_cmd_setta", "SETTA", 0, "setta"),
    emitter("trx_if_cmd_rxtune", "RXTUNE", 1, "h0", lambda c, old, ret: ret == -ENOTSUP_),
    emitter("trx_if_cmd_txtune", "TXTUNE", 1, "h0", lambda c, old, ret: ret == -ENOTSUP_),
    emitter("trx_if_cmd_measure", "MEASURE", 1, "measure", lambda c, old, ret: ret == -ENOTSUP_),
]


class EmitSetslot(_Emitter):
    name, verb, cmdp_type = "trx_if_cmd_setslot", "SETSLOT", "setslot"

    def requires(self, c):
        # the table chan_types[] has _GSM_PCHAN_MAX entries
        return [("pchan_is_a_channel_combination", c.view_pre.get(c.a.cmdp, "pchan") < 12)]


class EmitSetfh(_Emitter):
    """trx_if_cmd_setfh(trx, cmdp): cmdp->ma valid for ma_len entries.  Memory safety of the ma_buf composition for ANY ma_len;
    -EINVAL for an empty allocation or an undefined ARFCN, -ENOSPC when the text does not fit ma_buf[1000]; otherwise one SETFH."""
    name, verb, cmdp_type = "trx_if_cmd_setfh", "SETFH", "h1"
    MA_BUF = 1000

    def __init__(self):
        self.loops = {1: LoopSpec(self.inv, self.loop_assigns, ptr_locals={"ptr": self.ptr_def})}

    def params(self, c):
        c.ptr("trx")
        cmdp = c.ptr("cmdp")
        # size of the local composition buffer, read off the declaration `char ma_buf[...]`
        import re as _re

        def find(n):
            if n.get("kind") == "VarDecl" and n.get("name") == "ma_buf":
                return n
            for x in n.get("inner", []):
                r = find(x)
                if r:
                    return r
        d = find(c.tu.function(self.name))
        m = _re.match(r"char\[(\d+)\]", d["type"]["qualType"]) if d else None
        if not m:
            raise Unsupported("trx_if_cmd_setfh: no `char ma_buf[N]` local")
        self.MA_BUF = int(m.group(1))
        if c.mode == "verify":
            v = c.view_pre
            n = v.get(cmdp, "ma_len")
            ma = c.obj("ma", "uint16_t", count=V(n, 0, None), single=False)
            c.set_ptr(cmdp, "ma", ma)
            c.inputs.update(ma_len=n)

    def loop_assigns(self, c, L_):
        return [c.region(L_.ma_buf, whole=True)]

    def ptr_def(self, c, L_, cur):
        buf = L_.ma_buf
        return Ptr(buf.block, (("i", V((self.MA_BUF - 1) - L_.ma_buf_len, 0, self.MA_BUF - 1)),), buf.block.elem)

    def inv(self, c, L_, entry, cur):
        i, left = L_.i, L_.ma_buf_len
        n = cur.get(c.a.cmdp, "ma_len")
        return [("i_range", z3.And(0 <= i, i <= n)),
                ("room_left_in_range", z3.And(0 <= left, left <= self.MA_BUF - 1)),
                ("every_pair_took_4_to_16_octets", z3.And(left <= (self.MA_BUF - 1) - 4 * i, left >= (self.MA_BUF - 1) - 16 * i))]

    def ensures(self, c, old, new, ret):
        posts = _Emitter.ensures(self, c, old, new, ret)
        n = old.get(c.a.cmdp, "ma_len")
        # "the longest mobile allocation trxcon can encode": the text always fits for up to 62 channels of any band (16 octets per
        # Rx/Tx pair at most, 999 usable octets); 63..64 channels fit unless every frequency has 7 digits (DCS/PCS), in which case the
        # function refuses with -ENOSPC and queues nothing (error clause of the emitter contract) - it never emits a truncated command.
        posts.append(("text_fits_for_up_to_62_channels_of_any_band", z3.Implies(n <= 62, ret != -ENOSPC)))
        return posts

    def errors(self, c, old, ret):
        return z3.Or(ret == -22, ret == -ENOSPC)


# ---------------------------------------------------------------------- acceptance of the toolkit's responses

DISPATCH = ("POWERON", "POWEROFF", "MEASURE", "ECHO")
TRX_STATE = {"OFFLINE": 0, "IDLE": 1, "ACTIVE": 2, "RSP_WAIT": 3}


class MeasureRspSeen(MeasureRspCb):
    """call-site view of trx_if_measure_rsp_cb in the acceptance proof: records where in the buffer the result text starts"""

    def ghost_effect(self, c, old):
        E = c.E
        E.state.ghost["measure_rsp"] = E.state.ghost.get("measure_rsp", []) + [zt(c.a.resp.steps[-1][1])]


class CtrlAccept(Contract):
    """trx_ctrl_read_cb accepts the responses the toolkit is proved to send (C05 Python side):
       pending command  tcm = "CMD " verb [" " args] (head of the list, list of one),
       datagram         = "RSP " verb " " decimal(status) [" " results] NUL   (n <= 1023 octets, the NUL is its last octet)
     ==> the response is matched to the command (never `does not match`);
         status == 0, or the command is not critical: returns 0, the command is unlinked and freed, no osmo_fsm_inst_term;
             POWERON -> powered_up, state ACTIVE; POWEROFF -> !powered_up, IDLE; ECHO -> IDLE; others -> prev_state;
             MEASURE -> trx_if_measure_rsp_cb gets the text at offset 14 (= the results when status has one digit)
         status != 0 and critical: -EIO and osmo_fsm_inst_term(ERROR), the command stays queued."""
    name = "trx_ctrl_read_cb"
    inline = ("trx_ctrl_send", "llist_empty", "llist_del", "__llist_del")
    uses = (MeasureRspSeen,)
    externals = CTRL_EXTERNALS
    external_notes = NOTES
    cases = tuple(("verb", x) for x in DISPATCH + ("other",))

    def params(self, c):
        if c.mode != "verify":
            raise Unsupported("acceptance contract: verification only")
        trx = setup_trx(c, 1)
        ofd = c.ptr("ofd")
        c.int("what")
        c.set_ptr(ofd, "data", trx)
        E, v = c.E, c.view_pre
        t, ln = c.tcms[0]
        vl = z3.Int("ghost.verb_len")
        status, s1, n = z3.Int("ghost.status"), z3.Int("ghost.status_end"), None
        kind = c.case[1]
        E.assume(z3.And(vl >= 1, vl <= VERB_MAX, 4 + vl <= ln))
        cmd = lambda k: v.get(t, "cmd[]", k)
        c.vl, c.status, c.s1, c.cmd = vl, status, s1, cmd
        c.inputs.update(verb_len=vl, status=status, cmdlen1=ln, cmd1=("array_n", v.cell(t, "cmd[]"), ln + 1), critical=v.get(t, "critical"))

        def verb_char(j):
            x = cmd(4 + j)
            return z3.Implies(z3.And(0 <= j, j < vl), z3.And(x != 0, x != 32))
        c.verb_char = verb_char
        # the datagram format, assumed right after read() returns it
        def hook(E_, arr, base, rlen):
            D = lambda i: z3.Select(arr, base + i)
            s0 = 5 + vl
            E_.assume(z3.And(rlen >= 7, rlen <= 1023, s1 > s0, s1 <= rlen - 1, D(rlen - 1) == 0))
            E_.assume(z3.And(D(0) == 82, D(1) == 83, D(2) == 80, D(3) == 32, D(4 + vl) == 32))
            E_.assume(z3.Or(D(s1) == 32, z3.And(D(s1) == 0, s1 == rlen - 1)))
            E_.assume(z3.And(status >= 0, status <= 999999999))
            c.s0, c.D, c.rlen = s0, D, rlen

            def same_verb(j):
                return z3.Implies(z3.And(0 <= j, j < vl), D(4 + j) == cmd(4 + j))

            def text_chars(j):          # j: offset from buf + 4, and absolute below
                return z3.And(z3.Implies(z3.And(0 <= j, 4 + j < rlen - 1), D(4 + j) != 0),
                              z3.Implies(z3.And(s0 <= 4 + j, 4 + j < s1), z3.And(D(4 + j) >= 48, D(4 + j) <= 57)))

            def text_abs(i):
                return z3.And(z3.Implies(z3.And(0 <= i, i < rlen - 1), D(i) != 0),
                              z3.Implies(z3.And(s0 <= i, i < s1), z3.And(D(i) >= 48, D(i) <= 57)))
            for u in (same_verb, text_chars, text_abs, verb_char):
                E_.add_universal(u, "stroff")
            for tm in (vl, z3.IntVal(0), rlen - 1, s1):
                E_.instantiate(tm, "stroff")
            if kind == "MEASURE":
                # RSP MEASURE <status> <kHz> <dBm>: with status 0 the results start at offset 14
                # (the toolkit's reply to an accepted MEASURE carries the two results: "RSP MEASURE 0 <kHz> <dBm>", proved in C05's Python part)
                E_.assume(z3.Implies(status == 0, z3.And(s1 == 13, D(12) == 48, D(13) == 32)))
            c.inputs.update(n=rlen, dgram=("array_n", arr, rlen))
        E.read_hook = hook

        def oracle(E_, blk, shape, start, fmtb):
            g = E_.state.ghost.get("datagram")
            if g is None or blk is not g["block"]:
                return None
            if bytes(fmtb) == b"%d" and E_.entails(start == g["base"] + c.s0):
                return [status]
            if bytes(fmtb) == b"%u %d" and kind == "MEASURE" and E_.entails(z3.And(start == g["base"] + c.s1 + 1, status == 0)):
                # results "<kHz> <dBm>" follow the status of an accepted MEASURE (the toolkit's proved reply format)
                return [z3.Int("ghost.khz"), z3.Int("ghost.dbm")]
            return None
        E.sscanf_oracle = oracle

    def requires(self, c):
        v = c.view_pre
        t, ln = c.tcms[0]
        cmd, vl, kind = c.cmd, c.vl, c.case[1]
        reqs = [("cmd_terminated", cmd(ln) == 0), ("cmd_is_CMD", text_is(v, t, "cmd[]", 0, "CMD ")),
                ("verb_ends", z3.Or(cmd(4 + vl) == 32, z3.And(cmd(4 + vl) == 0, ln == 4 + vl))),
                ("verb_chars", c.forall(c.verb_char, "j", sort="stroff", at=[vl]))]
        if kind == "other":
            for name in DISPATCH:
                eq = z3.And([cmd(4 + k) == b for k, b in enumerate(name.encode())])
                reqs.append(("verb_is_not_%s" % name, z3.Not(eq)))
        else:
            reqs += [("verb_is_%s" % kind, z3.And(vl == len(kind), text_is(v, t, "cmd[]", 4, kind)))]
        return reqs

    def assigns(self, c):
        trx = c.trx
        t = c.tcms[0][0]
        return [c.region(trx, "trx_ctrl_list.next"), c.region(trx, "trx_ctrl_list.prev"), c.region(trx, "powered_up"),
                c.region(trx, "prev_state"), c.region(trx, "trx_ctrl_timer.data"), c.region(trx, "trx_ctrl_timer.cb"), c.region(c.fi, "state"),
                c.region(t, "list.next"), c.region(t, "list.prev")]

    def ensures(self, c, old, new, ret):
        trx, (t, ln), kind = c.trx, c.tcms[0], c.case[1]
        status = c.status
        crit = old.get(t, "critical")
        term = new.ghost("fsm_term", [])
        freed = new.ghost("freed", [])
        chg = new.ghost("fsm_chg", [])
        meas = new.ghost("measure_rsp", [])
        accepted = z3.Or(status == 0, crit == 0)
        removed = t.block.name in freed
        nxt = new.get(trx, "trx_ctrl_list.next")
        empty_now = nxt is not None and nxt.block is c.head.block and nxt.shape() == c.head.shape()
        posts = [("accepted_iff_status_0_or_not_critical", z3.If(accepted, z3.BoolVal(removed and not term), z3.BoolVal((not removed) and len(term) == 1))),
                 ("returns_0_when_accepted", z3.Implies(accepted, ret == 0)),
                 ("returns_EIO_when_rejected", z3.Implies(z3.Not(accepted), ret == -EIO))]
        if removed:
            posts.append(("command_unlinked_list_empty", z3.BoolVal(empty_now)))
            posts.append(("nothing_further_sent", z3.BoolVal(len(new.ghost("sent", [])) == 0)))
            want = {"POWERON": TRX_STATE["ACTIVE"], "POWEROFF": TRX_STATE["IDLE"], "ECHO": TRX_STATE["IDLE"]}.get(kind)
            if kind == "MEASURE":
                has_results = c.D(c.s1) == 32        # a space after the status: result text follows; otherwise the reply ends there
                if len(meas) == 1:
                    g_ = z3.And(has_results, meas[0] == c.s1 + 1, z3.Implies(status == 0, meas[0] == 14))
                elif len(meas) == 0:
                    g_ = z3.And(z3.Not(has_results), status != 0)          # only a refused MEASURE may come without results
                else:
                    g_ = z3.BoolVal(False)
                posts.append(("measure_result_handed_over_right_after_the_status", g_))
                posts.append(("no_state_change_for_measure", z3.BoolVal(len(chg) == 0)))
            else:
                posts.append(("one_state_change", z3.BoolVal(len(chg) == 1)))
                if len(chg) == 1:
                    posts.append(("state_change_target", chg[0] == (want if want is not None else old.get(trx, "prev_state"))))
            if kind == "POWERON":
                posts.append(("powered_up_set", new.get(trx, "powered_up") == 1))
            if kind == "POWEROFF":
                posts.append(("powered_up_cleared", new.get(trx, "powered_up") == 0))
        if term:
            posts.append(("terminated_with_ERROR", term[0] == 3))
        return posts

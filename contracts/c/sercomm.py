"""C06 contracts: src/target/firmware/comm/sercomm.c (ARM build, buffer 256; HOST_BUILD, buffer 2048).

Stage 1: step contracts of sercomm_sendmsg / sercomm_drv_pull / sercomm_drv_rx_char.
The case tables are written ONCE, as functions over an abstract transmitter / receiver state (`tx_step`; `rx_table` for a receive buffer
with room left, plus the RELATION of allowed outcomes when it is full, see DrvRxChar); the contracts say
`abstraction(new memory) is a successor of abstraction(old memory)`, and the stages 2-4 of props/cparts/C06.py reason about the same
functions / relation (`rx_abs`), so what is proved about the steps holds for every code that satisfies the step contracts.

Abstraction:  transmitter  idle | (buf, d, t, n, esc): message octets buf[d..t), next octet buf[n], escape pending
              receiver     (st, dlci, ctrl, rb, rd, rt, rdl): state, address/control octets seen, payload rb[rd..rt), rdl = buffer size
ASSUMED (libosmocore msgb.c / firmware allocator): msgb_alloc never fails and returns an empty message with the requested buffer;
msgb_enqueue/msgb_dequeue are FIFO per queue; msgb_free releases; handlers consume the message and do not re-enter sercomm.
"""
import z3

from engine.cvc.contract import Contract, LoopSpec, View
from engine.cvc.values import V, Ptr, FnPtr, zt
from engine.cvc.ctype import TInt, TVoid
from engine.pyvc.values import Unsupported
from spec import hdlc_wire as W

SERCOMM = "src/target/firmware/comm/sercomm.c"
HOST_EXTRA = ("-DHOST_BUILD", "-I", "src/target/firmware/include/comm")
ST_WAIT, ST_ADDR, ST_CTRL, ST_DATA, ST_ESC, ST_AESC, ST_CESC = 0, 1, 2, 3, 4, 5, 6
STATE_NAMES = {"RX_ST_WAIT_START": ST_WAIT, "RX_ST_ADDR": ST_ADDR, "RX_ST_CTRL": ST_CTRL, "RX_ST_DATA": ST_DATA, "RX_ST_ESCAPE": ST_ESC,
               "RX_ST_ADDR_ESCAPE": ST_AESC, "RX_ST_CTRL_ESCAPE": ST_CESC}
NDLCI = 129
PRE_REPAIR_TABLE = False      # negative control only: the receiver table before 70ceb72 (7D in the ADDR / CTRL states taken as the octet itself)


# ====================================================================== the case tables (abstract steps)

def wire_safe(x):
    """an octet that may travel between the flags: not a flag, not zero"""
    return z3.And(x != W.FLAG, x != 0)


def tx_step(buf, d, t, n, esc, extra=False):
    """one sercomm_drv_pull() with a message in transmission -> (octet, finished, buf', n', esc').
    A RELATION: 7E, 7D and 00 MUST be escaped; any other octet MAY be escaped (`extra`: the implementation's choice for the current octet;
    e.g. XON/XOFF for an adapter with software flow control) as long as its inverted form can travel (is neither 7E nor 00) - the receiver
    un-escapes whatever follows 7D, so it need not know the set."""
    cur = z3.Select(buf, n)
    c_esc = esc
    c_end = z3.And(z3.Not(esc), n >= t)
    may = z3.And(extra, wire_safe(W.xor20(cur))) if not isinstance(extra, bool) else z3.BoolVal(False)
    c_mark = z3.And(z3.Not(esc), n < t, z3.Or(W.needs_escape(cur), may))
    ch = z3.If(c_esc, cur, z3.If(c_end, W.FLAG, z3.If(c_mark, W.ESCAPE, cur)))
    buf1 = z3.If(c_mark, z3.Store(buf, n, W.xor20(cur)), buf)
    n1 = z3.If(z3.Or(c_end, c_mark), n, n + 1)
    return ch, c_end, buf1, n1, c_mark


def rx_table(st, dlci, ctrl, ch):
    """one sercomm_drv_rx_char(ch) while there is ROOM LEFT in the receive buffer (deterministic) ->
       dict(st, dlci, ctrl, store (Bool), val, dispatch (Bool))"""
    in_data = z3.And(st == ST_DATA, ch != W.ESCAPE, ch != W.FLAG)
    store = z3.Or(in_data, st == ST_ESC)
    val = z3.If(st == ST_ESC, W.xor20(ch), ch)
    dispatch = z3.And(st == ST_DATA, ch == W.FLAG)
    esc_ch = z3.And(ch == W.ESCAPE, z3.BoolVal(not PRE_REPAIR_TABLE))
    st1 = z3.If(st == ST_WAIT, z3.If(ch == W.FLAG, ST_ADDR, ST_WAIT),
                z3.If(st == ST_ADDR, z3.If(esc_ch, ST_AESC, ST_CTRL),
                      z3.If(st == ST_AESC, ST_CTRL,
                            z3.If(st == ST_CTRL, z3.If(esc_ch, ST_CESC, ST_DATA),
                                  z3.If(st == ST_CESC, ST_DATA,
                                        z3.If(st == ST_DATA, z3.If(ch == W.ESCAPE, ST_ESC, z3.If(ch == W.FLAG, ST_WAIT, ST_DATA)),
                                              z3.If(st == ST_ESC, ST_DATA, st)))))))
    dlci1 = z3.If(z3.And(st == ST_ADDR, z3.Not(esc_ch)), ch, z3.If(st == ST_AESC, W.xor20(ch), dlci))
    ctrl1 = z3.If(z3.And(st == ST_CTRL, z3.Not(esc_ch)), ch, z3.If(st == ST_CESC, W.xor20(ch), ctrl))
    return {"st": st1, "dlci": dlci1, "ctrl": ctrl1, "store": store, "val": val, "dispatch": dispatch}


def header_state(st):
    return z3.Or(st == ST_WAIT, st == ST_ADDR, st == ST_AESC, st == ST_CTRL, st == ST_CESC)


def must_store(st, ch):
    """the octet would have to be appended to the payload"""
    return z3.Or(z3.And(st == ST_DATA, ch != W.FLAG, ch != W.ESCAPE), st == ST_ESC)


# ====================================================================== assumed msgb library

def new_msgb(E, name, dl, d, t, kind="heap"):
    """a well-formed message object: struct msgb + its data buffer of dl octets, message octets buf[d..t)"""
    mt = E.tt.parse("struct msgb")
    m = E.new_block(name, mt, 1, kind, single=True)
    b = E.new_block(name + ".buf", TInt(8, False, "unsigned char"), dl if isinstance(dl, V) else V(dl, 0, 65535), kind)
    mp = Ptr(m, (("i", V(0)),), mt)
    bt = b.elem
    mk = lambda i: Ptr(b, (("i", i if isinstance(i, V) else V(i, 0, 65535)),), bt)
    for f, i in (("head", V(0)), ("data", d), ("tail", t)):
        E.state.pmem[(m.id, ("[]", f))] = mk(i)
    E.state.mem[(m.id, ("[]", "data_len"))] = zt(dl)
    E.state.mem[(m.id, ("[]", "len"))] = zt(t) - zt(d)
    m.buffer = b
    b.owner = m
    return mp, b


def queue_index(q):
    """index i of &sercomm.tx.dlci_queues[i]"""
    if not isinstance(q, Ptr) or len(q.steps) < 2 or q.steps[-1][0] != "i" or q.steps[-2] != ("f", "dlci_queues"):
        raise Unsupported("queue argument %r" % (q,))
    return zt(q.steps[-1][1])


def ext_msgb_enqueue(E, args, node):
    q, msg = args
    E.state.ghost["enqueued"] = E.state.ghost.get("enqueued", []) + [(queue_index(q), msg)]
    return None


def ext_msgb_dequeue(E, args, node):
    """ASSUMED: returns NULL iff the queue is empty, else its head (a well-formed message)"""
    i = queue_index(args[0])
    qlen = E.state.ghost.get("qlen")
    if qlen is None:
        qlen = z3.Array("ghost.qlen", z3.IntSort(), z3.IntSort())
    E.assume(z3.Select(qlen, i) >= 0)
    if not E.branch(z3.Select(qlen, i) > 0):
        return Ptr.NULL(E.tt.parse("struct msgb"))
    k = len(E.state.ghost.get("dequeued", []))
    dl = E.fresh_int("deq%d.data_len" % k, TInt(16, False))
    d = E.fresh_int("deq%d.data" % k, TInt(16, False))
    t = E.fresh_int("deq%d.tail" % k, TInt(16, False))
    E.assume(z3.And(d.t <= t.t, t.t <= dl.t))
    mp, b = new_msgb(E, "deq%d" % k, dl, d, t)
    E.state.ghost["qlen"] = z3.Store(qlen, i, z3.Select(qlen, i) - 1)
    E.state.ghost["dequeued"] = E.state.ghost.get("dequeued", []) + [(i, mp, d.t, t.t)]
    return mp


def ext_msgb_alloc(E, args, node):
    """ASSUMED: never NULL (see NOTES); a fresh empty message with `size` octets of buffer"""
    size = args[0]
    k = len(E.state.ghost.get("allocated", []))
    mp, b = new_msgb(E, "alloc%d" % k, size, V(0), V(0))
    E.state.ghost["allocated"] = E.state.ghost.get("allocated", []) + [mp]
    return mp


def ext_msgb_free(E, args, node):
    m = args[0]
    if not isinstance(m, Ptr) or m.block is None or m.block.kind == "unknown" or not m.block.live:
        E.require("mem", "msgb_free.live_message", False, node)
    if not isinstance(m.null, bool):
        E.require("mem", "msgb_free.non_null", z3.Not(m.null), node)
    m.block.live = False
    if getattr(m.block, "buffer", None) is not None:
        m.block.buffer.live = False
    E.state.ghost["freed"] = E.state.ghost.get("freed", []) + [m.block.name]
    return None


def ext_nop(E, args, node):
    t = E.ntype(node)
    return None if isinstance(t, TVoid) else E.fresh_int("ext_rc", t)


EXTERNALS = {"msgb_enqueue": ext_msgb_enqueue, "msgb_dequeue": ext_msgb_dequeue, "msgb_alloc": ext_msgb_alloc, "msgb_free": ext_msgb_free,
             "sercomm_lock": ext_nop, "sercomm_unlock": ext_nop, "uart_irq_enable": ext_nop}
NOTES = {
    "msgb_enqueue": "msgb_enqueue(queue, msg): appends msg at the tail of the queue (FIFO); touches only list linkage",
    "msgb_dequeue": "msgb_dequeue(queue): NULL iff the queue is empty, else removes and returns its head, a well-formed message "
                    "(head <= data <= tail <= head + data_len)",
    "msgb_alloc": "msgb_alloc(size, name): never returns NULL (target: the static pool allocator of comm/msgb.c spins when exhausted; host: "
                  "talloc running out of memory is outside the statement - sercomm_drv_rx_char does not check the result); returns a fresh message "
                  "with an empty buffer of `size` octets",
    "msgb_free": "msgb_free(msg): msg must be live; it and its buffer are dead afterwards",
    "sercomm_lock": "sercomm_lock/sercomm_unlock: interrupt masking, no effect on sercomm's memory",
    "sercomm_unlock": "sercomm_lock/sercomm_unlock: interrupt masking, no effect on sercomm's memory",
    "uart_irq_enable": "uart_irq_enable: hardware register access, no effect on sercomm's memory",
}


# ====================================================================== helpers over the concrete state

class TxView:
    """abstraction of sercomm.tx in a memory view"""

    def __init__(self, view, g):
        self.msg = view.get(g, "tx.msg")
        self.state = view.get(g, "tx.state")
        self.idle = self.msg is not None and self.msg.block is None
        self.known = self.msg is not None and (self.idle or self.msg.block.kind != "unknown")
        if self.known and not self.idle:
            m = Ptr(self.msg.block, (("i", V(0)),), self.msg.block.elem)
            data, tail, nxt = view.get(m, "data"), view.get(m, "tail"), view.get(g, "tx.next_char")
            self.m = m
            self.bufblk = data.block
            self.buf = view.cell(Ptr(data.block, (("i", V(0)),), data.block.elem))
            self.d, self.t = zt(data.steps[-1][1]), zt(tail.steps[-1][1])
            self.nptr = nxt
            self.n = zt(nxt.steps[-1][1]) if nxt is not None and nxt.block is data.block else None
            self.esc = self.state == ST_ESC


def msg_parts(view, mp):
    m = Ptr(mp.block, (("i", V(0)),), mp.block.elem)
    data, tail, head = view.get(m, "data"), view.get(m, "tail"), view.get(m, "head")
    buf = view.cell(Ptr(data.block, (("i", V(0)),), data.block.elem))
    return {"m": m, "blk": data.block, "buf": buf, "h": zt(head.steps[-1][1]), "d": zt(data.steps[-1][1]), "t": zt(tail.steps[-1][1]),
            "dl": view.get(m, "data_len"), "len": view.get(m, "len")}


# ====================================================================== sercomm_sendmsg

class SendMsg(Contract):
    """sercomm_sendmsg(dlci, msg): dlci < _SC_DLCI_MAX, msg well-formed with >= 2 octets of headroom
       ==> the message now starts with the address octet dlci and the control octet 03 (payload untouched, two octets longer) and is
           appended to the queue of that DLCI; nothing else changes."""
    name = "sercomm_sendmsg"
    inline = ("msgb_push", "msgb_headroom")
    externals = EXTERNALS
    external_notes = NOTES

    def params(self, c):
        c.int("dlci")
        if c.mode != "verify":
            raise Unsupported("sercomm_sendmsg: verification only")
        E = c.E
        dl, d, t = (z3.Int("ghost.%s" % x) for x in ("data_len", "data", "tail"))
        E.assume(z3.And(0 <= d, d <= t, t <= dl, dl <= 65535))
        mp, b = new_msgb(E, "msg", V(dl, 0, 65535), V(d, 0, 65535), V(t, 0, 65535))
        c.ptr("msg", target=mp)
        c.mp, c.b, c.d, c.t, c.dl = mp, b, d, t, dl
        c.g = c.glob("sercomm")
        c.inputs.update(data=d, tail=t, data_len=dl)

    def requires(self, c):
        return [("dlci_in_range", c.a.dlci < NDLCI), ("headroom_for_header", c.d >= 2)]

    def assigns(self, c):
        return [c.region(c.mp, "data"), c.region(c.mp, "len"), c.region(Ptr(c.b, (("i", V(0)),), c.b.elem), whole=True)]

    def ensures(self, c, old, new, ret):
        o, n = msg_parts(old, c.mp), msg_parts(new, c.mp)
        enq = new.ghost("enqueued", [])
        posts = [("data_moved_back_by_2", n["d"] == o["d"] - 2), ("tail_unchanged", n["t"] == o["t"]), ("len_plus_2", n["len"] == o["len"] + 2),
                 ("buffer_gets_header_only", n["buf"] == z3.Store(z3.Store(o["buf"], o["d"] - 2, c.a.dlci), o["d"] - 1, W.CTRL_UI)),
                 ("enqueued_once", z3.BoolVal(len(enq) == 1))]
        if len(enq) == 1:
            posts += [("on_queue_of_dlci", enq[0][0] == c.a.dlci), ("the_message_itself", z3.BoolVal(enq[0][1].block is c.mp.block))]
        return posts


# ====================================================================== sercomm_drv_pull

class DrvPull(Contract):
    """sercomm_drv_pull(ch), full case table:
       idle, all queues empty             returns 0, nothing changes
       idle, i = lowest non-empty queue   dequeues its head, *ch = 7E, transmission of it starts at its first octet, returns 1
       busy                               *ch and the new transmitter state are tx_step(...) (escape pending -> the (already inverted)
                                          octet; end -> 7E, message freed, idle; octet in {7E,7D,00} -> MUST be escaped: 7D, octet ^= 20,
                                          escape pending; any other octet MAY be escaped the same way if its inverted form is neither 7E
                                          nor 00, else it is sent as it is), returns 1
       representation invariant (pre and post): idle => state != ESCAPE; busy => data <= next <= tail, escape pending => next < tail and the
       pending octet is neither 7E nor 00.
       [loosened: the first version fixed the escape set to exactly {7E,7D,00}; the statement only demands that no flag / zero octet travels
        unescaped and that delivery is intact - the receiver un-escapes whatever follows 7D]"""
    name = "sercomm_drv_pull"
    roles = {"i": ("ivar", None)}          # the queue index of the dequeue loop, whatever it is called
    externals = EXTERNALS
    external_notes = NOTES
    cases = (("idle",), ("busy",))

    def __init__(self):
        self.loops = {1: LoopSpec(self.inv, self.loop_assigns, ptr_cells=[(lambda c: (c.g, "tx.msg"), lambda c, L, cur: Ptr.NULL(c.E.tt.parse("struct msgb")))])}

    def params(self, c):
        c.ptr("ch")
        if c.mode != "verify":
            raise Unsupported("sercomm_drv_pull: verification only")
        E = c.E
        g = c.g = c.glob("sercomm")
        c.qlen0 = z3.Array("ghost.qlen", z3.IntSort(), z3.IntSort())
        E.state.ghost["qlen"] = c.qlen0
        if c.case[0] == "idle":
            c.set_ptr(g, "tx.msg", Ptr.NULL(E.tt.parse("struct msgb")))
            c.set_ptr(g, "tx.next_char", Ptr.NULL(TInt(8, False)))
        else:
            dl, d, t, n = (z3.Int("ghost.%s" % x) for x in ("data_len", "data", "tail", "next"))
            E.assume(z3.And(0 <= d, d <= n, n <= t, t <= dl, dl <= 65535))
            mp, b = new_msgb(E, "cur", V(dl, 0, 65535), V(d, 0, 65535), V(t, 0, 65535))
            c.set_ptr(g, "tx.msg", mp)
            c.set_ptr(g, "tx.next_char", Ptr(b, (("i", V(n, 0, 65535)),), b.elem))
            c.mp, c.b, c.d, c.t, c.n = mp, b, d, t, n
            c.inputs.update(data=d, tail=t, next=n, state=c.view_pre.get(g, "tx.state"), buf=("array_n", c.view_pre.cell(Ptr(b, (("i", V(0)),), b.elem)), t))

    def requires(self, c):
        st = c.view_pre.get(c.g, "tx.state")
        if c.case[0] == "idle":
            return [("idle_not_in_escape", st != ST_ESC)]
        cur = z3.Select(c.view_pre.cell(Ptr(c.b, (("i", V(0)),), c.b.elem)), c.n)
        return [("escape_pending_means_octet_left", z3.Implies(st == ST_ESC, c.n < c.t)),
                ("escape_pending_means_pending_octet_can_travel", z3.Implies(st == ST_ESC, wire_safe(cur)))]

    def assigns(self, c):
        r = [c.region(c.a.ch), c.region(c.g, "tx.msg"), c.region(c.g, "tx.next_char"), c.region(c.g, "tx.state")]
        if c.case[0] == "busy":
            r.append(c.region(Ptr(c.b, (("i", V(0)),), c.b.elem), whole=True))
        return r

    def loop_assigns(self, c, L):
        return [c.region(c.g, "tx.msg")]

    def inv(self, c, L, entry, cur):
        i = L.i
        q = cur.ghost("qlen")

        def empty_below(j):
            return z3.Implies(z3.And(0 <= j, j < i), z3.Select(c.qlen0, j) == 0)
        return [("i_range", z3.And(0 <= i, i <= NDLCI)), ("queues_untouched", z3.BoolVal(q is not None and q.eq(c.qlen0))),
                ("queues_below_i_empty", c.forall(empty_below, "j", sort="dlci"))]

    def ensures(self, c, old, new, ret):
        g = c.g
        ch = new.get(c.a.ch)
        tn = TxView(new, g)
        if c.case[0] == "idle":
            deq = new.ghost("dequeued", [])
            if not deq:
                def all_empty(j):
                    return z3.Implies(z3.And(0 <= j, j < NDLCI), z3.Select(c.qlen0, j) == 0)
                return [("returns_0", ret == 0), ("only_when_all_queues_empty", c.forall(all_empty, "j", sort="dlci")),
                        ("still_idle", z3.BoolVal(tn.idle)), ("state_unchanged", tn.state == old.get(g, "tx.state"))]
            i, mp, d, t = deq[0]

            def lower_empty(j):
                return z3.Implies(z3.And(0 <= j, j < i), z3.Select(c.qlen0, j) == 0)
            return [("returns_1", ret == 1), ("one_message_dequeued", z3.BoolVal(len(deq) == 1)),
                    ("from_lowest_non_empty_queue", z3.And(z3.Select(c.qlen0, i) > 0, c.forall(lower_empty, "j", sort="dlci"))),
                    ("opening_flag", ch == W.FLAG), ("now_transmitting_it", z3.BoolVal((not tn.idle) and tn.known and tn.msg.block is mp.block)),
                    ("starts_at_first_octet", (tn.n == d) if (tn.known and not tn.idle and tn.n is not None) else z3.BoolVal(False)),
                    ("state_unchanged", tn.state == old.get(g, "tx.state")),
                    ("invariant_next_within_message", z3.And(d <= tn.n, tn.n <= t) if (tn.known and not tn.idle and tn.n is not None) else z3.BoolVal(False))]
        to = TxView(old, g)
        # the implementation's free choice for this octet, read off the step it took: it marked the octet for escaping
        chose = z3.BoolVal(False) if tn.idle else z3.And(z3.Not(to.esc), tn.state == ST_ESC)
        e_ch, e_end, e_buf, e_n, e_esc = tx_step(to.buf, to.d, to.t, to.n, to.esc, extra=chose)
        freed = new.ghost("freed", [])
        posts = [("returns_1", ret == 1), ("octet", ch == e_ch),
                 # stage 2, on the code itself: what goes on the wire between the opening and the closing flag
                 ("no_zero_between_flags", ch != 0),
                 ("flag_only_as_closing_flag", (ch == W.FLAG) == z3.BoolVal(tn.idle)),
                 ("escape_octet_only_as_marker", z3.Implies(z3.And(z3.Not(to.esc), ch == W.ESCAPE), z3.And(z3.BoolVal(not tn.idle), tn.state == ST_ESC))),
                 ("after_marker_no_flag_or_zero", z3.Implies(to.esc, wire_safe(ch)))]
        if tn.idle:
            posts += [("idle_only_at_end", e_end), ("message_freed", z3.BoolVal(c.mp.block.name in freed)), ("state_not_escape", tn.state != ST_ESC),
                      ("next_char_cleared", z3.BoolVal(new.get(g, "tx.next_char") is not None and new.get(g, "tx.next_char").block is None))]
        else:
            same = tn.known and tn.msg.block is c.mp.block and tn.n is not None
            posts += [("not_at_end", z3.Not(e_end)), ("still_this_message", z3.BoolVal(bool(same)))]
            if same:
                posts += [("buffer", tn.buf == e_buf), ("next", tn.n == e_n), ("escape_flag", (tn.state == ST_ESC) == e_esc),
                          ("message_bounds_unchanged", z3.And(tn.d == to.d, tn.t == to.t)),
                          ("invariant_next_within_message", z3.And(tn.d <= tn.n, tn.n <= tn.t, z3.Implies(tn.state == ST_ESC, tn.n < tn.t))),
                          ("invariant_pending_octet_can_travel", z3.Implies(tn.state == ST_ESC, wire_safe(z3.Select(tn.buf, tn.n)))),
                          ("not_freed", z3.BoolVal(c.mp.block.name not in freed))]
        return posts


# ====================================================================== sercomm_drv_rx_char

class DrvRxChar(Contract):
    """sercomm_drv_rx_char(ch).  The contract is what the STATEMENT of C06 needs from the receive step, not the shape of the present code:

       RI (pre and post; established by the zero-initialised `sercomm`): rx.msg is NULL or a receive buffer from sercomm_alloc_msgb(RX)
           (4 octets of headroom, RX of room, 0 <= stored <= RX); in the states WAIT_START / ADDR / ADDR_ESCAPE / CTRL / CTRL_ESCAPE it is
           absent or empty; the state is one of the seven enumerators.
       no receive buffer -> one is allocated first.
       ROOM LEFT (stored < RX): the deterministic table rx_table():
           WAIT_START: 7E -> ADDR, anything else ignored;  ADDR: 7D -> ADDR_ESCAPE, else dlci := ch -> CTRL;  ADDR_ESCAPE: dlci := ch ^ 20 -> CTRL;
           CTRL: 7D -> CTRL_ESCAPE, else ctrl := ch -> DATA;  CTRL_ESCAPE: ctrl := ch ^ 20 -> DATA;
           DATA: 7D -> ESCAPE;  7E -> the buffer is handed to handler[dlci] exactly once (freed when dlci >= _SC_DLCI_MAX or no handler), no
                 buffer, WAIT_START;  else the octet is appended;   ESCAPE: ch ^ 20 appended -> DATA.
       BUFFER FULL (stored == RX; by RI the state is DATA or ESCAPE): a RELATION -
           an octet that would have to be stored (DATA and not 7E/7D; ESCAPE): the frame is DISCARDED = state WAIT_START, nothing delivered,
               the old buffer freed exactly once, afterwards no buffer or a fresh empty one;
           DATA + 7D: discarded, or ESCAPE with the buffer untouched (the discard then happens at the next octet);
           DATA + 7E (payload of exactly RX octets; the statement leaves this boundary open): discarded, or delivered as with room left.
       never a store outside the buffer, never a call of a panic function (mem / ub obligations of the engine).

       Loosened w.r.t. the first version of this contract (which transcribed the code: guard `tailroom == 0` before the switch):
         - `returns` (0 on overflow, else 1) -> `returns_0_or_1`: the target's UART drivers test `< 0` only, osmocon prints a diagnostic on 0;
         - `fresh_buffer_iff_overflow` -> `fresh_buffer_only_when_full` (+ the allowed alternatives above);
         - nothing is said about `tailroom == 0` in a header state (unreachable under RI; the old table reset to WAIT_START there);
         - pre-condition: the receive buffer's geometry is RI's (was: any well-formed msgb)."""
    name = "sercomm_drv_rx_char"
    inline = ("sercomm_alloc_msgb", "msgb_alloc_headroom", "msgb_reserve", "msgb_tailroom", "msgb_put", "dispatch_rx_msg")
    externals = EXTERNALS
    external_notes = NOTES
    cases = (("nomsg",), ("msg",))

    def __init__(self, rx_size=256):
        self.RX = rx_size

    def params(self, c):
        c.int("ch")
        if c.mode != "verify":
            raise Unsupported("sercomm_drv_rx_char: verification only")
        E = c.E
        g = c.g = c.glob("sercomm")
        v = c.view_pre
        if c.case[0] == "nomsg":
            c.set_ptr(g, "rx.msg", Ptr.NULL(E.tt.parse("struct msgb")))
            c.mp = None
        else:
            t = z3.Int("ghost.rx_tail")
            E.assume(z3.And(4 <= t, t <= self.RX + 4))
            mp, b = new_msgb(E, "rxmsg", V(self.RX + 4), V(4), V(t, 4, self.RX + 4))
            c.set_ptr(g, "rx.msg", mp)
            c.mp, c.b, c.t = mp, b, t
            c.inputs.update(stored=t - 4)
        # the complete receiver state of the counter-model (the replay drives the real receiver into exactly this state): state, address and
        # control octet seen, and whether the address has a handler
        dl_ = v.get(g, "rx.dlci")
        c.inputs.update(state=v.get(g, "rx.state"), dlci=dl_, ctrl=v.get(g, "rx.ctrl"), handler=v.get(g, "rx.dlci_handler[]", dl_))

    def requires(self, c):
        st = c.view_pre.get(c.g, "rx.state")
        r = [("RI_state_is_an_enumerator", z3.And(0 <= st, st <= 6))]
        if c.mp is not None:
            r.append(("RI_header_states_have_an_empty_buffer", z3.Implies(header_state(st), c.t == 4)))
        return r

    def assigns(self, c):
        r = [c.region(c.g, "rx.msg"), c.region(c.g, "rx.state"), c.region(c.g, "rx.dlci"), c.region(c.g, "rx.ctrl")]
        if c.mp is not None:
            r += [c.region(c.mp, "tail"), c.region(c.mp, "len"), c.region(Ptr(c.b, (("i", V(0)),), c.b.elem), whole=True)]
        return r

    def callback(self, E, fp, args, node):
        """ASSUMED contract of a DLCI handler: takes ownership of the message, does not call into sercomm"""
        dlci, msg = args
        mp = msg_parts(View(E, E.state), msg)
        E.state.ghost["delivered"] = E.state.ghost.get("delivered", []) + [{"handler": fp.code.z(), "dlci": zt(dlci), "msg": msg, "buf": mp["buf"],
                                                                           "d": mp["d"], "t": mp["t"]}]
        return None

    def ensures(self, c, old, new, ret):
        g, RX = c.g, self.RX
        o = lambda p: old.get(g, p)
        n = lambda p: new.get(g, p)
        alloc = new.ghost("allocated", [])
        freed = new.ghost("freed", [])
        deliv = new.ghost("delivered", [])
        ch = c.a.ch
        posts = []
        # the buffer the step works on: the existing one, or the one allocated on entry (empty, 4 octets of headroom)
        if c.mp is None:
            if not alloc:
                return [("buffer_allocated_when_missing", z3.BoolVal(False))]
            cur, first = alloc[0], 1
            d0 = t0 = z3.IntVal(4)
            len0 = z3.IntVal(0)
            obuf = c.E.initial_cell(cur.block.buffer, ("[]",), False)
        else:
            cur, first = c.mp, 0
            ob = msg_parts(old, cur)
            d0, t0, len0, obuf = ob["d"], ob["t"], ob["len"], ob["buf"]
        st0 = o("rx.state")
        full = (t0 - d0 == RX)
        tb = rx_table(st0, o("rx.dlci"), o("rx.ctrl"), ch)
        st1 = n("rx.state")
        nm = new.get(g, "rx.msg")
        cur_freed = freed.count(cur.block.name)
        cur_delivered = [x for x in deliv if x["msg"].block is cur.block]
        hcode = old.get(g, "rx.dlci_handler[]", o("rx.dlci"))
        has_handler = z3.And(o("rx.dlci") < NDLCI, hcode != 0)
        posts += [("returns_0_or_1", z3.And(0 <= ret, ret <= 1)), ("dlci", n("rx.dlci") == tb["dlci"]), ("ctrl", n("rx.ctrl") == tb["ctrl"]),
                  ("RI_state_is_an_enumerator", z3.And(0 <= st1, st1 <= 6))]

        def ri_buffer(mp_, label):
            nb = msg_parts(new, mp_)
            return nb, [("RI_%s_geometry" % label, z3.And(nb["h"] == 0, nb["d"] == 4, nb["dl"] == RX + 4, 4 <= nb["t"], nb["t"] <= RX + 4, nb["len"] == nb["t"] - 4)),
                        ("RI_header_states_have_an_empty_buffer", z3.Implies(header_state(st1), nb["t"] == 4))]
        replaced = len(alloc) == first + 1 and nm is not None and nm.block is alloc[-1].block
        gone = nm is not None and nm.block is None and len(alloc) == first
        same = nm is not None and nm.block is cur.block and len(alloc) == first
        if replaced:
            # the frame is discarded, a fresh buffer is in place
            nb, ri = ri_buffer(alloc[-1], "fresh_buffer")
            posts += [("fresh_buffer_only_when_full", full), ("state", st1 == ST_WAIT), ("discarded_buffer_freed_exactly_once", z3.BoolVal(cur_freed == 1)),
                      ("fresh_buffer_empty", nb["t"] == 4), ("nothing_delivered", z3.BoolVal(not deliv))] + ri
        elif gone and cur_delivered:
            dv = cur_delivered[0]
            posts += [("delivery_only_at_closing_flag", tb["dispatch"]), ("state", st1 == ST_WAIT),
                      ("delivered_once", z3.BoolVal(len(deliv) == 1 and cur_freed == 0)), ("only_with_a_handler", has_handler),
                      ("to_the_handler_of_dlci", z3.And(dv["dlci"] == o("rx.dlci"), dv["handler"] == hcode)),
                      ("payload_as_received", z3.And(dv["d"] == d0, dv["t"] == t0, dv["buf"] == obuf))]
        elif gone:
            # no buffer afterwards and nothing handed over: a frame end nobody listens to, or a discarded over-long frame
            posts += [("state", st1 == ST_WAIT), ("dropped_buffer_freed_exactly_once", z3.BoolVal(cur_freed == 1 and not deliv)),
                      ("dropped_only_without_handler_or_when_full", z3.Or(full, z3.And(tb["dispatch"], z3.Not(has_handler))))]
        elif same:
            # same buffer: with room left the table; a full buffer may only be kept to defer the discard (DATA + 7D -> ESCAPE, untouched)
            nb, ri = ri_buffer(cur, "buffer")
            inc = z3.If(z3.And(z3.Not(full), tb["store"]), 1, 0)
            posts += [("full_buffer_kept_only_to_defer_the_discard", z3.Implies(full, z3.And(st0 == ST_DATA, ch == W.ESCAPE))),
                      ("buffer_given_away_at_frame_end", z3.Implies(z3.Not(full), z3.Not(tb["dispatch"]))),
                      ("state", st1 == tb["st"]), ("same_buffer", z3.BoolVal(cur_freed == 0 and not deliv)),
                      ("tail_advances_iff_stored", nb["t"] == t0 + inc), ("len_follows", nb["len"] == len0 + inc),
                      ("buffer_content", nb["buf"] == z3.If(inc == 1, z3.Store(obuf, t0, tb["val"]), obuf))] + ri
        else:
            posts.append(("outcome_is_one_of_discard_deliver_drop_continue", z3.BoolVal(False)))
        return posts


# ====================================================================== sercomm_register_rx_cb

class RegisterRxCb(Contract):
    """sercomm_register_rx_cb(dlci, cb): dlci >= _SC_DLCI_MAX -> -EINVAL; a handler is registered already -> -EBUSY (both: nothing
       changes); else handler[dlci] = cb, returns 0, the other handlers are unchanged."""
    name = "sercomm_register_rx_cb"

    def params(self, c):
        c.int("dlci")
        c.fnptr("cb")
        c.g = c.glob("sercomm")

    def assigns(self, c):
        return [c.region(c.g, "rx.dlci_handler", whole=True)]

    def ensures(self, c, old, new, ret):
        oh, nh = old.cell(c.g, "rx.dlci_handler[]"), new.cell(c.g, "rx.dlci_handler[]")
        d = c.a.dlci
        return [("out_of_range_EINVAL", z3.Implies(d >= NDLCI, z3.And(ret == -22, nh == oh))),
                ("taken_EBUSY", z3.Implies(z3.And(d < NDLCI, z3.Select(oh, d) != 0), z3.And(ret == -16, nh == oh))),
                ("registered", z3.Implies(z3.And(d < NDLCI, z3.Select(oh, d) == 0), z3.And(ret == 0, nh == z3.Store(oh, d, c.a.cb))))]


# ====================================================================== the abstract product machine (stages 3 and 4)
#
# What the step contracts above prove about the code, as functions over abstract states (z3 terms):
#   transmitter  Tx(idle, buf, d, t, n, esc)           receiver  Rx(st, dlci, ctrl, has, rb, rd, rt, rdl)
#   pull_start   = DrvPull case idle, message dequeued  (opening_flag, now_transmitting_it, starts_at_first_octet, state_unchanged)
#   pull_busy    = DrvPull case busy                    (octet, buffer, next, escape_flag, idle_only_at_end, message_bounds_unchanged)
#   rx_abs       = DrvRxChar, both cases, a RELATION    (state, dlci, ctrl, RI_*, fresh_buffer_only_when_full, fresh_buffer_empty, nothing_delivered,
#                                                        delivery_only_at_closing_flag, payload_as_received, to_the_handler_of_dlci,
#                                                        dropped_only_without_handler_or_when_full, full_buffer_kept_only_to_defer_the_discard,
#                                                        buffer_given_away_at_frame_end, tail_advances_iff_stored, buffer_content)

class Tx:
    def __init__(self, tag):
        I = z3.IntSort()
        self.idle, self.esc = z3.Bool(tag + ".idle"), z3.Bool(tag + ".esc")
        self.buf = z3.Array(tag + ".buf", I, I)
        self.d, self.t, self.n = z3.Int(tag + ".d"), z3.Int(tag + ".t"), z3.Int(tag + ".n")

    def but(self, **kw):
        o = object.__new__(Tx)
        o.__dict__.update(self.__dict__)
        o.__dict__.update(kw)
        return o


class Rx:
    def __init__(self, tag):
        I = z3.IntSort()
        self.st, self.dlci, self.ctrl = z3.Int(tag + ".st"), z3.Int(tag + ".dlci"), z3.Int(tag + ".ctrl")
        self.has = z3.Bool(tag + ".has")
        self.rb = z3.Array(tag + ".rb", I, I)
        self.rd, self.rt, self.rdl = z3.Int(tag + ".rd"), z3.Int(tag + ".rt"), z3.Int(tag + ".rdl")

    def but(self, **kw):
        o = object.__new__(Rx)
        o.__dict__.update(self.__dict__)
        o.__dict__.update(kw)
        return o

    def types(self):
        return z3.And(0 <= self.dlci, self.dlci <= 255, 0 <= self.ctrl, self.ctrl <= 255)


def pull_busy(tx, tag="tx"):
    """-> (octet, tx'); the implementation's choice to escape an octet that need not be escaped is a free Boolean constant"""
    ch, end, buf1, n1, esc1 = tx_step(tx.buf, tx.d, tx.t, tx.n, tx.esc, extra=z3.Bool(tag + ".escapes_this_octet_too"))
    return ch, tx.but(idle=end, buf=buf1, n=n1, esc=esc1)


def pull_start(tx, mbuf, md, mt):
    """idle transmitter, message (mbuf, md, mt) dequeued -> (octet, tx')"""
    return z3.IntVal(W.FLAG), tx.but(idle=z3.BoolVal(False), buf=mbuf, d=md, t=mt, n=md)


def rx_abs(rx, ch, RX, tag):
    """the receive step as the contract of sercomm_drv_rx_char allows it -> (rx', info: dict(discard, delivered-flag, dlci, buf, d, t)).
    The outcomes the contract leaves open when the buffer is full are free Boolean constants (`defer`, `deliver at the boundary`, `no fresh
    buffer`): an obligation that holds for all their values holds for every implementation of the contract.  A full buffer in a header
    state is excluded by RI; the contract says nothing there, so the successor is unconstrained (fresh constants)."""
    I = z3.IntSort()
    fresh1, fresh2 = z3.Array(tag + ".fresh1", I, I), z3.Array(tag + ".fresh2", I, I)
    defer, deliver, absent = z3.Bool(tag + ".defer"), z3.Bool(tag + ".deliver_at_boundary"), z3.Bool(tag + ".no_fresh_buffer")
    rb0 = z3.If(rx.has, rx.rb, fresh1)
    rd0, rt0, rdl0 = z3.If(rx.has, rx.rd, 4), z3.If(rx.has, rx.rt, 4), z3.If(rx.has, rx.rdl, RX + 4)
    full = rdl0 - rt0 == 0
    tb = rx_table(rx.st, rx.dlci, rx.ctrl, ch)
    in_data = rx.st == ST_DATA
    discard = z3.And(full, z3.Or(must_store(rx.st, ch), z3.And(in_data, ch == W.ESCAPE, z3.Not(defer)), z3.And(in_data, ch == W.FLAG, z3.Not(deliver))))
    unspec = z3.And(full, header_state(rx.st))
    dp = z3.And(tb["dispatch"], z3.Not(discard))
    inc = z3.If(z3.And(tb["store"], z3.Not(full)), 1, 0)
    u = Rx(tag + ".unspecified")
    pick = lambda a, b_, c_: z3.If(unspec, a, z3.If(discard, b_, c_))
    rx1 = rx.but(st=pick(u.st, ST_WAIT, tb["st"]), dlci=z3.If(unspec, u.dlci, tb["dlci"]), ctrl=z3.If(unspec, u.ctrl, tb["ctrl"]),
                 has=pick(u.has, z3.Not(absent), z3.Not(dp)),
                 rb=pick(u.rb, fresh2, z3.If(inc == 1, z3.Store(rb0, rt0, tb["val"]), rb0)),
                 rd=pick(u.rd, 4, rd0), rt=pick(u.rt, 4, rt0 + inc), rdl=pick(u.rdl, RX + 4, rdl0))
    return rx1, {"discard": discard, "flag": z3.And(dp, z3.Not(unspec)), "dlci": rx.dlci, "buf": rb0, "d": rd0, "t": rt0, "full": full}


def octet(x):
    return z3.And(0 <= x, x <= 255)


def rx_geometry(rx, RX):
    """buffers are only ever allocated by sercomm_alloc_msgb(SERCOMM_RX_MSG_SIZE) and only appended to"""
    return z3.And(0 <= rx.st, rx.st <= 6, z3.Implies(rx.has, z3.And(rx.rd == 4, rx.rdl == RX + 4, rx.rd <= rx.rt, rx.rt <= rx.rdl)))


def rx_empty(rx):
    return z3.Or(z3.Not(rx.has), rx.rt == rx.rd)


def sync_idle(rx, RX):
    """in sync between frames: waiting for a flag, nothing buffered"""
    return z3.And(rx.st == ST_WAIT, rx_empty(rx), rx_geometry(rx, RX), rx.types())


def txi(tx, O, js):
    """transmitter invariant w.r.t. the un-mutated message O; the quantified clause `forall j in [n+esc, t): buf[j] == O[j]` is given
    at the instances js"""
    e = z3.If(tx.esc, 1, 0)
    cl = [z3.Not(tx.idle), 0 <= tx.d, tx.d <= tx.n, tx.n <= tx.t,
          z3.Implies(tx.esc, z3.And(tx.n < tx.t, wire_safe(W.xor20(z3.Select(O, tx.n))), z3.Select(tx.buf, tx.n) == W.xor20(z3.Select(O, tx.n))))]
    for j in js:
        cl.append(z3.Implies(z3.And(tx.n + e <= j, j < tx.t), z3.Select(tx.buf, j) == z3.Select(O, j)))
    return cl


def queue_entry(i, buf, d, t):
    """what sercomm_sendmsg leaves on queue i: address octet i, control octet 03, then the payload"""
    return z3.And(d >= 0, t - d >= 2, z3.Select(buf, d) == i, z3.Select(buf, d + 1) == W.CTRL_UI, 0 <= i, i < NDLCI)
